'''C03 -- block manager transparency and structural coherence of Frame.'''
import datetime as _dt
import io
import itertools
import math

import numpy as np

from .. import lit
from .. import zoo
from ..core import Case

ID = 'C03'
MANIFEST = {
    'text': ('Block-manager transparency. Coq (unbounded in rows, columns, layouts, keys, shifts, histories; Properties/C03.v): every block-walking '
             'operation modelled as M_op on a block layout refines its specification S_op on the flattened column list, hence is layout independent: '
             'column selection (C03_select_columns_layout_independent), per-block cellwise maps isna/notna/unary/scalar operators/astype '
             '(C03_map_blocks_refines), the directory read routes axis_values/column/element (C03_axis_values_refines, C03_column_refines, '
             'C03_element_refines), consolidation (C03_consolidate_flatten, _groups = maximal equal-dtype runs, _canonical, _maximal), append/extend '
             'histories (C03_extend_directory), row dtype over blocks = over columns (C03_row_dtype_layout_independent, with util.resolve_dtype and '
             'TypeBlocks._cols_to_slice REGENERATED from /repo and proved equal to their typed forms: C03_resolve_dtype_translated, '
             'C03_cols_to_slice_translated), values and transpose (C03_values_refines, C03_transpose_refines, C03_rows_of_transposes), roll with the '
             'split of the start block (C03_roll_refines), constructor coherence (C03_frame_coherent, C03_frame_rejects), agreement of the read routes '
             '(C03_readers_agree, C03_to_pairs_refines); fillna/dropna under the guards that make their per-block decisions unobservable; '
             'the get_block_match stack of clip / assign-by-blocks hands out exactly the next w source columns (C03_take_cols_spec, C03_take_many_spec) and '
             'clip with Frame bounds equals the column-by-column clip for every (receiver layout, bound layouts) pair (C03_clip_refines, C03_clip_layout_independent); '
             'a 1-D operand chopped per block equals the per-column pairing (C03_binop_row_refines). '
             'Correspondence through the public interface: EVERY block layout of the enumerated column-dtype sequences (<= 4 columns quick, <= 5 thorough), '
             '0-row and 0-column frames included; ~440-570 single-frame public operations per frame compared layout-vs-canonical-layout (labels, '
             'per-column values, per-column dtypes, error class); read routes values/iloc/loc/iter_element/iter_array/iter_series/to_pairs against the '
             'columns the frame was built from; result BLOCKS of the modelled operations against M (exact output layout) and result columns against S.'),
    'note': ('trusted: Coq kernel, py2v translator (resolve_dtype, _cols_to_slice), the np.result_type oracle of SF/Dtype.v, the cell-level NumPy '
             'parameters of the models (cell functions, cast, roll of one column), harness. Partial: operations without a block-level model '
             '(assign, drop, mask, sort, reindex/resize_blocks, group, reductions, binary operators between frames, matmul, directional and sided fills, '
             'keyed astype, non-wrap shift, vstack/concat, from_overlay) are covered by the layout-vs-layout and receiver-x-argument-layout comparisons only; '
             'M_clip assumes bound columns of the receiver dtype; complex columns have no Coq-side strata; branches of type_blocks.py no call reaches '
             '(TypeBlocks.equals ValueError fallback and compare_class mismatch) are not exercised; display/mloc/shapes are block-structure observables by '
             'definition and only sanity-checked; '
             '9 known finding classes (known/C03.jsonl) where the unchanged code IS layout/history dependent or fails on 0-sized frames; '
             'Refuted/C03.v holds the model-level witnesses. Keys with repeated integers are outside (unobservable through Frame: labels are unique).'),
    'technique': 'refinement M_op(layout) = S_op(flatten layout) + exhaustive layout enumeration, metamorphic layout-vs-canonical comparison',
}
PROPERTY_FILES = ['Properties/C03.v']
REFUTED_FILES = ['Refuted/C03.v']
MODEL_FILES = ['SF/BlocksOps.v', 'SF/BlocksOpsVal.v']
TRANSLATED = ['resolve_dtype', 'cols_to_slice']
IMPORTS = 'Require Import SF.Prelude SF.PySlice SF.Dtype SF.Value SF.Blocks SF.BlocksOps SF.BlocksOpsVal.'
RULE = ('frames: a fixed list of column-dtype sequences (kinds i=int64 h=int16 f=float64 with NaN g=float64 b=bool U=<U2 O=object with None M=datetime64[D]) '
        'x row counts, plus a seeded random stream of other sequences; for each, EVERY block layout of sfv.zoo.layouts_for (all compositions into blocks, '
        'every width-1 block as 1-D and as 2-D) is built from the SAME columns. Strata: api:layout-vs-canonical (one case per layout x public operation: '
        'canonical observable equal to that of the all-1-D layout; replay: build(kinds, rows, layout) then dict(ops_for(kinds, rows))[op]); api:readers '
        '(shape/len coherence, every cell by 13 read routes, directory and element reads incl. out-of-range probes against M and S); model:* (result blocks == M '
        'on the observed input blocks, result columns == S on the logical columns); kernel:append-extend (incremental directory); api:history-vs-direct '
        '(FrameGO grown by columns vs built at once); api:malformed-constructor. Non-trivial: the canonical result is not an exception / the frame is not 0-sized / '
        'the layout has more than one block; distinct = distinct (frame, layout, operation, argument).')
ASSUMPTIONS = ['Python int = Z', 'np.result_type as modelled by SF.Dtype.np_result_type (oracle)',
               'NumPy applies a ufunc / astype / row key / np.roll(axis=0) to every column of a block alike (cell functions are parameters of the models)',
               'datetime/timedelta units ps/fs/as and structured dtypes are outside the model']
EXHAUSTIVE = {'quick': True, 'thorough': True}     # layouts of every enumerated frame: complete; operations/arguments: a fixed list


# ----------------------------------------------------------------------------- the frame zoo
ROW_LABELS = ('p', 'q', 'r', 's', 't', 'u')
COL_LABELS = ('a', 'b', 'c', 'd', 'e', 'f')


def column(kind, j, n):
    '''Column j (0-based) of kind `kind` with n rows; every cell differs from its neighbours so that a
    misplaced cell / column is visible; floats are exact dyadics; a missing value sits on the diagonal.'''
    if kind == 'i':
        return np.array([10 * (j + 1) + i for i in range(n)], dtype=np.int64)
    if kind == 'h':     # a second integer width
        return np.array([3 * (j + 1) - i for i in range(n)], dtype=np.int16)
    if kind == 'f':
        return np.array([(np.nan if i == (j % 3) else (j + 1) + i / 2) for i in range(n)], dtype=np.float64)
    if kind == 'g':     # float without missing values
        return np.array([(j + 1) * 1.5 - i for i in range(n)], dtype=np.float64)
    if kind == 'b':
        return np.array([bool((i + j) % 2) for i in range(n)], dtype=bool)
    if kind == 'U':
        return np.array(['%s%d' % ('xyzw'[(j + i) % 4], i) for i in range(n)], dtype='<U2')
    if kind == 'O':
        a = np.empty(n, dtype=object)
        for i in range(n):
            a[i] = None if i == ((j + 1) % 3) else ((j + 1) * 100 + i if (i + j) % 2 else 'o%d%d' % (j, i))
        return a
    if kind == 'M':
        return np.array([np.datetime64('2020-01-01') + (7 * j + i) for i in range(n)], dtype='datetime64[D]')
    if kind == 'u':     # unsigned
        return np.array([(40 * (j + 1) + 3 * i) % 250 for i in range(n)], dtype=np.uint8)
    if kind == 'S':     # bytes
        return np.array([('%s%d' % ('pqrs'[(j + i) % 4], i)).encode() for i in range(n)], dtype='S2')
    if kind == 'm':     # timedelta64[s]
        return np.array([np.timedelta64(60 * (j + 1) + i, 's') if i != (j % 3) else np.timedelta64('NaT') for i in range(n)], dtype='timedelta64[s]')
    if kind == 'c':     # complex
        return np.array([complex(j + 1, i) for i in range(n)], dtype=np.complex128)
    raise ValueError(kind)


def columns_for(kinds, n):
    cols = [column(k, j, n) for j, k in enumerate(kinds)]
    for c in cols:
        c.flags.writeable = False
    return cols


def canonical_layout(m):
    return tuple((1, False) for _ in range(m))


def build(kinds, n, layout, cls=None):
    cols = columns_for(kinds, n)
    return zoo.frame_from_columns(cols, layout, index=ROW_LABELS[:n], columns=COL_LABELS[:len(kinds)], name='fr', cls=cls)


# ----------------------------------------------------------------------------- canonical observables
def _scalar(v):
    '''Canonical, comparable form of one cell / label / scalar result (class-preserving; NaN equal to NaN).'''
    if v is None:
        return ('N',)
    if isinstance(v, (bool, np.bool_)):
        return ('b', bool(v))
    if isinstance(v, (np.datetime64, np.timedelta64)):        # before the integer test: timedelta64 is a NumPy signed integer
        return ('t', str(v.dtype), 'NaT' if np.isnat(v) else int(v.astype('int64')))
    if isinstance(v, (int, np.integer)):
        return ('i', int(v))
    if isinstance(v, (float, np.floating)):
        f = float(v)
        return ('f', 'nan' if f != f else f.hex())
    if isinstance(v, (complex, np.complexfloating)):
        return ('c', repr(complex(v)))
    if isinstance(v, (str, np.str_)):
        return ('s', str(v))
    if isinstance(v, (bytes, np.bytes_)):
        return ('y', bytes(v))
    if isinstance(v, (np.datetime64, np.timedelta64)):
        return ('t', str(v.dtype), 'NaT' if np.isnat(v) else int(v.astype('int64')))
    if isinstance(v, (_dt.date, _dt.time, _dt.timedelta)):
        return ('pydt', type(v).__name__, v.isoformat() if hasattr(v, 'isoformat') else str(v))
    if isinstance(v, np.dtype):
        return ('dtype', str(v))
    if isinstance(v, tuple):
        return ('T',) + tuple(_scalar(x) for x in v)
    if isinstance(v, type):
        return ('type', v.__name__)
    raise TypeError(f'no canonical form for {type(v).__name__}')


def _array(a):
    if a.ndim == 0:
        return ('A0', str(a.dtype), _scalar(a.item() if a.dtype.kind not in 'Mm' else a[()]))
    flat = a.ravel() if a.dtype.kind in 'Mm' else None
    if a.dtype.kind in 'Mm':
        cells = tuple(_scalar(x) for x in flat)
    elif a.dtype.kind == 'O':
        cells = tuple(_obs(x) for x in a.ravel().tolist())
    else:
        cells = tuple(_scalar(x) for x in a.ravel().tolist())
    return ('A', a.shape, str(a.dtype), cells)


def _labels(ix):
    return ('I', type(ix).__name__, ix.depth, tuple(_scalar(x) for x in lit.labels(ix)), _scalar(ix.name) if not isinstance(ix.name, tuple) or True else None)


def _obs(r, depth=0):
    '''Canonical observable of any result of a public call: labels, per-column values, per-column dtypes, names, classes.'''
    import static_frame as sf
    if depth > 6:
        raise TypeError('too deep')
    if isinstance(r, sf.Frame):
        cols = tuple(_array(r._blocks._extract_array(None, j)) for j in range(r.shape[1]))
        return ('F', type(r).__name__, r.shape, _labels(r.index), _labels(r.columns), cols, _scalar(r.name))
    if isinstance(r, sf.Series):
        return ('S', type(r).__name__, _labels(r.index), _array(r.values), _scalar(r.name))
    if isinstance(r, sf.Index) or isinstance(r, sf.IndexHierarchy):
        return _labels(r)
    if isinstance(r, sf.TypeBlocks):
        return ('TB', r.shape, tuple(_array(r._extract_array(None, j)) for j in range(r.shape[1])))
    if isinstance(r, np.ma.MaskedArray):
        return ('MA', _array(np.asarray(r.data)), _array(np.asarray(np.ma.getmaskarray(r))))
    if isinstance(r, np.ndarray):
        return _array(r)
    if isinstance(r, (list, tuple)):
        return (type(r).__name__ if not hasattr(r, '_fields') else 'namedtuple',) + tuple(_obs(x, depth + 1) for x in r)
    if isinstance(r, dict):
        return ('dict',) + tuple((_obs(k, depth + 1), _obs(v, depth + 1)) for k, v in r.items())
    if isinstance(r, (str, bytes)) or r is None or isinstance(r, (bool, int, float, complex, np.generic, np.dtype, type, _dt.date, _dt.time, _dt.timedelta)):
        return _scalar(r)
    if hasattr(r, '__next__') or hasattr(r, '__iter__'):
        return ('iter',) + tuple(_obs(x, depth + 1) for x in r)
    raise TypeError(f'no canonical form for {type(r).__name__}')


def observe(fn, f):
    try:
        return _obs(fn(f))
    except Exception as e:  # noqa
        return ('X', lit.err_class(e))


# ----------------------------------------------------------------------------- the operations
def _csv(f, meth, **kw):
    fp = io.StringIO()
    getattr(f, meth)(fp, **kw)
    return fp.getvalue()


def _sel(n, m):
    '''Selection keys (rows x columns) worth trying for an n x m frame: ints, slices of both directions, lists, masks.'''
    rows = [None, 0, [n - 1, 0] if n else [], -1, slice(None), slice(0, 1), slice(1, None), slice(None, None, -1), [0], slice(0, 0)]
    cols = [None, 0, -1, m - 1, slice(None), slice(0, 1), slice(1, 3), slice(1, None), slice(None, None, -1), slice(None, None, 2),
            slice(m, None, -2), slice(-1, -m - 1, -2),
            [0], [m - 1, 0] if m else [], list(range(m))[::-1], [i for i in range(m) if i % 2 == 0], list(range(1, m)) + [0] if m else [],
            np.array([bool(i % 2) for i in range(m)], dtype=bool), np.array([i != 1 for i in range(m)], dtype=bool), m, -m - 1, [m],
            [0, 1, 0] if m > 1 else [0, 0]]      # repeated positions (fix ecbc9f2): duplicate labels at Frame level, plain selection at TypeBlocks level
    return rows, cols


def ops_for(kinds, n, full=True):
    '''(name, fn(frame), weight) for every single-frame public operation exercised; fn may raise (the class is the observable).'''
    import static_frame as sf
    m = len(kinds)
    L = COL_LABELS[:m]
    R = ROW_LABELS[:n]
    out = []
    add = lambda name, fn: out.append((name, fn))

    # ---- structure / readers
    add('shape', lambda f: (f.shape, len(f.index), len(f.columns), len(f), f.size, f.ndim))
    add('values', lambda f: f.values)
    add('dtypes', lambda f: f.dtypes)
    add('nbytes', lambda f: f.nbytes)
    add('columns', lambda f: f.columns)
    add('index', lambda f: f.index)
    add('keys', lambda f: tuple(f.keys()))
    add('items', lambda f: tuple(f.items()))
    add('iter', lambda f: tuple(iter(f)))
    add('contains', lambda f: ('a' in f, 'zz' in f))
    add('repr', lambda f: repr(f))
    add('str', lambda f: str(f))
    add('display_wide', lambda f: repr(f.display_wide()))
    add('to_pairs0', lambda f: f.to_pairs(0))
    add('to_pairs1', lambda f: f.to_pairs(1))
    add('T', lambda f: f.T)
    add('transpose', lambda f: f.transpose())
    add('T.T', lambda f: f.T.T)
    for ax in (0, 1):
        add(f'iter_array{ax}', lambda f, ax=ax: f.iter_array(axis=ax))
        add(f'iter_array_items{ax}', lambda f, ax=ax: f.iter_array_items(axis=ax))
        add(f'iter_series{ax}', lambda f, ax=ax: f.iter_series(axis=ax))
        add(f'iter_series_items{ax}', lambda f, ax=ax: f.iter_series_items(axis=ax))
        add(f'iter_tuple{ax}', lambda f, ax=ax: f.iter_tuple(axis=ax))
        add(f'iter_tuple_items{ax}', lambda f, ax=ax: f.iter_tuple_items(axis=ax))
    add('iter_element', lambda f: f.iter_element())
    add('iter_element_items', lambda f: f.iter_element_items())
    add('iter_element.apply', lambda f: f.iter_element().apply(lambda x: (x, 1)))
    add('iter_array1.apply', lambda f: f.iter_array(axis=1).apply(lambda a: len(a)))
    add('iter_series0.apply', lambda f: f.iter_series(axis=0).apply(lambda s: s.values[0] if len(s) else None))
    add('tb.axis_values0', lambda f: f._blocks.axis_values(0))
    add('tb.axis_values1', lambda f: f._blocks.axis_values(1))
    add('tb.axis_values0r', lambda f: f._blocks.axis_values(0, reverse=True))
    add('tb.axis_values1r', lambda f: f._blocks.axis_values(1, reverse=True))
    add('tb.element_items0', lambda f: f._blocks.element_items(0))
    add('tb.element_items1', lambda f: f._blocks.element_items(1))
    add('tb.consolidate', lambda f: f._blocks.consolidate())
    add('tb.values', lambda f: f._blocks.values)
    add('tb.dtypes', lambda f: f._blocks.dtypes)
    add('tb.len', lambda f: len(f._blocks))
    add('tb.copy', lambda f: f._blocks.copy())

    # ---- positional selection
    rows, cols = _sel(n, m)
    for ri, rk in enumerate(rows):
        for ci, ck in enumerate(cols):
            if rk is None and ck is None:
                continue
            if not full and ri > 2 and ci not in (0, 1, 7):      # quick tier: every column key x 3 row keys, every row key x 3 column keys
                continue
            if ck is None:
                add(f'iloc[{rk!r}]', lambda f, rk=rk: f.iloc[rk])
            else:
                rr = slice(None) if rk is None else rk
                add(f'iloc[{rr!r},{ck!r}]', lambda f, rr=rr, ck=ck: f.iloc[rr, ck])
    for ck in cols:
        if ck is not None:
            add(f'tb.extract_array[:,{ck!r}]', lambda f, ck=ck: f._blocks._extract_array(None, ck))
            add(f'tb.extract_array[0,{ck!r}]', lambda f, ck=ck: f._blocks._extract_array(0, ck))
    # ---- label selection
    add('getitem[a]', lambda f: f['a'])
    if m:
        add('getitem[last]', lambda f: f[L[-1]])
        add('getitem[list-rev]', lambda f: f[list(L[::-1])])
        add('getitem[slice]', lambda f: f[L[0]:L[-1]])
        add('getitem[mask]', lambda f: f[f.columns.values != L[0]])
        add('loc[:,list]', lambda f: f.loc[:, [L[-1], L[0]]])
        add('loc[:,b:]', lambda f: f.loc[:, 'b':])
        add('get', lambda f: f.get(L[-1]))
    add('get-missing', lambda f: f.get('zz', 5))
    if n:
        add('loc[row]', lambda f: f.loc[R[-1]])
        add('loc[row,col]', lambda f: f.loc[R[0], L[-1]] if m else f.loc[R[0]])
        add('loc[rows,cols]', lambda f: f.loc[[R[-1], R[0]], list(L[1:])])
    add('loc[missing]', lambda f: f.loc['zz'])
    add('loc[:,missing]', lambda f: f.loc[:, 'zz'])
    add('head1', lambda f: f.head(1))
    add('tail2', lambda f: f.tail(2))
    add('bloc', lambda f: f.bloc[f.notna()])
    add('bloc-eq', lambda f: f.bloc[f == f.iloc[0, 0]] if n and m else f.bloc[f.isna()])

    # ---- cellwise / per-block maps
    add('isna', lambda f: f.isna())
    add('notna', lambda f: f.notna())
    add('neg', lambda f: -f)
    add('pos', lambda f: +f)
    add('abs', lambda f: abs(f))
    add('invert', lambda f: ~f)
    add('round', lambda f: round(f, 0))
    for name, fn in (('add1', lambda f: f + 1), ('radd1', lambda f: 1 + f), ('mul2', lambda f: f * 2), ('sub', lambda f: 2 - f),
                     ('div', lambda f: f / 2), ('floordiv', lambda f: f // 2), ('mod', lambda f: f % 2), ('pow', lambda f: f ** 2),
                     ('eq', lambda f: f == 11), ('ne', lambda f: f != 11), ('lt', lambda f: f < 12), ('ge', lambda f: f >= 12),
                     ('and', lambda f: f & True), ('or', lambda f: f | False), ('addstr', lambda f: f + 'z'), ('eqstr', lambda f: f == 'x0'),
                     ('eqNone', lambda f: f == None)):  # noqa: E711
        add('op:' + name, fn)
    add('op:mul-series', lambda f: f * sf.Series(range(1, m + 1), index=L))
    add('op:add-series-partial', lambda f: f + sf.Series((1, 2), index=('b', 'zz')))
    add('op:add-array-row', lambda f: f + np.arange(m))
    add('op:mul-array2d', lambda f: f * np.arange(n * m).reshape(n, m))
    # the same logical frame in another layout as the second operand: block-compatible / reblock / values paths
    others = {'canon': build(kinds, n, canonical_layout(m))}
    lays = layouts(kinds, n)
    others['packed'] = build(kinds, n, min(lays, key=len))             # fewest blocks
    for oname, g in others.items():
        add(f'op:f+{oname}', lambda f, g=g: f + g)
        add(f'op:{oname}-f', lambda f, g=g: g - f)
        add(f'op:f=={oname}', lambda f, g=g: f == g)
        add(f'op:f<{oname}', lambda f, g=g: f < g)
        add(f'equals:{oname}', lambda f, g=g: (f.equals(g), g.equals(f), f.equals(g, compare_dtype=True), f.to_frame_he() == g.to_frame_he()))
    # ---- extension round: routes the coverage tool showed no case reached
    numeric_only = all(k in 'ihgfbuc' for k in kinds)      # NumPy's object-dtype matmul over None / str cells crashes the interpreter (segfault): not run
    add('op:via_T+series', lambda f: f.via_T + sf.Series(range(n), index=R))
    add('op:via_T*array', lambda f: f.via_T * np.arange(n))
    add('op:via_T==array', lambda f: f.via_T == np.arange(10, 10 + n))
    if numeric_only: add('op:matmul-array', lambda f: f @ np.ones(m))
    if numeric_only: add('op:matmul-T', lambda f: f @ f.T)
    if numeric_only: add('op:rmatmul', lambda f: np.ones(n) @ f)
    add('op:add-array-wrong', lambda f: f + np.arange(m + 1))
    add('op:add-array2d-wrong', lambda f: f + np.ones((n + 1, m)))
    add('op:series+f', lambda f: sf.Series(range(1, m + 1), index=L) + f)
    for rname, rfn in (('rsub', lambda f: 100 - f), ('rmul', lambda f: 3 * f), ('rpow', lambda f: 2 ** f), ('rfloordiv', lambda f: 7 // f),
                       ('rmod', lambda f: 7 % f), ('rtruediv', lambda f: 1 / f), ('rand', lambda f: True & f), ('ror', lambda f: False | f),
                       ('xor', lambda f: f ^ True), ('rxor', lambda f: True ^ f), ('le', lambda f: f <= 12), ('gt', lambda f: f > 12),
                       ('rstr', lambda f: 'z' + f), ('mulstr', lambda f: f * 'z')):
        add('op:' + rname, rfn)
    add('iloc[1:2]', lambda f: f.iloc[1:2])
    add('iloc[1:2,1:]', lambda f: f.iloc[1:2, 1:])
    add('iloc[one-row-mask]', lambda f: f.iloc[np.arange(n) == n - 1])
    add('iloc[one-row-mask,::-1]', lambda f: f.iloc[np.arange(n) == 0, ::-1])
    add('iloc[[1]]', lambda f: f.iloc[[1]])
    add('loc[one-row-mask-series]', lambda f: f.loc[sf.Series(np.arange(n) == 0, index=R)])
    if m >= 2:
        add('iter_group[list]', lambda f: tuple(f.iter_group_items(['a', 'b'])))
        add('iter_group_array[list]', lambda f: tuple(f.iter_group_array_items(['a', 'b'])) if hasattr(f, 'iter_group_array_items') else None)
    if n:
        add('iter_group-axis1', lambda f: tuple(f.iter_group_items(R[0], axis=1)))
        add('iter_group-axis1[list]', lambda f: tuple(f.iter_group_items(list(R[:2]), axis=1)))
    add('iter_group_labels', lambda f: tuple(f.iter_group_labels_items(0)))
    add('reindex-none-common', lambda f: f.reindex(index=('zz', 'yy'), columns=('q1', 'q2'), fill_value=0))
    add('reindex-rows-none-common', lambda f: f.reindex(index=('zz', 'yy'), fill_value=0))
    add('reindex-cols-none-common', lambda f: f.reindex(columns=('q1', 'q2'), fill_value='w'))
    add('reindex-both-partial', lambda f: f.reindex(index=R[::-1][:1] + ('zz',), columns=L[::-1][:1] + ('zz',) + L[:1], fill_value=None))
    add('reindex-subset-both', lambda f: f.reindex(index=R[::-1][:2], columns=L[::-1][:2]))
    add('reindex-cols-subset', lambda f: f.reindex(columns=L[::-1][:1]))
    add('reindex-rows-subset', lambda f: f.reindex(index=R[::-1][:2]))
    add('relabel_shift_out-axis1', lambda f: f.relabel_shift_out(0, axis=1))
    add('relabel_shift_in-axis1', lambda f: f.relabel_shift_in(R[0], axis=1))
    add('relabel_shift_in-list', lambda f: f.relabel_shift_in(list(L[:2]), axis=0))
    add('from_concat-other-dtypes', lambda f: sf.Frame.from_concat((f, f.astype['a'](float).relabel(index=lambda x: x + '2'))))
    add('from_concat-three', lambda f: sf.Frame.from_concat((f, f.relabel(index=lambda x: x + '2'), f.astype(object).relabel(index=lambda x: x + '3'))))
    add('from_concat-axis1-three', lambda f: sf.Frame.from_concat((f, f.relabel(columns=lambda x: x + '2'), f.iloc[:, :1].relabel(columns=('w',))), axis=1))
    add('from_overlay', lambda f: sf.Frame.from_overlay((f, f.fillna(0).relabel(columns=lambda x: x))))
    add('from_element_items', lambda f: sf.Frame.from_element_items(f.iter_element_items(), index=f.index, columns=f.columns, dtype=object))
    add('iter_element.apply-id', lambda f: f.iter_element().apply(lambda x: x))
    add('iter_element.map_any', lambda f: f.iter_element().map_any({11: -11, 'x0': 'X'}))
    add('assign.bloc(series)', lambda f: f.assign.bloc[f.notna()](sf.Series([5] * (n * m), index=[(r, c) for r in R for c in L])) if n * m else f)
    add('tb.clip-array', lambda f: f._blocks.clip(np.full((n, m), 12), None))
    add('tb.clip-array-both', lambda f: f._blocks.clip(np.full((n, m), 12), np.full((n, m), 21)))
    add('tb.shapes-total', lambda f: (sum(sh[1] if len(sh) == 2 else 1 for sh in f._blocks.shapes), len(f._blocks.mloc) == len(f._blocks._blocks)))
    add('tb.display', lambda f: len(str(f._blocks.display())) > 0)
    add('equals-variants', lambda f: (f.equals(3), f.equals(f.iloc[:, :-1]), f.equals(f.astype(object), compare_dtype=True), f.equals(f.astype(object)),
                                      f.equals(f.to_frame_go(), compare_class=True), f.equals(f.rename('x'), compare_name=True),
                                      f._blocks.equals(f._blocks), f._blocks.equals(f.values), f.equals(f.fillna(0), skipna=False), f.equals(f, skipna=False)))
    add('iloc[list-of-bools rows]', lambda f: f.iloc[[i == 0 for i in range(n)]])
    add('iloc[:,list-of-bools]', lambda f: f.iloc[:, [j % 2 == 0 for j in range(m)]])
    add('iloc[list-of-bools both]', lambda f: f.iloc[[i != 1 for i in range(n)], [j != 0 for j in range(m)]])
    add('tb.extract-bad-key', lambda f: f._blocks._extract(None, 'a'))
    if numeric_only: add('tb.matmul', lambda f: f._blocks @ np.ones(m))
    add('tb.op-other-shape', lambda f: f._blocks + f.iloc[:, :-1]._blocks)
    add('tb.op-list', lambda f: f._blocks * list(range(1, m + 1)))
    add('tb.op-list-axis1', lambda f: f._blocks._ufunc_binary_operator(operator=__import__('operator').add, other=list(range(n)), axis=1))
    add('tb.equals-variants', lambda f: (f._blocks.equals(f._blocks.copy(), compare_class=True), f._blocks.equals(f.iloc[:, :-1]._blocks),
                                         f._blocks.equals(f.iloc[1:]._blocks), f._blocks.equals(f.astype(object)._blocks, compare_dtype=True),
                                         f._blocks.equals(f._blocks.consolidate()) if m else None, f._blocks.equals(f)))
    add('assign.bloc(array)', lambda f: f.assign.bloc[f.notna()](np.arange(n * m).reshape(n, m)))
    add('assign.bloc(array-float)', lambda f: f.assign.bloc[f.isna()](np.full((n, m), 0.5)))
    for name in ('sum', 'prod', 'min', 'max', 'mean', 'all', 'any'):
        add(f'{name}1-noskipna', lambda f, name=name: getattr(f, name)(axis=1, skipna=False))
    if numeric_only: add('op:matmul-series', lambda f: f @ sf.Series(range(1, m + 1), index=L))
    if numeric_only: add('op:matmul-2d', lambda f: f @ np.ones((m, 2)))
    if numeric_only: add('op:T-matmul-f', lambda f: f.T @ f)
    if numeric_only: add('op:series-rmatmul', lambda f: sf.Series(range(1, n + 1), index=R) @ f)
    if numeric_only: add('op:array2d-rmatmul', lambda f: np.ones((2, n)) @ f)
    if numeric_only: add('op:matmul-wrong', lambda f: f @ np.ones(m + 1))
    add('bloc[array]', lambda f: f.bloc[f.notna().values])
    add('bloc[frame-other-labels]', lambda f: f.bloc[f.notna().reindex(index=R[::-1], columns=L[::-1] + ('zz',), fill_value=False)])
    add('tb.ufunc_blocks[list]', lambda f: TypeBlocks_from(f._blocks._ufunc_blocks(column_key=sorted({0, m - 1}), func=lambda a: a.astype(object)), f))
    add('tb.ufunc_blocks[slice]', lambda f: TypeBlocks_from(f._blocks._ufunc_blocks(column_key=slice(1, None, 2), func=lambda a: a.astype(object)), f))
    add('tb.assign_by_blocks[int]', lambda f: f._blocks.extract_iloc_assign_by_blocks((None, m - 1), [np.full(n, 9)]))
    add('tb.assign_by_blocks[rows,int]', lambda f: f._blocks.extract_iloc_assign_by_blocks((slice(1, None), 0), [np.full(max(n - 1, 0), 9)]))
    add('op:self+self', lambda f: f + f)
    add('op:self==self', lambda f: f == f)
    add('op:self-T', lambda f: f - f.T)
    add('isin', lambda f: f.isin((11, 'x0', 21.0, None)))
    add('isin-empty', lambda f: f.isin(()))
    add('clip', lambda f: f.clip(lower=11, upper=22))
    add('clip-lower', lambda f: f.clip(lower=12))
    for dt in ('float64', 'object', 'str', 'int64', 'bool'):
        add(f'astype({dt})', lambda f, dt=dt: f.astype(dt))
    if m:
        add('astype[a](float)', lambda f: f.astype['a'](float))
        add('astype[last](object)', lambda f: f.astype[L[-1]](object))
        add('astype[b:](float)', lambda f: f.astype['b':](float))
        add('astype[list](str)', lambda f: f.astype[[L[-1], L[0]] if m > 1 else [L[0]]](str))
        add('astype[mask](object)', lambda f: f.astype[f.columns.values != 'b'](object))
        add('astype(dict)', lambda f: f.astype({L[-1]: object, 'a': float}))
        add('astype(seq)', lambda f: f.astype([object if j % 2 else float for j in range(m)]))
    if m >= 3:
        # non-contiguous selections: several target slices inside ONE block, then a later block that needs converting
        alt = [L[i] for i in range(0, m, 2)] + ([L[-1]] if (m - 1) % 2 else [])
        for dt in ('float64', 'int64', 'object', 'bool', 'str'):
            add(f'astype[alt-list]({dt})', lambda f, dt=dt: f.astype[alt](dt))
            add(f'astype[alt-list-rev]({dt})', lambda f, dt=dt: f.astype[alt[::-1]](dt))
            add(f'astype[::2]({dt})', lambda f, dt=dt: f.astype[L[0]::2](dt))
            add(f'astype[alt-mask]({dt})', lambda f, dt=dt: f.astype[np.isin(f.columns.values, alt)](dt))
            add(f'astype[ends]({dt})', lambda f, dt=dt: f.astype[[L[0], L[-2], L[-1]]](dt))
    add('via_str.upper', lambda f: f.via_str.upper())
    add('via_dt.year', lambda f: f.via_dt.year)

    # ---- missing values
    add('fillna(0)', lambda f: f.fillna(0))
    add('fillna(str)', lambda f: f.fillna('q'))
    for ax in (0, 1):
        add(f'fillna_forward{ax}', lambda f, ax=ax: f.fillna_forward(axis=ax))
        add(f'fillna_backward{ax}', lambda f, ax=ax: f.fillna_backward(axis=ax))
        add(f'fillna_forward{ax}-limit1', lambda f, ax=ax: f.fillna_forward(1, axis=ax))
        add(f'fillna_leading{ax}', lambda f, ax=ax: f.fillna_leading(-1, axis=ax))
        add(f'fillna_trailing{ax}', lambda f, ax=ax: f.fillna_trailing(-1, axis=ax))
        add(f'dropna{ax}-any', lambda f, ax=ax: f.dropna(axis=ax, condition=np.any))
        add(f'dropna{ax}-all', lambda f, ax=ax: f.dropna(axis=ax, condition=np.all))
        add(f'count{ax}', lambda f, ax=ax: f.count(axis=ax))

    # ---- shift / roll
    for k in (0, 1, -1, 2, -2, m, m + 1, -m - 1, n, n + 1):
        add(f'roll(cols={k})', lambda f, k=k: f.roll(columns=k))
        add(f'roll(cols={k},labels)', lambda f, k=k: f.roll(columns=k, include_columns=True))
        add(f'shift(cols={k})', lambda f, k=k: f.shift(columns=k))
        add(f'roll(rows={k})', lambda f, k=k: f.roll(index=k))
        add(f'shift(rows={k})', lambda f, k=k: f.shift(index=k))
    add('roll(1,1)', lambda f: f.roll(1, 1))
    add('roll(-1,2)', lambda f: f.roll(-1, 2))
    add('shift(1,-1)', lambda f: f.shift(1, -1))
    add('shift(-1,2,fill)', lambda f: f.shift(-1, 2, fill_value=0))
    add('shift(cols=1,fill=str)', lambda f: f.shift(columns=1, fill_value='s'))

    # ---- reductions
    for name in ('sum', 'prod', 'min', 'max', 'mean', 'median', 'std', 'var', 'all', 'any', 'cumsum', 'cumprod'):
        for ax in (0, 1):
            add(f'{name}{ax}', lambda f, name=name, ax=ax: getattr(f, name)(axis=ax))
        add(f'{name}0-noskipna', lambda f, name=name: getattr(f, name)(axis=0, skipna=False))
    for name in ('loc_min', 'loc_max', 'iloc_min', 'iloc_max'):
        for ax in (0, 1):
            add(f'{name}{ax}', lambda f, name=name, ax=ax: getattr(f, name)(axis=ax))
    add('cov', lambda f: f.cov())

    # ---- sorting, duplicates, sets
    if m:
        add('sort_values[a]', lambda f: f.sort_values('a'))
        add('sort_values[last]desc', lambda f: f.sort_values(L[-1], ascending=False))
        add('sort_values[list]', lambda f: f.sort_values([L[-1], 'a']))
    if n:
        add('sort_values[row]axis0', lambda f: f.sort_values(R[0], axis=0))
    add('sort_index-desc', lambda f: f.sort_index(ascending=False))
    add('sort_columns-desc', lambda f: f.sort_columns(ascending=False))
    for ax in (0, 1):
        add(f'duplicated{ax}', lambda f, ax=ax: f.duplicated(axis=ax))
        add(f'drop_duplicated{ax}', lambda f, ax=ax: f.drop_duplicated(axis=ax))
        add(f'unique{ax}', lambda f, ax=ax: f.unique(axis=ax))
    add('unique', lambda f: f.unique())

    # ---- functional update (selection semantics belong to C04/C08; here only transparency)
    if m:
        add('drop[a]', lambda f: f.drop['a'])
        add('drop[last]', lambda f: f.drop[L[-1]])
        add('drop[list]', lambda f: f.drop[[L[-1], 'a']])
        add('drop[b:]', lambda f: f.drop['b':])
        add('drop.iloc[:,1:3]', lambda f: f.drop.iloc[:, 1:3])
        add('drop.iloc[:,::-2]', lambda f: f.drop.iloc[:, ::-2])
        add('drop.iloc[0,[0]]', lambda f: f.drop.iloc[0, [0]])
        add('drop.iloc[mask]', lambda f: f.drop.iloc[:, np.array([j % 2 == 0 for j in range(m)], dtype=bool)])
        add('drop.iloc[0]', lambda f: f.drop.iloc[0])
        add('drop.iloc[-1:]', lambda f: f.drop.iloc[-1:])
        add('mask[a]', lambda f: f.mask['a'])
        add('mask.iloc[0,1:]', lambda f: f.mask.iloc[0, 1:])
        add('mask.iloc[:,::-2]', lambda f: f.mask.iloc[:, ::-2])
        add('mask.loc[list]', lambda f: f.mask.loc[:, [L[-1], 'a']])
        add('masked_array[a]', lambda f: f.masked_array['a'])
        add('assign[a](0)', lambda f: f.assign['a'](0))
        add('assign[last](str)', lambda f: f.assign[L[-1]]('w'))
        add('assign[list](1.5)', lambda f: f.assign[[L[-1], 'a']](1.5))
        add('assign.iloc[0,1:](None)', lambda f: f.assign.iloc[0, 1:](None))
        add('assign.iloc[:,::-2](-5)', lambda f: f.assign.iloc[:, ::-2](-5))
        add('assign.iloc[-1](7)', lambda f: f.assign.iloc[-1](7))
        add('assign.iloc[:,1:3](array)', lambda f: f.assign.iloc[:, 1:3](np.arange(n * len(range(m)[1:3])).reshape(n, len(range(m)[1:3]))))
        add('assign[a](series)', lambda f: f.assign['a'](sf.Series(range(n), index=R[::-1])))
        add('assign.loc[:,b:](frame)', lambda f: f.assign.loc[:, 'b':](f.loc[:, 'b':] * 2))
        add('assign.bloc(0)', lambda f: f.assign.bloc[f.isna()](0))
        add('assign.bloc(frame)', lambda f: f.assign.bloc[f.notna()](f.astype(str)))
        add('assign[a].apply', lambda f: f.assign['a'].apply(lambda s: s.astype(str)))
    # ---- relabel / reindex / index manipulation
    add('relabel', lambda f: f.relabel(index=lambda x: x + '!', columns=lambda x: x.upper()))
    add('relabel-auto', lambda f: f.relabel(sf.IndexAutoFactory, sf.IndexAutoFactory))
    add('relabel_flat', lambda f: f.relabel_flat(index=True, columns=True))
    add('relabel_level_add', lambda f: f.relabel_level_add(index='I', columns='C'))
    add('relabel_shift_in', lambda f: f.relabel_shift_in('a', axis=0))
    add('relabel_shift_out', lambda f: f.relabel_shift_out(0, axis=0))
    add('rename', lambda f: f.rename('other'))
    add('reindex-cols', lambda f: f.reindex(columns=('c', 'zz', 'a'), fill_value=0))
    add('reindex-cols-nan', lambda f: f.reindex(columns=list(L[::-1]) + ['zz']))
    add('reindex-rows', lambda f: f.reindex(index=('q', 'zz', 'p'), fill_value=-1))
    add('reindex-both', lambda f: f.reindex(index=R[::-1], columns=L[::-1]))
    add('set_index[a]', lambda f: f.set_index('a'))
    add('set_index[a]drop', lambda f: f.set_index('a', drop=True))
    add('set_index_hierarchy', lambda f: f.set_index_hierarchy(['a', 'b'], drop=True))
    add('unset_index', lambda f: f.unset_index())
    add('insert_after', lambda f: f.insert_after('a', sf.Series(range(n), index=R, name='new')))
    add('insert_before', lambda f: f.insert_before(L[-1] if m else 'a', f.iloc[:, :2].relabel(columns=('n1', 'n2')[:min(m, 2)])))
    add('sample', lambda f: f.sample(2, 2, seed=3))
    add('rehierarch-err', lambda f: f.rehierarch((0,)))

    # ---- conversions / copies / comparisons
    add('to_frame_go', lambda f: f.to_frame_go())
    add('to_frame_he', lambda f: f.to_frame_he())
    add('to_frame', lambda f: f.to_frame())
    add('Frame(f)', lambda f: sf.Frame(f))
    add('hash-he', lambda f: hash(f.to_frame_he()) == hash(f.to_frame_he()))
    add('go-append', lambda f: _go_append(f, n))
    add('go-extend', lambda f: _go_extend(f))
    add('equals-self', lambda f: f.equals(f))
    add('equals-copy', lambda f: (f.equals(sf.Frame(f.values, index=f.index, columns=f.columns, name=f.name)),
                                  f.equals(sf.Frame(f.values, index=f.index, columns=f.columns, name=f.name), compare_dtype=True)))
    add('to_csv', lambda f: _csv(f, 'to_csv'))
    add('to_tsv', lambda f: _csv(f, 'to_tsv'))
    add('to_html', lambda f: f.to_html())
    add('to_markdown', lambda f: _csv(f, 'to_markdown'))
    add('to_pandas', lambda f: _pandas(f))
    add('from_concat-self0', lambda f: sf.Frame.from_concat((f, f.relabel(index=lambda x: x + '2'))))
    add('from_concat-self1', lambda f: sf.Frame.from_concat((f, f.relabel(columns=lambda x: x + '2')), axis=1))
    add('iter_group[a]', lambda f: tuple(f.iter_group_items('a')))
    add('iter_window', lambda f: tuple(f.iter_window_items(size=2)))
    add('pivot', lambda f: f.pivot('a', 'b'))
    add('join_inner-self', lambda f: f.join_inner(f.relabel(columns=lambda x: x + '2'), left_depth_level=0, right_depth_level=0))
    add('pickle', lambda f: _pickle(f))
    add('deepcopy', lambda f: __import__('copy').deepcopy(f))
    return out


def TypeBlocks_from(blocks, f):
    from static_frame.core.type_blocks import TypeBlocks
    return TypeBlocks.from_blocks(blocks, shape_reference=f._blocks._shape)


def _pandas(f):
    df = f.to_pandas()
    return (tuple(df.index), tuple(df.columns), tuple(str(d) for d in df.dtypes), tuple(tuple(_scalar_py(x) for x in df[c].tolist()) for c in df.columns))


def _scalar_py(x):
    try:
        return _scalar(x)
    except TypeError:
        return ('repr', repr(x))


def _pickle(f):
    import pickle
    return pickle.loads(pickle.dumps(f))


def _go_append(f, n):
    g = f.to_frame_go()
    g['new'] = np.arange(n) * 0.5
    g['new2'] = 'k'
    return g, g.values


def _go_extend(f):
    g = f.to_frame_go()
    g.extend(f.relabel(columns=lambda x: x + '2'))
    return g, g.values



# ----------------------------------------------------------------------------- known finding classes (by construction of the input)
NUMERIC_KINDS = frozenset('igf')          # int64 / float64: the only dtypes whose axis-0 reductions are layout independent
REDUCTIONS = ('sum', 'prod', 'min', 'max', 'mean', 'median', 'std', 'var', 'all', 'any', 'cumsum', 'cumprod')
STRING_RESULT_OPS = frozenset(('tb.op-list', 'op:mul-series', 'op:mul-array2d', 'op:mul2', 'op:addstr', 'astype(str)', 'astype[list](str)', 'via_str.upper'))
FILL_OPS = frozenset(('fillna(str)', 'assign.bloc(frame)'))


CELLWISE_RAISING = frozenset(('astype', 'op', 'neg', 'pos', 'abs', 'invert', 'round', 'clip'))


def _has_multi_block_of(kinds, layout, kind):
    pos = 0
    for w, _ in layout:
        if w > 1 and kinds[pos] == kind:
            return True
        pos += w
    return False


def _has_multi_object_block(kinds, layout):
    pos = 0
    for w, _ in layout:
        if w > 1 and kinds[pos] == 'O':
            return True
        pos += w
    return False


def _resolved_is_object(dtypes):
    from static_frame.core.util import resolve_dtype_iter
    return resolve_dtype_iter(iter(sorted(dtypes, key=str))) == np.dtype(object)


DTYPE_ONLY_FINDINGS = frozenset(('C03-fill-block-dtype', 'C03-str-itemsize'))     # classes where ONLY a dtype may differ: values are still compared


def strip_dtypes(o):
    """The canonical observable with array dtypes removed (cells keep their canonical value)."""
    if isinstance(o, tuple):
        if o and o[0] == 'A' and len(o) == 4:
            return ('A', o[1], strip_dtypes(o[3]))
        return tuple(strip_dtypes(x) for x in o)
    return o


def values_only_case(stratum, fid, kinds, o, r, desc, key):
    """Companion of a case tagged with a dtype-only finding class: the same comparison on values alone, NOT covered by the finding
    (time columns excepted: their cells change class with the dtype)."""
    if fid not in DTYPE_ONLY_FINDINGS or any(k in 'mM' for k in kinds) or o[0] == 'X' or r[0] == 'X':
        return None
    bad = None
    if strip_dtypes(o) != strip_dtypes(r):
        bad = 'values differ (not only dtypes): ' + short(o, 120) + ' vs ' + short(r, 120)
    return Case(stratum, dict(desc, compare='values only'), py_fail=bad, tags={'stratum': 'values-only'}, key=key + '|values')


def op_family(name):
    for r in REDUCTIONS:
        if name.startswith(r) and name[len(r):len(r) + 1] in ('0', '1'):
            return 'reduce' + name[len(r)]
    for pre in ('iloc[', 'tb.extract_array', 'roll(', 'shift(', 'op:', 'astype', 'fillna', 'dropna', 'drop', 'mask', 'assign', 'iter_', 'sort_', 'reindex', 'relabel', 'tb.', 'loc[', 'getitem', 'to_'):
        if name.startswith(pre):
            return pre.rstrip('([.:')
    return name


def finding_for(name, kinds, n, layout):
    """The known-finding class an input belongs to BY CONSTRUCTION (operation family x frame class x layout class), or None."""
    m = len(kinds)
    multi = any(w > 1 for w, _ in layout)
    fam = op_family(name)
    if fam == 'reduce0' and (n <= 1 or any(k not in NUMERIC_KINDS for k in kinds)):
        return 'C03-reduce-axis0-blockwise'
    if fam == 'reduce1' and name[:3] in ('all', 'any') and 'M' in kinds:
        return 'C03-reduce-axis0-blockwise'
    if name == 'min1-noskipna' and 'b' in kinds and _has_multi_block_of(kinds, layout, 'f'):
        return 'C03-reduce-axis1-object-row'       # min(axis=1, skipna=False): bool columns (object row dtype) + a 2-D block of float columns holding NaN
    if name.startswith('bloc') and multi and n >= 2:
        return 'C03-bloc-order'
    if name.startswith(('fillna(L', 'fillna(U-partial', 'fillna(G+1000', 'assign.bloc(L)', 'fillna(frame-partial)')):
        # the fill is a Frame of the receiver's column dtypes, handed over as ONE array of its row dtype: it does not fit only when that is object
        dts = {column(k, 0, 0).dtype for k in kinds}
        if multi and len(dts) > 1 and _resolved_is_object(dts) and any(k in 'fgMm' for k in kinds):
            return 'C03-fill-block-dtype'
        return None
    if name in FILL_OPS and multi:
        return 'C03-fill-block-dtype'
    if (name.startswith(('fillna_leading', 'fillna_trailing', 'fillna(fill)', 'assign.bloc-isna')) and multi
            and 'M' in kinds and set(kinds) != {'M'}):
        return 'C03-fill-block-dtype'          # missing_ops fills -1 there: it cannot fit a datetime64 block
    if name.startswith('from_overlay') and n == 0:
        return 'C03-reduce-axis0-blockwise'        # from_overlay reduces with any(): the 0-row unified path returns a Python bool
    if (name.startswith(('fillna(0)', 'fillna_leading', 'fillna_trailing', 'assign.bloc(0)', 'assign.bloc(series)', 'assign.bloc(array')) and multi and 'm' in kinds):
        return 'C03-fill-block-dtype'              # an integer does not fit a timedelta64 block
    if (name in STRING_RESULT_OPS or (name.startswith('astype') and name.endswith('(str)'))) and multi and any(k in 'UOS' for k in kinds):
        return 'C03-str-itemsize'
    if fam in CELLWISE_RAISING and _has_multi_object_block(kinds, layout):
        return 'C03-object-block-error-order'
    if name.startswith(('fillna_forward1', 'fillna_backward1')) and len({column(k, 0, 0).dtype for k in kinds}) > 1:
        return 'C03-fill-axis1-block-dtype'
    return None


# ----------------------------------------------------------------------------- literals
def col_cells(a):
    return lit.vlist(lit.array_vals(a))


def block_cols(b):
    return [b] if b.ndim == 1 else [b[:, j] for j in range(b.shape[1])]


def tb_lit(blocks):
    """list of ndarray blocks -> `tb val` literal (dtype, 1-D flag, columns)."""
    out = []
    for b in blocks:
        out.append(f'(@mk_block val {lit.dtype(b.dtype)} {lit.b(b.ndim == 1)} {lit.lst([col_cells(c) for c in block_cols(b)])})')
    return lit.lst(out) if out else '(@nil (block val))'


def cols_lit(arrays):
    return lit.lst([f'({lit.dtype(a.dtype)}, ({col_cells(a)} : list val))' for a in arrays]) if len(arrays) else '(@nil (dtype * list val))'


def frame_cols(f):
    return [f._blocks._extract_array(None, j) for j in range(f.shape[1])]


def res_lit(fn, printer):
    try:
        out = fn()
    except Exception as e:  # noqa
        return f'(Err {lit.s(lit.err_class(e))})', e
    return f'(Ok {printer(out)})', out


def short(o, limit=160):
    t = repr(o)
    return t if len(t) <= limit else t[:limit] + '...'


# ----------------------------------------------------------------------------- frame spaces
QUICK_KINDS = ['', 'i', 'f', 'U', 'O', 'b', 'ii', 'if', 'fO', 'UU', 'iii', 'iif', 'UUf', 'bbO', 'iiff', 'iUUi']
THOROUGH_FRAMES = (
    [(k, (0, 1, 2, 3, 4)) for k in ['', 'i', 'f', 'U', 'O', 'b', 'M', 'h']]
    + [(k, (0, 1, 3)) for k in ['ii', 'if', 'fO', 'UU', 'bb', 'OO', 'gg', 'hi']] + [('OM', (2,)), ('fgb', (2,)), ('fOO', (2,)), ('gggi', (1, 3)), ('iiif', (1, 3)), ('OOOi', (2,)), ('gggii', (2,)), ('uu', (1, 3)), ('SS', (1, 3)), ('mm', (1, 3)), ('ucu', (2,)), ('uuS', (3,)), ('mMm', (3,)), ('cc', (3,)), ('mi', (2,)), ('gfgf', (1, 3)), ('gff', (3,)), ('fgf', (3,)), ('ggfif', (3,)), ('bff', (2, 3))]
    + [(k, (1, 3)) for k in ['iii', 'iif', 'fii', 'UUf', 'bbO', 'hhi', 'MMi', 'ggi', 'bib']]
    + [('iiii', (0, 1, 3))] + [(k, (1, 3)) for k in ['iiff', 'iUUi', 'OOii']] + [(k, (3,)) for k in ['ifif', 'ffff', 'fiib', 'hhgg']]
    + [('iiiii', (3,)), ('iifff', (3,)), ('ifbUO', (1,))])
MODEL_KINDS = frozenset('ihgfbU')        # cells / conversions the Coq cell functions cover
ALL_KINDS = 'ihgfbUOM'


QUICK_FRAMES = [('', (0, 1, 3)), ('i', (0, 1, 3)), ('f', (0, 1, 3)), ('U', (0, 2)), ('O', (1, 3)), ('ii', (0, 1, 3)), ('if', (0, 3)),
                ('UU', (3,)), ('fO', (2,)), ('iii', (3,)), ('iif', (2,)), ('bbO', (3,)), ('iiff', (3,)), ('iUUi', (2,)),
                ('hi', (2,)), ('OM', (2,)), ('fgb', (2,)), ('fOO', (2,)), ('gggi', (2,)), ('iiif', (2,)), ('uu', (3,)), ('SS', (3,)), ('mm', (3,)),
                ('ucu', (2,)), ('bb', (1, 3)), ('mi', (2,)), ('gfgf', (3,)), ('gff', (3,)), ('bff', (2,)), ('iiii', (3,))]


def frame_space(ctx):
    if ctx.tier == 'quick':
        for kinds, rows in QUICK_FRAMES:
            for n in rows:
                yield kinds, n
    else:
        for kinds, rows in THOROUGH_FRAMES:
            for n in rows:
                yield kinds, n
    # random stream of other dtype mixes / sizes (all layouts of each)
    for _ in range(ctx.n(2, 12)):
        m = ctx.rng.randint(2, 3 if ctx.tier == 'quick' else 5)
        kinds = ''
        while len(kinds) < m:          # runs of equal kinds, so that multi-column blocks exist
            k = ctx.rng.choice(ALL_KINDS)
            kinds += k * ctx.rng.randint(1, m - len(kinds))
        yield kinds, ctx.rng.choice((1, 2, 3, 5))


def _isna_col(c):
    if c.dtype.kind == 'f':
        return np.isnan(c)
    if c.dtype.kind == 'O':
        return np.array([x is None or (isinstance(x, float) and x != x) for x in c], dtype=bool)
    if c.dtype.kind in 'Mm':
        return np.isnat(c)
    return np.zeros(len(c), dtype=bool)


def layouts(kinds, n):
    cols = columns_for(kinds, n)
    return list(zoo.layouts_for([c.dtype for c in cols]))


# ----------------------------------------------------------------------------- strata
_TAGS = {}


def layout_cases(ctx, kinds, n):
    """Metamorphic stratum: every operation on every layout against the same operation on the canonical layout."""
    m = len(kinds)
    canon = canonical_layout(m)
    ops = ops_for(kinds, n, full=(ctx.tier != 'quick' and m <= 3))
    fc = build(kinds, n, canon)
    ref = {name: observe(fn, fc) for name, fn in ops}
    for lay in layouts(kinds, n):
        if lay == canon:
            continue
        f = build(kinds, n, lay)
        if m and zoo.layout_of(f) != lay:
            raise AssertionError(f'zoo built {zoo.layout_of(f)} instead of {lay}')
        ls = zoo.layout_str(lay)
        ctx.count(f'layout:m={m}', f'layout:blocks={len(lay)}', f'rows={n}')
        shared = {'kinds': kinds, 'rows': n, 'layout': ls, 'op': 'every operation of ops_for(kinds, rows) -- see the case key',
                  'replay': f"from sfv.props.c03 import build, ops_for; f = build({kinds!r},{n},{lay!r}); g = build({kinds!r},{n},{canon!r}); compare op(f) with op(g)"}
        for name, fn in ops:
            o = observe(fn, f)
            r = ref[name]
            fam = op_family(name)
            ctx.count('op:' + fam)
            if o[0] == 'X':
                ctx.count('err:' + o[1])
            py_fail = None
            if o != r:
                py_fail = (f'{name} on layout {ls} gives {short(o)}; on the all-1-D layout of the same columns it gives {short(r)}')
            fid = finding_for(name, kinds, n, lay)
            tags = _TAGS.get((fam, fid))
            if tags is None:
                tags = {'stratum': 'layout', 'family': fam}
                if fid:
                    tags['finding'] = fid
                _TAGS[(fam, fid)] = tags
            if fid == 'C03-reduce-axis1-object-row':
                # the finding excuses only the recorded kind of outcome: both layouts return a Series, some VALUES differ
                tags = dict(tags, outcome=('value' if (o[0] != 'X' and r[0] != 'X' and strip_dtypes(o)[:3] == strip_dtypes(r)[:3]) else 'other'))
            if py_fail or fid:
                desc = {'kinds': kinds, 'rows': n, 'layout': ls, 'op': name, 'observed': short(o, 100),
                        'replay': (f"from sfv.props.c03 import build, ops_for; dict(ops_for({kinds!r},{n}))[{name!r}](build({kinds!r},{n},{lay!r}))"
                                   f"  # compare with build({kinds!r},{n},{canon!r})")}
            else:      # one shared description per frame x layout (memory); the operation is in the case key
                desc = shared
            extra = values_only_case('api:layout-vs-canonical', fid, kinds, o, r, desc, f'L|{kinds}|{n}|{ls}|{name}') if fid else None
            if extra is not None:
                yield extra
            yield Case('api:layout-vs-canonical', desc,
                       py_fail=py_fail, tags=tags, nontrivial=(r[0] != 'X'),
                       key=f'L|{kinds}|{n}|{ls}|{name}')


# ---- rich missing-value patterns: every row pattern of m cells (missing / present) in ONE frame
def masked_columns(kinds, mask):
    """Columns of the given kinds whose missing cells follow `mask` (rows x columns Booleans); kinds without a missing
    marker (i, h, b, U) ignore the mask.  Present cells are pairwise distinct."""
    n, m = mask.shape
    cols = []
    for j, k in enumerate(kinds):
        if k in 'fg':
            a = np.array([np.nan if mask[i, j] else 10.0 * (j + 1) + i + 0.5 for i in range(n)], dtype=np.float64)
        elif k == 'O':
            a = np.empty(n, dtype=object)
            for i in range(n):
                a[i] = None if mask[i, j] else (100 * (j + 1) + i if (i + j) % 2 else 'o%d_%d' % (j, i))
        elif k == 'M':
            a = np.array([np.datetime64('NaT') if mask[i, j] else np.datetime64('2020-01-01') + (40 * j + i) for i in range(n)], dtype='datetime64[D]')
        else:
            a = column(k, j, n)
        a.flags.writeable = False
        cols.append(a)
    return cols


def pattern_mask(m, which, rng=None):
    if which == 'all-rows':          # row r is missing where bit j of r is set: every one of the 2**m row patterns
        return np.array([[bool((r >> j) & 1) for j in range(m)] for r in range(2 ** m)], dtype=bool).reshape(2 ** m, m)
    n, density = which
    return np.array([[rng.random() < density for _ in range(m)] for _ in range(n)], dtype=bool).reshape(n, m)


def fill_frame(f):
    """A fill Frame for f: pairwise different columns (1000 * (j + 1) + i), the last row label and the second column label absent."""
    import static_frame as sf
    n, m = f.shape
    cols = [c for j, c in enumerate(f.columns) if j != 1]
    rows = list(f.index)[:-1] if n > 1 else list(f.index)
    return sf.Frame.from_items(((c, [1000.0 * (list(f.columns).index(c) + 1) + i for i in range(len(rows))]) for c in cols), index=rows)


def fillna_frame_spec(f, r):
    """Per-cell specification of f.fillna(fill_frame(f)): a missing cell whose labels the fill frame has takes the fill frame's cell, every other cell is unchanged."""
    g = fill_frame(f)
    problems = []
    for j, c in enumerate(f.columns):
        src = f._blocks._extract_array(None, j)
        got = r._blocks._extract_array(None, j)
        for i, lab in enumerate(f.index):
            x = src[i]
            missing = x is None or (isinstance(x, (float, np.floating)) and x != x)
            want = g.loc[lab, c] if (missing and lab in g.index and c in g.columns) else x
            y = got[i]
            if not (y == want or (y != y and want != want)):
                problems.append(f'cell ({lab},{c}) is {y!r}, the specification gives {want!r}')
    return problems


def missing_ops(kinds):
    fill = np.datetime64('1999-01-01') if set(kinds) == {'M'} else (-1.5 if set(kinds) <= set('fg') else -1)
    out = []
    add = lambda name, fn: out.append((name, fn))
    for ax in (0, 1):
        add(f'fillna_leading{ax}', lambda f, ax=ax: f.fillna_leading(fill, axis=ax))
        add(f'fillna_trailing{ax}', lambda f, ax=ax: f.fillna_trailing(fill, axis=ax))
        for lim in (0, 1, 2):
            add(f'fillna_forward{ax}-limit{lim}', lambda f, ax=ax, lim=lim: f.fillna_forward(lim, axis=ax))
            add(f'fillna_backward{ax}-limit{lim}', lambda f, ax=ax, lim=lim: f.fillna_backward(lim, axis=ax))
        add(f'dropna{ax}-any', lambda f, ax=ax: f.dropna(axis=ax, condition=np.any))
        add(f'dropna{ax}-all', lambda f, ax=ax: f.dropna(axis=ax, condition=np.all))
        add(f'count{ax}', lambda f, ax=ax: f.count(axis=ax))
        for red in ('sum', 'min', 'max', 'mean', 'prod', 'all', 'any', 'cumsum'):
            add(f'{red}{ax}', lambda f, red=red, ax=ax: getattr(f, red)(axis=ax))
            add(f'{red}{ax}-noskipna', lambda f, red=red, ax=ax: getattr(f, red)(axis=ax, skipna=False))
    add('isna', lambda f: f.isna())
    add('notna', lambda f: f.notna())
    if set(kinds) <= set('fgi'):
        add('fillna(frame-partial)', lambda f: f.fillna(fill_frame(f)))
    add('fillna(fill)', lambda f: f.fillna(fill))
    add('values', lambda f: f.values)
    add('bloc-isna', lambda f: f.bloc[f.isna()])
    add('assign.bloc-isna', lambda f: f.assign.bloc[f.isna()](fill))
    return out


QUICK_PATTERNS = [('gggg', 'all-rows'), ('ggg', 'all-rows'), ('igg', 'all-rows'), ('gigg', 'all-rows'), ('OOOO', 'all-rows'), ('MMM', 'all-rows'), ('ggOg', 'all-rows'), ('gig', 'all-rows')]
THOROUGH_PATTERNS = QUICK_PATTERNS + [('gg', 'all-rows'), ('OOO', 'all-rows'), ('MMMM', 'all-rows'), ('ggOO', 'all-rows'), ('gMMg', 'all-rows'),
                                      ('Ogg', 'all-rows'), ('ggggg', 'all-rows'), ('gggOO', 'all-rows')]


def missing_cases(ctx):
    """Every layout of frames holding EVERY row pattern of missing cells, for the missing-value operations and skipna reductions."""
    specs = list(QUICK_PATTERNS if ctx.tier == 'quick' else THOROUGH_PATTERNS)
    for _ in range(ctx.n(2, 8)):                     # random masks over 3 rows (column patterns for the axis-0 operations)
        kinds = ctx.rng.choice(('ggg', 'gggg', 'OOg', 'ggO', 'MMg', 'gOg'))
        specs.append((kinds, (3, ctx.rng.choice((0.3, 0.5, 0.7)))))
    for kinds, which in specs:
        m = len(kinds)
        mask = pattern_mask(m, which, ctx.rng)
        n = mask.shape[0]
        cols = masked_columns(kinds, mask)
        mk = lambda lay: zoo.frame_from_columns(cols, lay, index=tuple(range(n)), columns=COL_LABELS[:m], name='fr')
        canon = canonical_layout(m)
        ops = missing_ops(kinds)
        fc = mk(canon)
        ref = {name: observe(fn, fc) for name, fn in ops}
        wname = which if isinstance(which, str) else 'random:' + ''.join('1' if x else '0' for x in mask.ravel())
        for lay in zoo.layouts_for([c.dtype for c in cols]):
            if lay == canon:
                continue
            f = mk(lay)
            ls = zoo.layout_str(lay)
            ctx.count('missing-patterns', f'missing:m={m}')
            for name, fn in ops:
                o = observe(fn, f)
                r = ref[name]
                fam = op_family(name)
                fid = finding_for(name, kinds, n, lay)
                if name == 'fillna(frame-partial)':        # decided cell by cell against the specification, never covered by a finding
                    try:
                        spec_problems = fillna_frame_spec(f, fn(f))
                    except Exception as e:  # noqa
                        spec_problems = [f'raised {lit.err_class(e)}']
                    yield Case('api:missing-patterns', {'kinds': kinds, 'mask': wname, 'layout': ls, 'op': name, 'compare': 'per-cell specification'},
                               py_fail='; '.join(spec_problems[:2]) or None, tags={'stratum': 'missing-spec'}, key=f'N|{kinds}|{wname}|{ls}|{name}|spec')
                tags = _TAGS.get(('missing', fam, fid))
                if tags is None:
                    tags = {'stratum': 'missing', 'family': fam}
                    if fid:
                        tags['finding'] = fid
                    _TAGS[('missing', fam, fid)] = tags
                py_fail = None
                if o != r:
                    py_fail = f'{name} on layout {ls} gives {short(o)}; on the all-1-D layout of the same columns it gives {short(r)}'
                extra = values_only_case('api:missing-patterns', fid, kinds, o, r, {'kinds': kinds, 'mask': wname, 'layout': ls, 'op': name}, f'N|{kinds}|{wname}|{ls}|{name}') if fid else None
                if extra is not None:
                    yield extra
                yield Case('api:missing-patterns',
                           {'kinds': kinds, 'mask': wname, 'layout': ls, 'op': name,
                            'replay': (f"from sfv.props.c03 import masked_columns, pattern_mask, missing_ops; from sfv import zoo; cols = masked_columns({kinds!r}, <mask {wname}>); "
                                       f"f = zoo.frame_from_columns(cols, {lay!r}, index=tuple(range({n})), columns={COL_LABELS[:m]!r}); dict(missing_ops({kinds!r}))[{name!r}](f)")},
                           py_fail=py_fail, tags=tags, nontrivial=(r[0] != 'X'), key=f'N|{kinds}|{wname}|{ls}|{name}')


# ---- isin against containers that are duplicate-free by construction (set, frozenset, dict, keys view, range)
def isin_table(kind, n, m):
    """n x m table with three values (one inside the `other` containers, two outside), each repeated across the
    columns of a row block and -- for n >= 4 -- within a column."""
    if kind == 'g':
        pool = [7.0, 25.0, 2.5]
        mk = lambda vals: np.array(vals, dtype=np.float64)
    elif kind == 'U':
        pool = ['k7', 'zz', 'q!']
        mk = lambda vals: np.array(vals, dtype='<U2')
    else:
        d0 = np.datetime64('2020-01-01')
        pool = [d0 + 7, d0 + 100, d0 + 200]
        mk = lambda vals: np.array(vals, dtype='datetime64[D]')
    cols = []
    for j in range(m):
        a = mk([pool[(i + j) % 3] for i in range(n)])
        a.flags.writeable = False
        cols.append(a)
    return cols


def isin_others(kind):
    """(name, container, membership set): 15-40 elements; unique-by-construction containers and, as controls, a list with repeats and an array."""
    if kind == 'g':
        base = [float(x) for x in range(20)]
        out = [('range(20)', range(20)), ('range(15)', range(15)), ('range(40)', range(40)), ('set-floats', set(base)),
               ('frozenset-floats', frozenset(base)), ('dict', dict.fromkeys(base)), ('dict-keys', dict.fromkeys(base).keys()),
               ('set-30', set(base + [x + 0.25 for x in range(10)])), ('list-repeats', base + base[:5]), ('array', np.array(base))]
    elif kind == 'U':
        base = ['k%d' % x for x in range(20)]
        out = [('set', set(base)), ('frozenset', frozenset(base)), ('dict', dict.fromkeys(base)), ('dict-keys', dict.fromkeys(base).keys()),
               ('set-35', set(base + ['j%d' % x for x in range(15)])), ('list-repeats', base + base[:5]), ('array', np.array(base))]
    else:
        d0 = np.datetime64('2020-01-01')
        base = [d0 + x for x in range(20)]
        out = [('set', set(base)), ('frozenset', frozenset(base)), ('dict', dict.fromkeys(base)), ('dict-keys', dict.fromkeys(base).keys()),
               ('list-repeats', base + base[:5]), ('array', np.array(base))]
    return out


def isin_cases(ctx):
    """Frame.isin(other) on every layout: per-cell membership (the specification, computed cell by cell in Python) and layout vs canonical."""
    import static_frame as sf
    specs = [('g', 4, 2), ('g', 3, 3), ('U', 4, 2), ('U', 4, 3), ('M', 4, 2), ('M', 3, 3)]
    if ctx.tier != 'quick':
        specs += [('g', 4, 4), ('g', 2, 4), ('U', 3, 4), ('M', 4, 4), ('g', 5, 3)]
    for kind, n, m in specs:
        cols = isin_table(kind, n, m)
        canon = canonical_layout(m)
        mk = lambda lay: zoo.frame_from_columns(cols, lay, index=ROW_LABELS[:n], columns=COL_LABELS[:m], name='fr')
        for oname, other in isin_others(kind):
            members = set(other)
            want = tuple(tuple(bool(c[i] in members) for i in range(n)) for c in cols)
            ref = observe(lambda f: f.isin(other), mk(canon))
            for lay in zoo.layouts_for([c.dtype for c in cols]):
                ls = zoo.layout_str(lay)
                ctx.count('isin', 'isin:' + type(other).__name__)
                f = mk(lay)
                problems = []
                try:
                    r = f.isin(other)
                    got = tuple(tuple(bool(x) for x in r._blocks._extract_array(None, j)) for j in range(m))
                    if got != want or any(r._blocks._extract_array(None, j).dtype != bool for j in range(m)):
                        problems.append(f'isin({oname}) on layout {ls} marks {got}; cell-by-cell membership is {want}')
                    o = _obs(r)
                except Exception as e:  # noqa
                    o = ('X', lit.err_class(e))
                    problems.append(f'isin({oname}) on layout {ls} raised {lit.err_class(e)}')
                if o != ref:
                    problems.append(f'isin({oname}) on layout {ls} differs from the all-1-D layout')
                yield Case('api:isin-unique-other',
                           {'kind': kind, 'rows': n, 'columns': m, 'layout': ls, 'other': oname,
                            'replay': f"from sfv.props.c03 import isin_table, isin_others; from sfv import zoo; cols = isin_table({kind!r},{n},{m}); f = zoo.frame_from_columns(cols, {lay!r}); f.isin(dict(isin_others({kind!r}))[{oname!r}])"},
                           py_fail='; '.join(problems[:2]) or None, tags={'stratum': 'isin', 'other': type(other).__name__},
                           nontrivial=True, key=f'I|{kind}|{n}|{m}|{ls}|{oname}')


# ---- operations that take ANOTHER Frame: the argument's layout varies independently of the receiver's
def bound_columns(kinds, n, row):
    """Per-column constant bounds (the column's own value at `row`), DISTINCT between neighbouring columns, same dtypes."""
    out = []
    for c in columns_for(kinds, n):
        a = np.empty(n, dtype=c.dtype)
        if n:
            a[:] = c[min(row, n - 1)]
        a.flags.writeable = False
        out.append(a)
    return out


def pair_args(kinds, n, layout):
    m = len(kinds)
    mk = lambda cols: zoo.frame_from_columns(cols, layout, index=ROW_LABELS[:n], columns=COL_LABELS[:m], name='arg')
    return mk(bound_columns(kinds, n, 1)), mk(bound_columns(kinds, n, 2)), mk(columns_for(kinds, n))


def pair_ops(kinds, n):
    import static_frame as sf
    m = len(kinds)
    checker = sf.Frame(np.array([[(i + j) % 2 == 0 for j in range(m)] for i in range(n)], dtype=bool).reshape(n, m),
                       index=ROW_LABELS[:n], columns=COL_LABELS[:m])
    return [
        ('clip(lower=L,upper=U)', lambda f, L, U, G: f.clip(lower=L, upper=U)),
        ('clip(lower=L)', lambda f, L, U, G: f.clip(lower=L)),
        ('clip(upper=U)', lambda f, L, U, G: f.clip(upper=U)),
        ('clip(lower=U,upper=L)', lambda f, L, U, G: f.clip(lower=U, upper=L)),
        ('op:f+G', lambda f, L, U, G: f + G),
        ('op:L-f', lambda f, L, U, G: L - f),
        ('op:f==G', lambda f, L, U, G: f == G),
        ('op:f<U', lambda f, L, U, G: f < U),
        ('fillna(L)', lambda f, L, U, G: f.fillna(L)),
        ('fillna(U-partial)', lambda f, L, U, G: f.fillna(U.iloc[1:, 1:])),
        ('fillna(L-reordered)', lambda f, L, U, G: f.fillna(L.iloc[::-1, ::-1])),
        ('fillna(G+1000-partial)', lambda f, L, U, G: f.fillna((G.fillna(0) + 1000).iloc[:, :-1]) if all(k in 'ihgfu' for k in kinds) else None),
        ('assign.loc[:,b:](L)', lambda f, L, U, G: f.assign.loc[:, 'b':](L.loc[:, 'b':])),
        ('assign.iloc[:,::2](U)', lambda f, L, U, G: f.assign.iloc[:, ::2](U.iloc[:, ::2])),
        ('assign.bloc(L)', lambda f, L, U, G: f.assign.bloc[checker](L)),
        ('equals(G)', lambda f, L, U, G: (f.equals(G), G.equals(f))),
        ('assign.iloc[1:,1:3](L)', lambda f, L, U, G: f.assign.iloc[1:, 1:3](L.iloc[1:, 1:3])),
        ('assign.iloc[[0],[-1,0]](U)', lambda f, L, U, G: f.assign.iloc[[0], [m - 1, 0]](U.iloc[[0], [m - 1, 0]])),
        ('assign.loc[mask,b:](L)', lambda f, L, U, G: f.assign.loc[f.index.values != 'p', 'b':](L.loc[L.index.values != 'p', 'b':])),
        ('from_overlay(f,L)', lambda f, L, U, G: sf.Frame.from_overlay((f, L))),
        ('assign.iloc[:,1](L col)', lambda f, L, U, G: f.assign.iloc[:, 1](L.iloc[:, [1]])),
        ('assign.iloc[1:,-1](U col)', lambda f, L, U, G: f.assign.iloc[1:, m - 1](U.iloc[1:, [m - 1]])),
        ('assign.iloc[:,[1]](L)', lambda f, L, U, G: f.assign.iloc[:, [1]](L.iloc[:, [1]])),
        ('from_concat(f,L,U)', lambda f, L, U, G: sf.Frame.from_concat((f, L.relabel(index=lambda x: x + '2'), U.astype(object).relabel(index=lambda x: x + '3')))),
        ('from_concat(f,L)', lambda f, L, U, G: sf.Frame.from_concat((f, L.relabel(index=lambda x: x + '2')))),
        ('insert_after(L)', lambda f, L, U, G: f.insert_after('a', L.relabel(columns=lambda x: x + '2'))),
    ]


CLIP_BOUNDS = {'clip(lower=L,upper=U)': (0, 1), 'clip(lower=L)': (0, None), 'clip(upper=U)': (None, 1), 'clip(lower=U,upper=L)': (1, 0)}


def _stack_lit(arg, f):
    """The block list Frame.clip hands to TypeBlocks.clip for a Frame bound, as a bound_stack literal (cells only)."""
    blocks = arg.reindex(index=f.index, columns=f.columns)._blocks._blocks
    return '(Some (' + lit.lst([lit.lst([col_cells(c) for c in block_cols(b)]) for b in blocks]) + ' : list (list (list val))))'


def _bcols_lit(cols):
    return '(Some (' + lit.lst([col_cells(c) for c in cols]) + ' : list (list val)))'


def pair_cases(ctx, kinds, n):
    """Receiver layout x argument layout, every pair (thorough, m <= 4; quick: the small spaces and a sample), against canonical x canonical."""
    m = len(kinds)
    if m < 2:
        return
    lays = layouts(kinds, n)
    canon = canonical_layout(m)
    ops = pair_ops(kinds, n)
    if ctx.tier == 'quick' and len(lays) > 20:          # the 1155 pairs of 'iiii': the stack-matching operations only
        ops = [(name, fn) for name, fn in ops if name.startswith(('clip', 'assign', 'fillna', 'from_overlay'))]
    fc = build(kinds, n, canon)
    ac = pair_args(kinds, n, canon)
    ref = {}
    for name, fn in ops:
        try:
            ref[name] = _obs(fn(fc, *ac))
        except Exception as e:  # noqa
            ref[name] = ('X', lit.err_class(e))
    pairs = [(a, b_) for a in lays for b_ in lays if not (a == canon and b_ == canon)]
    clip_model = all(k in 'ihg' for k in kinds)       # numeric cells without missing values: what v_clip covers
    C = cols_lit(columns_for(kinds, n)) if clip_model else None
    limit = None
    if ctx.tier == 'quick':
        limit = None if (kinds in ('iii', 'iiii') or len(lays) <= 5) else ctx.n(40, 40)
    elif m >= 5:
        limit = ctx.n(200, 200)
    if limit is not None and len(pairs) > limit:
        must = [(a, canon) for a in lays if a != canon] + [(canon, b_) for b_ in lays if b_ != canon]      # every receiver layout / argument layout at least once
        rest = [p_ for p_ in pairs if p_ not in set(must)]
        pairs = must + ctx.rng.sample(rest, min(limit, len(rest)))
    frames = {}
    args = {}
    for lf, lg in pairs:
        if lf not in frames:
            frames[lf] = build(kinds, n, lf)
        if lg not in args:
            args[lg] = pair_args(kinds, n, lg)
        f, a = frames[lf], args[lg]
        ctx.count('pair')
        for name, fn in ops:
            res = None
            try:
                res = fn(f, *a)
                o = _obs(res)
            except Exception as e:  # noqa
                res = e
                o = ('X', lit.err_class(e))
            m_term = s_term = None
            if name in CLIP_BOUNDS and clip_model:
                # the block-level model of TypeBlocks.clip (get_block_match stack) on the observed receiver and bound blocks
                lo_i, hi_i = CLIP_BOUNDS[name]
                T = tb_lit(f._blocks._blocks)
                stacks = [_stack_lit(a[i], f) if i is not None else '(@None (list (list (list val))))' for i in (lo_i, hi_i)]
                bcols = [_bcols_lit(bound_columns(kinds, n, i + 1)) if i is not None else '(@None (list (list val)))' for i in (lo_i, hi_i)]
                if isinstance(res, Exception):
                    o_tb = o_cols = f'(Err {lit.s(lit.err_class(res))})'
                else:
                    o_tb = f'(Ok {tb_lit(res._blocks._blocks)})'
                    o_cols = f'(Ok {cols_lit(frame_cols(res))})'
                m_term = f'res_eqb tb_eqb (M_clip_v {T} {stacks[0]} {stacks[1]}) {o_tb}'
                s_term = f'res_eqb columns_eqb (S_clip_v {C} {bcols[0]} {bcols[1]}) {o_cols}'
                ctx.count('model:clip')
            r = ref[name]
            fam = op_family(name)
            fid = finding_for(name, kinds, n, lf) or finding_for(name, kinds, n, lg)
            tags = _TAGS.get(('pair', fam, fid))
            if tags is None:
                tags = {'stratum': 'pair', 'family': fam}
                if fid:
                    tags['finding'] = fid
                _TAGS[('pair', fam, fid)] = tags
            py_fail = None
            if o != r:
                py_fail = (f'{name}: receiver layout {zoo.layout_str(lf)}, argument layout {zoo.layout_str(lg)} gives {short(o)}; '
                           f'all-1-D receiver and argument give {short(r)}')
            extra = values_only_case('api:argument-layout', fid, kinds, o, r, {'kinds': kinds, 'rows': n, 'receiver_layout': zoo.layout_str(lf), 'argument_layout': zoo.layout_str(lg), 'op': name},
                                     f'P|{kinds}|{n}|{zoo.layout_str(lf)}|{zoo.layout_str(lg)}|{name}') if fid else None
            if extra is not None:
                yield extra
            yield Case('api:argument-layout',
                       {'kinds': kinds, 'rows': n, 'receiver_layout': zoo.layout_str(lf), 'argument_layout': zoo.layout_str(lg), 'op': name,
                        'replay': f"from sfv.props.c03 import build, pair_args, pair_ops; f = build({kinds!r},{n},{lf!r}); L, U, G = pair_args({kinds!r},{n},{lg!r}); dict(pair_ops({kinds!r},{n}))[{name!r}](f, L, U, G)"}
                       if (py_fail or fid) else _PAIR_SHARED.setdefault((kinds, n), {'kinds': kinds, 'rows': n, 'op': 'every operation of pair_ops on every (receiver layout, argument layout) pair -- see the case key'}),
                       m=m_term, s=s_term, py_fail=py_fail, tags=tags, nontrivial=(r[0] != 'X'),
                       key=f'P|{kinds}|{n}|{zoo.layout_str(lf)}|{zoo.layout_str(lg)}|{name}')


_PAIR_SHARED = {}
_PAIR_ROWS = {k: max(rows) for k, rows in THOROUGH_FRAMES}


def _cell_obs(fn):
    """A scalar read: (dtype-class tag, canonical value) or the error class."""
    try:
        v = fn()
    except Exception as e:  # noqa
        return ('X', lit.err_class(e))
    return (type(v).__name__, _scalar(v))


def readers_cases(ctx, kinds, n):
    """Structural coherence and agreement of the read routes, per layout; the directory against the Coq model."""
    import static_frame as sf
    m = len(kinds)
    cols = columns_for(kinds, n)
    for lay in layouts(kinds, n):
        f = build(kinds, n, lay)
        ls = zoo.layout_str(lay)
        ctx.count('readers')
        problems = []
        time_problems = []
        if f.shape != (len(f.index), len(f.columns)) or f.shape != (n, m):
            problems.append(f'shape {f.shape} vs index {len(f.index)} columns {len(f.columns)}')
        if f._blocks.shape != f.shape or f.values.shape != f.shape:
            problems.append(f'blocks shape {f._blocks.shape}, values shape {f.values.shape}, frame shape {f.shape}')
        if len(f._blocks._index) != m or len(f._blocks._dtypes) != m:
            problems.append('directory length')
        values = f.values
        elements = list(f.iter_element())
        element_items = dict(f.iter_element_items())
        pairs0 = f.to_pairs(0)
        pairs1 = f.to_pairs(1)
        arrays0 = list(f.iter_array(axis=0))
        arrays1 = list(f.iter_array(axis=1))
        series0 = list(f.iter_series(axis=0))
        tuples1 = list(f.iter_tuple(axis=1))
        if len(elements) != n * m or len(arrays0) != m or len(arrays1) != n or len(pairs0) != m or len(pairs1) != n:
            problems.append('iteration lengths')
        for j in range(m):
            want_dtype = cols[j].dtype
            for got, route in ((arrays0[j].dtype, 'iter_array(0)'), (series0[j].dtype, 'iter_series(0)'), (f.iloc[:, j].dtype, 'iloc[:, j]'),
                               (f[COL_LABELS[j]].dtype, 'f[label]'), (f.dtypes.values[j], 'dtypes'), (f._blocks._dtypes[j], '_dtypes')):
                if got != want_dtype:
                    problems.append(f'column {j}: {route} has dtype {got}, the column has {want_dtype}')
            if pairs0[j][0] != COL_LABELS[j] or series0[j].name != COL_LABELS[j]:
                problems.append(f'column {j}: label mismatch')
            for i in range(n):
                want = _scalar(cols[j][i])
                own = {
                    'iloc[i,j]': _cell_obs(lambda: f.iloc[i, j]),
                    'loc[r,c]': _cell_obs(lambda: f.loc[ROW_LABELS[i], COL_LABELS[j]]),
                    'iter_element': _cell_obs(lambda: elements[i * m + j]),
                    'iter_element_items': _cell_obs(lambda: element_items[(ROW_LABELS[i], COL_LABELS[j])]),
                    'iter_array(0)': _cell_obs(lambda: arrays0[j][i]),
                    'iter_series(0)': _cell_obs(lambda: series0[j].values[i]),
                    'iloc[:,j][i]': _cell_obs(lambda: f.iloc[:, j].values[i]),
                    'to_pairs(0)': _cell_obs(lambda: pairs0[j][1][i][1]),
                }
                first = own['iloc[i,j]']
                for route, got in own.items():
                    if got[1] != want:
                        problems.append(f'cell ({i},{j}) by {route} is {got}, the column holds {want}')
                    elif got != first and kinds[j] not in 'O':
                        problems.append(f'cell ({i},{j}): {route} gives class {got[0]}, iloc[i,j] gives {first[0]}')
                # routes through the consolidated row (row dtype): same value under Python equality
                for route, got in (('values', values[i, j]), ('iter_array(1)', arrays1[i][j]), ('iloc[i]', f.iloc[i].values[j]),
                                   ('to_pairs(1)', pairs1[i][1][j][1]), ('iter_tuple(1)', tuples1[i][j])):
                    a, b_ = got, cols[j][i]
                    same = (a is b_) or (a == b_) or (a != a and b_ != b_)
                    if a is None or b_ is None:
                        same = a is b_
                    if not same:
                        msg = f'cell ({i},{j}) by {route} is {got!r}, the column holds {cols[j][i]!r}'
                        if a is None and isinstance(b_, (np.datetime64, np.timedelta64)) and np.isnat(b_) and values.dtype == object:
                            time_problems.append(msg)      # NaT read through the object row: class C03-time-to-object, reported in its own case
                        else:
                            problems.append(msg)
        # the same reads through the Coq models: directory, columns, elements (including out-of-range probes)
        T = tb_lit(f._blocks._blocks)
        C = cols_lit(cols)
        idx = lit.lst([f'({lit.z(a)}, {lit.z(b_)})' for a, b_ in f._blocks._index])
        dts = lit.lst([lit.dtype(d) for d in f._blocks._dtypes])
        obs_cols = cols_lit(list(f._blocks.axis_values(0)))
        obs_cols_r = cols_lit(list(f._blocks.axis_values(0, reverse=True)))
        probes = [(i, j) for i in range(-n - 1, n + 1) for j in range(-m - 1, m + 1)]
        if len(probes) > 40:
            probes = probes[:8] + ctx.rng.sample(probes[8:], 32)
        m_terms, obs_terms = [], []
        for i, j in probes:
            txt, _ = res_lit(lambda: (f._blocks._dtypes[j], f._blocks._extract(i, j)),
                             lambda p: f'({lit.dtype(p[0])}, {lit.val(p[1])})')
            obs_terms.append(txt)
            m_terms.append((i, j))
        el_m = lit.lst([f'M_element {T} {lit.z(i)} {lit.z(j)}' for i, j in m_terms])
        el_s = lit.lst([f'S_element {C} {lit.z(i)} {lit.z(j)}' for i, j in m_terms])
        el_o = lit.lst(obs_terms)
        m_term = (f'(list_eqb zpair_eqb (tb_index {T}) {idx}) && (list_eqb dtype_eqb (tb_dtypes {T}) {dts}) && '
                  f'(tb_column_count {T} =? {lit.z(f._blocks._shape[1])}) && '
                  f'(option_eqb columns_eqb (M_axis_values0 {T} false) (Some {obs_cols})) && '
                  f'(option_eqb columns_eqb (M_axis_values0 {T} true) (Some {obs_cols_r})) && '
                  f'(list_eqb (res_eqb dcell_eqb) {el_m} {el_o})')
        s_term = (f'(columns_eqb (S_axis_values0 {C} false) {obs_cols}) && (columns_eqb (S_axis_values0 {C} true) {obs_cols_r}) && '
                  f'(list_eqb (res_eqb dcell_eqb) {el_s} {el_o})')
        yield Case('api:readers',
                   {'replay': f"from sfv.props.c03 import build; f = build({kinds!r},{n},{lay!r}); f.values, f.iloc[i, j], f.iter_element(), f.to_pairs(0), f._blocks._index",
                    'kinds': kinds, 'rows': n, 'layout': ls, 'probes': len(probes)},
                   m=m_term, s=s_term, py_fail='; '.join(problems[:3]) or None,
                   tags={'stratum': 'readers'}, nontrivial=(n > 0 and m > 0), key=f'R|{kinds}|{n}|{ls}')
        if n and any(k in 'mM' for k in kinds) and len({c.dtype for c in cols}) > 1:
            # by construction: datetime64/timedelta64 columns read through a row whose resolved dtype is object
            yield Case('api:readers',
                       {'replay': f"from sfv.props.c03 import build; f = build({kinds!r},{n},{lay!r}); f.values, f.iloc[0].values, list(f.iter_array(axis=1)) against the columns",
                        'kinds': kinds, 'rows': n, 'layout': ls, 'routes': 'row-wise readers over datetime64/timedelta64 columns in an object row'},
                       py_fail='; '.join(time_problems[:2]) or None, tags={'stratum': 'readers', 'finding': 'C03-time-to-object'},
                       nontrivial=True, key=f'R-time|{kinds}|{n}|{ls}')


MAP_OPS = (
    ('isna', 'cf_isna', lambda f: f.isna(), ALL_KINDS),
    ('notna', 'cf_notna', lambda f: f.notna(), ALL_KINDS),
    ('neg', 'cf_neg', lambda f: -f, 'ihgfbUM'),
    ('abs', 'cf_abs', lambda f: abs(f), 'ihgfbU'),
    ('invert', 'cf_invert', lambda f: ~f, 'ihgfbU'),
    ('mul2', 'cf_mul2', lambda f: f * 2, 'ig'),
)


def model_cases(ctx, kinds, n):
    """Modelled operations: the implementation's result BLOCKS against M on the observed input blocks (exact output layout),
    its result columns against S on the logical columns."""
    m = len(kinds)
    cols = columns_for(kinds, n)
    C = cols_lit(cols)
    for lay in layouts(kinds, n):
        f = build(kinds, n, lay)
        ls = zoo.layout_str(lay)
        T = tb_lit(f._blocks._blocks)
        base = {'kinds': kinds, 'rows': n, 'layout': ls}
        mk = lambda op: f"from sfv.props.c03 import build; f = build({kinds!r},{n},{lay!r}); {op}"
        zero = (n == 0 or m == 0)

        # ---- per-block cellwise maps
        for name, cf, fn, ok_kinds in MAP_OPS:
            if any(k not in ok_kinds for k in kinds):
                continue
            ctx.count('model:map')
            o_tb, r = res_lit(lambda: fn(f), lambda g: tb_lit(g._blocks._blocks))
            o_cols = o_tb if isinstance(r, Exception) else f'(Ok {cols_lit(frame_cols(r))})'
            tags = {'stratum': 'model', 'op': name}
            if m == 0:
                tags['finding'] = 'C03-zero-columns'
            yield Case('model:map_blocks', dict(base, replay=mk(f'{name}(f)._blocks._blocks'), op=name),
                       m=f'res_eqb tb_eqb (M_map_blocks {cf} {T}) {o_tb}',
                       s=f'res_eqb columns_eqb (S_map_columns {cf} {C}) {o_cols}',
                       tags=tags, nontrivial=m > 0, key=f'M|{name}|{kinds}|{n}|{ls}')

        # ---- consolidate
        ctx.count('model:consolidate')
        o_tb, r = res_lit(lambda: f._blocks.consolidate(), lambda t: tb_lit(t._blocks))
        if isinstance(r, Exception):
            o_cols, o_sig = o_tb, 'None'
        else:
            o_cols = f'(Ok {cols_lit([r._extract_array(None, j) for j in range(r.shape[1])])})'
            o_sig = '(Some ' + lit.lst([f'({lit.dtype(b.dtype)}, {lit.lst([col_cells(c) for c in block_cols(b)])})' for b in r._blocks]) + ')'
        tags = {'stratum': 'model', 'op': 'consolidate'}
        if m == 0:
            tags['finding'] = 'C03-zero-columns'
        yield Case('model:consolidate', dict(base, replay=mk('f._blocks.consolidate()._blocks')),
                   m=f'res_eqb tb_eqb (M_consolidate {T}) {o_tb}',
                   s=(f'(res_eqb columns_eqb (Ok {C}) {o_cols}) && '
                      f'(option_eqb (list_eqb sig_eqb) (Some (S_group_columns {C})) {o_sig})'),
                   tags=tags, nontrivial=len(lay) > 1, key=f'M|cons|{kinds}|{n}|{ls}')

        # ---- values, transpose (row dtype); only dtype mixes whose conversions the cell cast covers
        if all(k in MODEL_KINDS for k in kinds):
            ctx.count('model:values')
            v = f.values
            o_val = 'None' if m == 0 else f'(Some ({lit.dtype(v.dtype)}, {lit.lst([col_cells(v[:, j]) for j in range(m)])}))'
            yield Case('model:values', dict(base, replay=mk('f.values')),
                       m=f'option_eqb sig_eqb (M_values_v {T}) {o_val}', s=f'option_eqb sig_eqb (S_values_v {C}) {o_val}',
                       tags={'stratum': 'model', 'op': 'values'}, nontrivial=len(set(kinds)) > 1, key=f'M|values|{kinds}|{n}|{ls}')
            ctx.count('model:transpose')
            o_tb, r = res_lit(lambda: f.transpose(), lambda g: tb_lit(g._blocks._blocks))
            o_cols = o_tb if isinstance(r, Exception) else f'(Ok {cols_lit(frame_cols(r))})'
            tags = {'stratum': 'model', 'op': 'transpose'}
            if m == 0:
                tags['finding'] = 'C03-zero-columns'
            yield Case('model:transpose', dict(base, replay=mk('f.transpose()')),
                       m=f'res_eqb tb_eqb (M_transpose_v {T} {n}%nat) {o_tb}',
                       s=f'res_eqb columns_eqb (S_transpose_v {C} {n}%nat) {o_cols}',
                       tags=tags, nontrivial=not zero, key=f'M|T|{kinds}|{n}|{ls}')

        # ---- 1-D int64 operand along the rows (chopped by _block_shape_slices), int64 / float64 blocks without missing cells
        if m and all(k in 'ig' for k in kinds):
            import operator as _op
            for oname, other in (('len=m', list(range(1, m + 1))), ('len=m+1', list(range(m + 1))), ('len=m rev', list(range(m, 0, -1)))):
                if m == 1 and oname != 'len=m+1':
                    continue            # a one-element array is the scalar route
                ctx.count('model:binop_row')
                o_tb, r = res_lit(lambda: f._blocks._ufunc_binary_operator(operator=_op.add, other=np.array(other, dtype=np.int64)), lambda t: tb_lit(t._blocks))
                o_cols = o_tb if isinstance(r, Exception) else f'(Ok {cols_lit([r._extract_array(None, j) for j in range(r.shape[1])])})'
                O = lit.lst([lit.z(x) for x in other])
                yield Case('model:binop_row', dict(base, replay=mk(f'f._blocks._ufunc_binary_operator(operator=operator.add, other=np.array({other}))'), other=oname),
                           m=f'res_eqb tb_eqb (M_binop_row_v {T} {O}) {o_tb}', s=f'res_eqb columns_eqb (S_binop_row_v {C} {O}) {o_cols}',
                           tags={'stratum': 'model', 'op': 'binop_row'}, nontrivial=len(lay) > 1, key=f'M|binop|{kinds}|{n}|{ls}|{oname}')

        # ---- roll (wrap) over rows and columns
        shifts = [(0, 1), (0, -1), (1, 0), (2, 1), (-1, 2), (0, m), (1, m + 1), (n, -m - 1), (0, 2), (-2, -2)]
        for rs, cs in shifts:
            ctx.count('model:roll')
            o_tb, r = res_lit(lambda: f.roll(rs, cs), lambda g: tb_lit(g._blocks._blocks))
            o_cols = o_tb if isinstance(r, Exception) else f'(Ok {cols_lit(frame_cols(r))})'
            tags = {'stratum': 'model', 'op': 'roll'}
            if zero:
                tags['finding'] = 'C03-zero-size-roll'
            yield Case('model:roll', dict(base, replay=mk(f'f.roll({rs},{cs})'), shift=[rs, cs]),
                       m=f'res_eqb tb_eqb (M_roll {T} {n} {m} {lit.z(rs)} {lit.z(cs)} (roll_list {lit.z(rs)})) {o_tb}',
                       s=f'res_eqb columns_eqb (Ok (S_roll {C} {n} {m} {lit.z(rs)} {lit.z(cs)} (roll_list {lit.z(rs)}))) {o_cols}',
                       tags=tags, nontrivial=not zero and (cs % m != 0 or rs % n != 0), key=f'M|roll|{kinds}|{n}|{ls}|{rs}|{cs}')

        # ---- fillna(value): decided per block (observable when the value does not fit: C03-fill-block-dtype)
        multi = any(w > 1 for w, _ in lay)
        if all(k in 'ihgfbUO' for k in kinds) and m:
            for vname, value, vlit, vdt in (('0', 0, '(VInt 0)', '(DInt true 8)'), ("'q'", 'q', '(VStr "q")', '(DStr 1)')):
                ctx.count('model:fillna')
                o_tb, r = res_lit(lambda: f.fillna(value), lambda g: tb_lit(g._blocks._blocks))
                o_cols = o_tb if isinstance(r, Exception) else f'(Ok {cols_lit(frame_cols(r))})'
                tags = {'stratum': 'model', 'op': 'fillna'}
                if multi and vname == "'q'":
                    tags['finding'] = 'C03-fill-block-dtype'
                yield Case('model:fillna', dict(base, replay=mk(f'f.fillna({vname})'), value=vname),
                           m=f'res_eqb tb_eqb (Ok (M_fillna_v {vlit} {vdt} {T})) {o_tb}',
                           s=f'res_eqb columns_eqb (Ok (S_fillna_v {vlit} {vdt} {C})) {o_cols}',
                           tags=tags, nontrivial=any(k in 'fO' for k in kinds), key=f'M|fillna|{kinds}|{n}|{ls}|{vname}')

        # ---- extract_bloc: order of the selected cells (C03-bloc-order), dropna(axis=1) keep mask (C03-dropna-1d-block)
        if m:
            for mname, mask in (('notna', np.column_stack([~_isna_col(c) for c in cols]) if n else np.empty((0, m), dtype=bool)),
                                ('checker', np.array([[(i + j) % 2 == 0 for j in range(m)] for i in range(n)], dtype=bool).reshape(n, m))):
                ctx.count('model:bloc')
                coords, arr = f._blocks.extract_bloc(mask)
                o = lit.lst([f'({lit.z(a)}, {lit.z(b_)})' for a, b_ in coords])
                M = lit.lst([lit.lst([lit.b(x) for x in mask[:, j]]) for j in range(m)])
                tags = {'stratum': 'model', 'op': 'bloc'}
                if multi and n >= 2:
                    tags['finding'] = 'C03-bloc-order'
                yield Case('model:extract_bloc', dict(base, replay=mk(f'f._blocks.extract_bloc(mask {mname})'), mask=mname),
                           m=f'list_eqb coord_eqb (map fst (M_bloc {T} {M} 0 {n}%nat)) {o}',
                           s=f'list_eqb coord_eqb (map fst (S_bloc {C} {M})) {o}',
                           tags=tags, nontrivial=bool(mask.sum() > 1), key=f'M|bloc|{kinds}|{n}|{ls}|{mname}')
            if all(k in 'ihgfbUO' for k in kinds):
                for cname, cond, ccoq in (('any', np.any, 'any_true'), ('all', np.all, 'all_true')):
                    ctx.count('model:dropna')
                    txt, r = res_lit(lambda: f._blocks.dropna_to_keep_locations(axis=1, condition=cond)[1], lambda a: lit.lst([lit.b(x) for x in a.tolist()]))
                    tags = {'stratum': 'model', 'op': 'dropna'}
                    yield Case('model:dropna_keep_columns', dict(base, replay=mk(f'f._blocks.dropna_to_keep_locations(axis=1, condition=np.{cname})'), condition=cname),
                               m=f'res_eqb (list_eqb Bool.eqb) (Ok (M_dropna_keep_columns isna {ccoq} {T})) {txt}',
                               s=f'res_eqb (list_eqb Bool.eqb) (Ok (S_dropna_keep_columns isna {ccoq} {C})) {txt}',
                               tags=tags, nontrivial=any(k in 'fO' for k in kinds), key=f'M|dropna|{kinds}|{n}|{ls}|{cname}')

        # ---- column selection through the blocks (coordinator's M_select_columns): exact result blocks
        for ck in _sel(n, m)[1]:
            if ck is None or (isinstance(ck, list) and len(set(ck)) != len(ck)):
                continue
            ctx.count('model:select')
            if isinstance(ck, (int, np.integer)):
                key = f'(CInt {lit.z(ck)})'
            elif isinstance(ck, slice):
                key = 'CAll' if ck == slice(None) else f'(CSlice {lit.slice_(ck)})'
            elif isinstance(ck, np.ndarray):
                key = f'(CMask {lit.lst([lit.b(x) for x in ck])})'
            else:
                key = f'(CList {lit.lst([lit.z(x) for x in ck])})'
            o_tb, r = res_lit(lambda: f._blocks._extract(None, ck), lambda t: cols_lit([t._extract_array(None, j) for j in range(t.shape[1])]))
            yield Case('model:select_columns', dict(base, replay=mk(f'f._blocks._extract(None, {ck!r})'), key=repr(ck)),
                       m=f'res_eqb columns_eqb (res_map flatten (M_select_columns {T} {key})) {o_tb}',
                       s=f'res_eqb columns_eqb (S_select_columns {C} {key}) {o_tb}',
                       tags={'stratum': 'model', 'op': 'select'}, nontrivial=m > 1, key=f'M|sel|{kinds}|{n}|{ls}|{ck!r}')


def append_cases(ctx, kinds, n):
    """TypeBlocks.append / extend histories: the incrementally maintained directory against M_extend."""
    from static_frame.core.type_blocks import TypeBlocks
    m = len(kinds)
    cols = columns_for(kinds, n)
    for lay in layouts(kinds, n):
        blocks = zoo.blocks_from_columns(cols, lay) if m else []
        for cut in sorted({0, len(blocks) // 2, len(blocks)}):
            ctx.count('kernel:append')
            empty = np.empty((n, 0), dtype=np.int64)
            rest = []
            for k, b in enumerate(blocks[cut:]):
                rest.append(b)
                if k % 2 == 0:
                    rest.append(empty)         # a zero-width array is accepted and ignored
            tb = TypeBlocks.from_blocks(blocks[:cut], shape_reference=(n, 0)) if cut else TypeBlocks.from_zero_size_shape((n, 0))
            T0 = tb_lit(tb._blocks)
            tb.extend(rest[:len(rest) // 2])
            for b in rest[len(rest) // 2:]:
                tb.append(b)
            idx = lit.lst([f'({lit.z(a)}, {lit.z(b_)})' for a, b_ in tb._index])
            dts = lit.lst([lit.dtype(d) for d in tb._dtypes])
            obs = f'(mk_state {tb_lit(tb._blocks)} {idx} {dts} {lit.z(tb._shape[1])})'
            R = tb_lit(rest)
            want = cols_lit(cols)
            got = cols_lit([tb._extract_array(None, j) for j in range(tb.shape[1])])
            yield Case('kernel:append-extend',
                       {'replay': f'TypeBlocks.from_blocks(first {cut} blocks of layout {zoo.layout_str(lay)}); .extend/.append the rest (with zero-width arrays between); ._index, ._dtypes, ._shape',
                        'kinds': kinds, 'rows': n, 'layout': zoo.layout_str(lay), 'cut': cut},
                       m=f'state_eqb (M_extend (state_of {T0}) {R}) {obs}',
                       s=f'columns_eqb {want} {got}',
                       tags={'stratum': 'append'}, nontrivial=len(blocks) - cut > 0, key=f'A|{kinds}|{n}|{zoo.layout_str(lay)}|{cut}')


def history_cases(ctx, kinds, n):
    """The same logical frame reached by growing a FrameGO column by column / by extend, against direct construction."""
    import static_frame as sf
    m = len(kinds)
    if m < 2:
        return
    cols = columns_for(kinds, n)
    direct = build(kinds, n, canonical_layout(m))
    routes = (('values', lambda f: f.values), ('T', lambda f: f.T), ('iter_array(1)', lambda f: f.iter_array(axis=1)),
              ('iloc[0]', lambda f: f.iloc[0]), ('equals', lambda f: f.equals(direct, compare_dtype=True)),
              ('sum1', lambda f: f.sum(axis=1)))
    for how in ('setitem', 'extend'):
        g = sf.FrameGO(index=ROW_LABELS[:n], name='fr')
        if how == 'setitem':
            for j in range(m):
                g[COL_LABELS[j]] = cols[j]
        else:
            g.extend(direct.iloc[:, :1])
            g.extend(direct.iloc[:, 1:])
        numeric_mix = len({c.dtype for c in cols}) > 1
        for name, fn in routes:
            ctx.count('history')
            o = observe(fn, g)
            r = observe(fn, direct.to_frame_go())
            tags = {'stratum': 'history', 'op': name}
            if numeric_mix and name in ('values', 'T', 'iter_array(1)', 'iloc[0]', 'sum1'):
                tags['finding'] = 'C03-go-append-row-dtype'
            yield Case('api:history-vs-direct',
                       {'replay': f"g = sf.FrameGO(index=...); g[c] = column for each column ({how}); {name} vs the same frame built at once", 'kinds': kinds, 'rows': n, 'how': how, 'op': name,
                        'observed': short(o, 100)},
                       py_fail=None if o == r else f'{name} of a FrameGO grown by {how} gives {short(o)}; the same frame built at once gives {short(r)}',
                       tags=tags, nontrivial=numeric_mix, key=f'H|{kinds}|{n}|{how}|{name}')


def malformed_cases(ctx):
    """Malformed construction: the constructor's final coherence checks and from_blocks' row-count check must reject."""
    import static_frame as sf
    from static_frame.core.type_blocks import TypeBlocks
    probes = []
    for kinds, n in (('ii', 2), ('if', 3), ('iUU', 1), ('', 2), ('b', 0)):
        m = len(kinds)
        for lay in layouts(kinds, n):
            cols = columns_for(kinds, n)
            for di, dc in ((1, 0), (-1, 0), (0, 1), (0, -1), (1, 1)):
                if n + di < 0 or m + dc < 0:
                    continue
                probes.append((kinds, n, lay, di, dc))
    for kinds, n, lay, di, dc in probes:
        ctx.count('malformed')
        m = len(kinds)
        cols = columns_for(kinds, n)

        def make():
            tb = TypeBlocks.from_blocks(zoo.blocks_from_columns(cols, lay)) if m else TypeBlocks.from_zero_size_shape((n, 0))
            return sf.Frame(tb, index=range(n + di), columns=range(m + dc), own_data=True)
        T = tb_lit(zoo.blocks_from_columns(cols, lay) if m else [])
        txt, r = res_lit(make, lambda f: 'tt')
        # an EMPTY index / columns argument means "not given": the constructor creates the default one of the blocks' size
        idx = lit.lst(['tt'] * ((n + di) or n))
        cl = lit.lst(['tt'] * ((m + dc) or m))
        bad = None
        if not isinstance(r, Exception):
            if r.shape != (len(r.index), len(r.columns)) or r._blocks.shape != r.shape or r.values.shape != r.shape:
                bad = f'accepted an incoherent Frame: shape {r.shape}, index {len(r.index)}, columns {len(r.columns)}, blocks {r._blocks.shape}'
        yield Case('api:malformed-constructor',
                   {'replay': f'sf.Frame(TypeBlocks.from_blocks(layout {zoo.layout_str(lay)} of {kinds!r} x {n} rows), index=range({n + di}), columns=range({m + dc}))', 'observed': txt},
                   m=f'res_eqb (fun _ _ => true) (res_map (fun _ => tt) (mk_frame_checked (L:=unit) {idx} {cl} {T} {n})) {txt}',
                   py_fail=bad, tags={'stratum': 'malformed'}, key=f'X|{kinds}|{n}|{zoo.layout_str(lay)}|{di}|{dc}')
    # zero-size construction routes (from_zero_size_shape): the frame must be coherent and keep its labels
    for zname, make, want in (('Frame(columns)', lambda: sf.Frame(columns=('a', 'b')), (0, 2)), ('Frame(index)', lambda: sf.Frame(index=('p', 'q')), (2, 0)),
                              ('Frame()', lambda: sf.Frame(), (0, 0)), ('FrameGO(index)', lambda: sf.FrameGO(index=('p', 'q')), (2, 0)),
                              ('from_zero_size_shape(0,3)', lambda: sf.Frame(TypeBlocks.from_zero_size_shape((0, 3))), (0, 3)),
                              ('from_records-empty', lambda: sf.Frame.from_records((), columns=('a', 'b')), (0, 2)),
                              ('Frame(empty-array)', lambda: sf.Frame(np.empty((0, 2)), columns=('a', 'b')), (0, 2))):
        ctx.count('malformed')
        try:
            z = make()
            ok = (z.shape == want == (len(z.index), len(z.columns)) == z._blocks.shape == z.values.shape
                  and len(list(z.iter_array(axis=0))) == want[1] and len(list(z.iter_array(axis=1))) == want[0] and len(z.to_pairs(0)) == want[1])
            bad = None if ok else f'{zname}: shape {z.shape}, index {len(z.index)}, columns {len(z.columns)}, blocks {z._blocks.shape}, values {z.values.shape}'
        except Exception as e:  # noqa
            bad = f'{zname} raised {lit.err_class(e)}'
        yield Case('api:malformed-constructor', {'replay': zname, 'want_shape': list(want)}, py_fail=bad, tags={'stratum': 'zero-size-constructor'}, key=f'X|zero|{zname}')
    try:
        TypeBlocks.from_zero_size_shape((2, 3))
        bad = 'from_zero_size_shape((2, 3)) accepted a non-empty shape'
    except RuntimeError:
        bad = None
    yield Case('api:malformed-constructor', {'replay': 'TypeBlocks.from_zero_size_shape((2, 3))'}, py_fail=bad, tags={'stratum': 'malformed'}, key='X|zero|bad-shape')
    for bname, arg in (('3-D array', np.zeros((2, 2, 2))), ('list with a 3-D array', [np.zeros((2, 2, 2))]), ('list with a non-array', [np.arange(2), [1, 2]])):
        try:
            TypeBlocks.from_blocks(arg)
            bad = f'from_blocks({bname}) was accepted'
        except Exception as e:  # noqa
            bad = None if lit.err_class(e) == 'ErrorInitTypeBlocks' else f'from_blocks({bname}) raised {lit.err_class(e)}'
        yield Case('api:malformed-constructor', {'replay': f'TypeBlocks.from_blocks({bname})'}, py_fail=bad, tags={'stratum': 'malformed'}, key=f'X|fb|{bname}')
    # blocks with different row counts
    for a, b_ in ((2, 3), (0, 1), (3, 0)):
        ctx.count('malformed')
        try:
            TypeBlocks.from_blocks([np.arange(a), np.arange(b_ * 2).reshape(b_, 2)])
            bad = 'blocks with different row counts were accepted'
        except Exception as e:  # noqa
            bad = None if lit.err_class(e) == 'ErrorInitTypeBlocks' else f'unexpected error class {lit.err_class(e)}'
        yield Case('api:malformed-constructor', {'replay': f'TypeBlocks.from_blocks([np.arange({a}), np.arange({b_ * 2}).reshape({b_}, 2)])'},
                   py_fail=bad, tags={'stratum': 'malformed'}, key=f'X|rows|{a}|{b_}')


def cases(ctx):
    import warnings
    with warnings.catch_warnings():
        warnings.simplefilter('ignore')
        with np.errstate(all='ignore'):
            seen = set()
            for kinds, n in frame_space(ctx):
                if (kinds, n) in seen:
                    continue
                seen.add((kinds, n))
                ctx.count('kinds:' + (''.join(sorted(set(kinds))) or '-'))
                yield from layout_cases(ctx, kinds, n)
                if ctx.tier == 'quick' or len(kinds) < 4 or n == _PAIR_ROWS.get(kinds, n):
                    yield from pair_cases(ctx, kinds, n)      # thorough, >= 4 columns: the pair space once per dtype sequence
                if 'c' not in kinds:              # complex cells have no literal in SF.Value: no Coq-side strata for them
                    yield from readers_cases(ctx, kinds, n)
                    yield from model_cases(ctx, kinds, n)
                    if len(kinds) <= 4:
                        yield from append_cases(ctx, kinds, n)
                yield from history_cases(ctx, kinds, n)
            yield from missing_cases(ctx)
            yield from isin_cases(ctx)
            yield from malformed_cases(ctx)
