'''C08 -- functional update interfaces change only what they address.'''
import itertools

import numpy as np

from .. import lit
from .. import zoo
from ..core import Case

ID = 'C08'
MANIFEST = {
    'text': ('Coq refinement theorems M = S for EVERY block layout (unbounded: any number / width / 1-D-2-D mix of blocks, any key, by induction over the '
             'block list and the per-block runs of addressed positions) between faithful models of the block walks of type_blocks.py and cell-map '
             'specifications on the flattened frame: C08_drop_any_layout (_drop_blocks: exactly the unaddressed columns, in order, dtype kept), '
             'C08_mask_any_layout (_mask_blocks: True exactly at the addressed columns), C08_astype_any_layout (_astype_blocks: only addressed dtypes '
             'change), C08_assign_unit_any_layout (_assign_from_iloc_by_unit, column part: exactly the addressed columns replaced, the r-th addressed '
             'column by value column r, every other column identical with its dtype), C08_insert_any_layout (Frame._insert). The key conversion inside '
             'the models is the kernel util.slice_to_ascending_slice REGENERATED from /repo on every run (C08_asc_slice_correct, '
             'C08_bloc_unit_cells_any_layout (_assign_from_bloc_by_unit: cells exact for every layout), C08_model_uses_regenerated_kernel) and the retain_key_order / key_to_ascending_key / normalise-negatives / Boolean-array decisions are constants regenerated from the AST (C08_keys_made_ascending_by_position) '
             '(Gen/Gen_c08.v): changing either breaks the proofs before any case runs. C08_drop_exact / C08_set_exact / C08_assign_exact read the '
             'specifications position by position. Refuted/C08.v: vm_compute witnesses that the guard of the theorems is necessary (known findings). '
             'Correspondence: the models (result columns, dtypes AND block layout, error class) and the specifications are evaluated inside Coq on '
             'the inputs the implementation ran on: Frame/Series assign, drop, mask, astype, relabel, rename, insert_before/after through '
             'iloc/loc/getitem/bloc forms, every selector kind, element/tuple/1-D/2-D array/Series/Frame/apply values, every block layout of <= 4 columns; '
             'the receiver is snapshotted before/after every call.'),
    'note': ('trusted: Coq kernel; the hand-written models SF/BlocksUpdate.v, SF/UpdateFrame.v (tied to /repo by the correspondence cases of the run and by '
             'the regenerated kernels/constants); py2v translator + PyDyn semantics for the regenerated kernels; harness; NumPy (row keys, np.delete, '
             'a[k] = v, astype, broadcasting, np.sort are not modelled: rows are a function mapped over the columns, broadcasting is done by NumPy in '
             'the harness). C08_bloc_unit_cells_any_layout / C08_bloc_unit_dtypes_single_column_blocks cover _assign_from_bloc_by_unit (cells for every layout; dtypes '
             'only for one-column blocks: the whole-block cast is a known finding). Specification-level checks only (impl vs S, no model theorem): assign by '
             'blocks (Frame values, get_block_match), bloc with Frame / coordinate-Series values, Series operations, Index / IndexHierarchy drop / astype / rename / '
             'relabel, relabel_flat / level_add / level_drop, masked_array, label alignment of Series/Frame values. NOT exercised: relabel_shift_in / relabel_shift_out, '
             'Frame.clip / Series.clip, the integer-target branch of _assign_from_iloc_by_blocks (unreachable from the public interface), IndexHierarchy._drop_loc, list '
             'keys with repeated positions, hierarchies deeper than 2, datetime64 units other than D; the dtype of an '
             'ASSIGNED column is compared with the model (resolve_dtype, regenerated) but is not part of the specification (C07). The refinement '
             'theorems carry the guard walk_dom (a list key denotes pairwise different positions after normalisation of the negative ones; slice step <> 0) and "at least one block".'),
    'technique': 'refinement proof (model of the block walk = specification on the flattened columns, for all layouts) + regenerated kernels/constants + differential correspondence evaluated in Coq',
}
PROPERTY_FILES = ['Properties/C08.v']
REFUTED_FILES = ['Refuted/C08.v']
MODEL_FILES = ['SF/PyDyn.v', 'Gen/Gen_util.v', 'Gen/Gen_type_blocks.v', 'SF/UpdateFrameSpec.v', 'Gen/Gen_c08.v', 'SF/UpdateFrame.v']
TRANSLATED = ['slice_to_ascending_slice', 'cols_to_slice', 'resolve_dtype']
RULE = ('exhaustive small spaces first: every block layout (zoo.layouts_for) of every prefix (0..4 columns) of the dtype patterns IIII, IIFB, UIIO, FFFI '
        '(quick tier: all layouts up to 3 columns and every other layout of 4 columns of IIII, the 4-column layouts of the mixed patterns) x EVERY subset of the '
        'columns as a key, on 3-row frames, for drop / mask / assign(unit) / astype; on one to three layouts per width additionally every integer, the '
        'deduplicated grid of all slices with start/stop in None,-R..R and step in None,+-1..3 (R=3 quick, 6 thorough; the thorough tier uses every layout), '
        'every duplicate-free list / integer array (sampled above 20), lists with negative positions, and a sweep of row keys (None, null slice, int, '
        'negative int, slice, negative-step slice, list, negative list, Boolean array, empty list); values: element of five kinds, arrays of the '
        'selection shape, 1-D array along the columns, tuple, Series / Frame with reordered, partially overlapping and foreign labels (default and '
        'explicit fill_value), one-axis-disjoint Frames, functions through apply; bloc keys as Boolean array / reindexed Boolean Frame x element / array / '
        'Frame / coordinate Series; loc and getitem forms are derived from the positional key (labels, label slices, Boolean arrays, reordered Boolean '
        'Series); Series: every key kind incl. the slice grid on lengths 0..4; relabel / rename / insert_before / insert_after on Frame and Series; a '
        'every interface also on FrameGO receivers with the "nothing to do" shortcuts (empty keys, drop of nothing, astype of no column, identity relabel, same name, insertion of an empty Series / a column-less Frame): result is a new container by identity, shares no _blocks / _columns object, equals the static Frame\'s result, and growing result or receiver in place leaves the other untouched; Frame values of assign have blocks of different dtype and width in both orders; assign.bloc with coordinate Series / apply on every layout with a distinct value per cell; a '
        'extension round (coverage-guided): Frame / Series values whose labels are the same / reordered / same-shape-partial / smaller / larger than the target\'s through iloc, loc, getitem and bloc (value Frames in 1-D, one 2-D or mixed blocks; the caller\'s bloc key array is re-checked after the call); '
        'hierarchical index and columns (positions and HLoc), relabel_flat / level_add / level_drop, Index / IndexGO / IndexHierarchy drop, astype, rename, relabel; uint8 / bytes / datetime64[D] / timedelta64[D] / object columns, 0-row frames, FrameHE / SeriesHE receivers, masked_array; malformed bloc keys and key types; a '
        'malformed stream (out-of-range positions, absent labels, wrong mask length, step 0, wrong value shape: must raise, receiver untouched); a seeded '
        'random stream of 3..7-column mixed-dtype frames; kernel strata: util.slice_to_ascending_slice and TypeBlocks._cols_to_slice on exhaustive grids '
        'against the regenerated Gallina. A case is non-trivial when the key addresses at least one cell; distinct = distinct (call, frame, layout, key, value).')
ASSUMPTIONS = ['Python int = Z, // and % = Z.div / Z.modulo (floor)',
               'index and column labels are unique strings (C02); label -> position translation of loc/getitem keys is C04\'s business: the harness derives '
               'label keys from positional ones',
               'an unlabelled array value is paired with the addressed columns in ASCENDING position order and with the row key in key order (what '
               'NumPy does after the column key was made ascending); arrays are only generated with ascending column keys, because the property does not '
               'fix the pairing otherwise',
               'labelled values: an addressed cell whose label the value lacks receives fill_value through iloc/loc/getitem and keeps its value through bloc',
               'mask does not propagate the name (documented in Series._extract_iloc_mask, series.py:1450); names are compared for every other interface',
               'oracle conv_val for astype cells: int/bool -> float, bool -> int, anything -> object',
               'Frame.drop with a column key on a Frame without blocks is deliberately rejected (IndexError) and not generated']
TRUSTED = ['NumPy broadcasting of an unlabelled value to the selection shape (np.broadcast_to in the harness)',
           'util.dtype_from_element called directly to obtain the dtype of the assigned value (input of the assign model)']
EXHAUSTIVE = {'quick': False, 'thorough': True}
GENERATED_FILES = ['Gen/Gen_c08.v']

# ---------------------------------------------------------------------------------------------- regenerated decision table
def generate(repo):
    """Fail-closed extraction (Python ast) of the decisions the block-walk models hinge on, regenerated on every run:
    which walks ask _key_to_block_slices for ASCENDING targets (retain_key_order=False) and that FrameAssignILoc makes
    the column key ascending (key_to_ascending_key on key[1]) before the by-unit / by-blocks walks, which retain key order."""
    import ast
    import os

    def parse(rel):
        with open(os.path.join(repo, rel)) as fh:
            return ast.parse(fh.read())

    def method(tree, cls, name):
        for node in tree.body:
            if isinstance(node, ast.ClassDef) and node.name == cls:
                for sub in node.body:
                    if isinstance(sub, ast.FunctionDef) and sub.name == name:
                        return sub
        raise ValueError(f'{cls}.{name} not found')

    def retain_flag(fn):
        calls = [c for c in ast.walk(fn) if isinstance(c, ast.Call) and isinstance(c.func, ast.Attribute)
                 and c.func.attr == '_key_to_block_slices' and isinstance(c.func.value, ast.Name) and c.func.value.id == 'self']
        if len(calls) != 1:
            raise ValueError(f'{fn.name}: expected exactly one self._key_to_block_slices call, found {len(calls)}')
        kws = {k.arg: k.value for k in calls[0].keywords}
        if 'retain_key_order' not in kws:
            return True                                           # the default of the parameter
        v = kws['retain_key_order']
        if not (isinstance(v, ast.Constant) and isinstance(v.value, bool)):
            raise ValueError(f'{fn.name}: retain_key_order is not a literal')
        return v.value

    tb = parse('static_frame/core/type_blocks.py')
    default = method(tb, 'TypeBlocks', '_key_to_block_slices').args.defaults
    if not (len(default) == 1 and isinstance(default[0], ast.Constant) and default[0].value is True):
        raise ValueError('_key_to_block_slices: default of retain_key_order is not True')
    flags = {name: retain_flag(method(tb, 'TypeBlocks', name))
             for name in ('_drop_blocks', '_mask_blocks', '_astype_blocks', '_assign_from_iloc_by_unit', '_assign_from_iloc_by_blocks')}
    # FrameAssignILoc.__call__: key_to_ascending_key(self.key[1], ...)
    fr = parse('static_frame/core/frame.py')
    call = method(fr, 'FrameAssignILoc', '__call__')
    sorts = False
    for c in ast.walk(call):
        if isinstance(c, ast.Call) and isinstance(c.func, ast.Name) and c.func.id == 'key_to_ascending_key' and c.args:
            a0 = c.args[0]
            if (isinstance(a0, ast.Subscript) and isinstance(a0.value, ast.Attribute) and a0.value.attr == 'key'
                    and isinstance(a0.slice, ast.Constant) and a0.slice.value == 1):
                sorts = True
    # ---- how the key is made ascending (fixes c80a0ec, dc30af2): is the argument of sorted() the key itself or the key
    # with its negative positions normalised?  does a Boolean ndarray pass through unchanged?
    def sorted_normalises(call_node, where):
        if len(call_node.args) != 1:
            raise ValueError(f'{where}: sorted() with {len(call_node.args)} arguments')
        a = call_node.args[0]
        if isinstance(a, ast.Name) and a.id == 'key':
            return False
        if (isinstance(a, ast.GeneratorExp) and isinstance(a.elt, ast.IfExp) and isinstance(a.elt.body, ast.BinOp)
                and isinstance(a.elt.body.op, ast.Add) and len(a.generators) == 1
                and isinstance(a.generators[0].iter, ast.Name) and a.generators[0].iter.id == 'key'):
            return True
        raise ValueError(f'{where}: unrecognised argument of sorted()')

    def sorted_calls(node):
        return [c for c in ast.walk(node) if isinstance(c, ast.Call) and isinstance(c.func, ast.Name) and c.func.id == 'sorted']

    kbs = sorted_calls(method(tb, 'TypeBlocks', '_key_to_block_slices'))
    if len(kbs) != 1:
        raise ValueError(f'_key_to_block_slices: expected one sorted() call, found {len(kbs)}')
    walk_norm = sorted_normalises(kbs[0], '_key_to_block_slices')
    cu = parse('static_frame/core/container_util.py')
    ktak = [n for n in cu.body if isinstance(n, ast.FunctionDef) and n.name == 'key_to_ascending_key']
    if len(ktak) != 1:
        raise ValueError('container_util.key_to_ascending_key not found')
    list_norm = array_norm = bool_kept = None
    for node in ktak[0].body:
        if not isinstance(node, ast.If):
            continue
        src = ast.unparse(node.test)
        if src == 'isinstance(key, list)':
            sc = sorted_calls(node)
            if len(sc) != 1:
                raise ValueError('key_to_ascending_key: list branch without a single sorted()')
            list_norm = sorted_normalises(sc[0], 'key_to_ascending_key')
        elif src == 'key.__class__ is np.ndarray':
            bool_kept = any(isinstance(n, ast.If) and ast.unparse(n.test) == 'key.dtype == bool'
                            and len(n.body) == 1 and isinstance(n.body[0], ast.Return) and ast.unparse(n.body[0].value) == 'key'
                            for n in node.body)
            array_norm = any(isinstance(n, ast.Assign) and ast.unparse(n.targets[0]) == 'key' and ast.unparse(n.value).startswith('np.where(')
                             and 'key + size' in ast.unparse(n.value) for n in node.body)
            if not any(isinstance(n, ast.Return) and ast.unparse(n.value).startswith('np.sort(key') for n in node.body):
                raise ValueError('key_to_ascending_key: ndarray branch does not return np.sort(key, ...)')
    if None in (list_norm, array_norm, bool_kept):
        raise ValueError('key_to_ascending_key: list / ndarray branches not found')
    b = lambda x: 'true' if x else 'false'
    extra = (f'Definition block_slices_sorted_normalises_negatives : bool := {b(walk_norm)}.\n'
             f'Definition ascending_key_list_normalises_negatives : bool := {b(list_norm)}.\n'
             f'Definition ascending_key_array_normalises_negatives : bool := {b(array_norm)}.\n'
             f'Definition ascending_key_boolean_array_unchanged : bool := {b(bool_kept)}.\n')
    text = ('(* GENERATED on every run by tools/sfv/props/c08.py:generate from static_frame/core/type_blocks.py and frame.py -- do not edit *)\n'
            + ''.join(f'Definition retain_key_order{name} : bool := {b(v)}.\n' for name, v in flags.items())
            + f'Definition assign_iloc_column_key_made_ascending : bool := {b(sorts)}.\n' + extra)
    return {'Gen/Gen_c08.v': text}


# ---------------------------------------------------------------------------------------------- base data
ROW_LABELS = ('x', 'y', 'z', 'w', 'v')
COL_LABELS = ('a', 'b', 'c', 'd', 'e', 'f', 'g')
NAME = 'nm'

I8, F8, B1, U2, OB = np.dtype('int64'), np.dtype('float64'), np.dtype(bool), np.dtype('<U2'), np.dtype(object)


def _cell(dt, i, j):
    if dt == I8:
        return 10 * (j + 1) + i
    if dt == F8:
        return 10.0 * (j + 1) + i + 0.5
    if dt == B1:
        return (i + j) % 2 == 0
    if dt == U2:
        return f'{"pqrstuv"[j]}{i}'
    if dt == OB:
        return (None, 'o', 7, 2.5, True)[(i + j) % 5]
    if dt == np.dtype('uint8'):
        return 200 + 10 * j + i
    if dt == np.dtype('S2'):
        return ('%s%d' % ('wxyz'[j % 4], i)).encode()
    if dt == np.dtype('datetime64[D]'):
        return np.datetime64('2020-01-01', 'D') + np.timedelta64(10 * j + i, 'D')
    if dt == np.dtype('timedelta64[D]'):
        return np.timedelta64(3 * j + i, 'D')
    raise ValueError(dt)


def column(dt, j, nrows):
    a = np.empty(nrows, dtype=dt)
    for i in range(nrows):
        a[i] = _cell(dt, i, j)
    a.flags.writeable = False
    return a


# dtype patterns of the exhaustive strata: every block layout compatible with each is enumerated
POOLS = {
    'I': (I8, I8, I8, I8),          # every composition is a legal layout
    'M': (I8, I8, F8, B1),
    'S': (U2, I8, I8, OB),
    'F': (F8, F8, F8, I8),          # a multi-column block that already has the astype target dtype, followed by one that has not
}


def build_frame(dtypes, nrows, layout, cls=None, name=NAME):
    import static_frame as sf
    cols = [column(dt, j, nrows) for j, dt in enumerate(dtypes)]
    return zoo.frame_from_columns(cols, layout, index=sf.Index(ROW_LABELS[:nrows]), columns=sf.Index(COL_LABELS[:len(dtypes)]),
                                  name=name, cls=cls)


def layout_lit(layout):
    return lit.lst([f'({lit.z(w)}, {lit.b(d)})' for w, d in layout])


def frame_columns(fr):
    '''the columns as 1-D arrays read straight from the block arrays (no extraction code involved)'''
    out = []
    for b in fr._blocks._blocks:
        if b.ndim == 1:
            out.append(b)
        else:
            out.extend(b[:, j] for j in range(b.shape[1]))
    return out


def cell_vals(a):
    '''cells of a 1-D array; NumPy turns timedelta64[D] cells into datetime.timedelta when a column becomes object'''
    import datetime
    out = []
    for v in lit.array_vals(a):
        if isinstance(v, datetime.timedelta):
            v = np.timedelta64(v.days, 'D')
        out.append(v)
    return out


def cols_lit(fr):
    return lit.lst([f'({lit.dtype(a.dtype)}, {lit.vlist(cell_vals(a))})' for a in frame_columns(fr)])


def oframe_lit(fr):
    return f'(mk_oframe {lit.vlist(lit.labels(fr.index))} {lit.vlist(lit.labels(fr.columns))} {cols_lit(fr)} {lit.val(fr.name)})'


def mframe_lit(fr):
    '''the frame WITH its block layout'''
    return (f'(mk_mframe {lit.vlist(lit.labels(fr.index))} {lit.vlist(lit.labels(fr.columns))} '
            f'(build_tb {layout_lit(zoo.layout_of(fr))} {cols_lit(fr)}) {lit.val(fr.name)})')


def ofl_lit(fr):
    '''observed frame + observed layout'''
    return f'({oframe_lit(fr)}, {layout_lit(zoo.layout_of(fr))})'


def snapshot(obj):
    '''everything observable of a container, to decide "left exactly as it was"'''
    import static_frame as sf
    if isinstance(obj, sf.Series):
        return ('S', lit.oseries(obj), repr(obj.index.name), obj.values.flags.writeable)
    return ('F', oframe_lit(obj), layout_lit(zoo.layout_of(obj)), repr(obj.index.name), repr(obj.columns.name),
            tuple(b.flags.writeable for b in obj._blocks._blocks))


# ---------------------------------------------------------------------------------------------- keys
class K:
    '''a positional key: kind in none|all|int|slice|list|array|mask'''
    __slots__ = ('kind', 'v')

    def __init__(self, kind, v=None):
        self.kind, self.v = kind, v

    def py(self):
        if self.kind == 'none':
            return None
        if self.kind == 'all':
            return slice(None)
        if self.kind == 'int':
            return int(self.v)
        if self.kind == 'slice':
            return slice(*self.v)
        if self.kind == 'list':
            return list(self.v)
        if self.kind == 'array':
            return np.array(self.v, dtype=np.int64)
        if self.kind == 'mask':
            return np.array(self.v, dtype=bool)
        raise ValueError(self.kind)

    def coq(self):
        '''Coq ckey'''
        if self.kind == 'all':
            return 'CAll'
        if self.kind == 'int':
            return f'(CInt {lit.z(self.v)})'
        if self.kind == 'slice':
            if tuple(self.v) == (None, None, None):
                return 'CAll'           # slice(None) IS the null slice for the implementation
            return f'(CSlice {lit.slice_(slice(*self.v))})'
        if self.kind in ('list', 'array'):
            return '(CList ' + lit.lst([lit.z(x) for x in self.v]) + ')'
        if self.kind == 'mask':
            return '(CMask ' + lit.lst([lit.b(x) for x in self.v]) + ')'
        raise ValueError(self.kind)

    def ocoq(self):
        '''Coq option ckey (None = no key given)'''
        return 'None' if self.kind == 'none' else f'(Some {self.coq()})'

    def desc(self):
        return [self.kind, self.v if self.kind != 'slice' else list(self.v)]

    def positions(self, n):
        '''positions denoted on an axis of length n (None when the key is invalid there); order as given'''
        try:
            if self.kind == 'none':
                return None
            if self.kind == 'all':
                return list(range(n))
            if self.kind == 'int':
                return [range(n)[self.v]]
            if self.kind == 'slice':
                return list(range(n)[slice(*self.v)])
            if self.kind in ('list', 'array'):
                return [range(n)[x] for x in self.v]
            if self.kind == 'mask':
                if len(self.v) != n:
                    return None
                return [i for i, x in enumerate(self.v) if x]
        except (IndexError, ValueError):
            return None


NONE, ALL = K('none'), K('all')


def has_negative(k):
    if k.kind == 'int':
        return k.v < 0
    if k.kind in ('list', 'array'):
        return any(x < 0 for x in k.v)
    return False


def slice_grid(n, R):
    '''every slice with start/stop in None,-R..R and step in None,-3..3 (no 0), deduplicated by what decides the
    walk: (positions denoted in key order, sign class of the bounds)'''
    vals = [None] + list(range(-R, R + 1))
    seen = set()
    for a, b, c in itertools.product(vals, vals, (None, 1, 2, 3, -1, -2, -3)):
        ps = tuple(range(n)[slice(a, b, c)])
        sig = (ps, a is not None and a < 0, b is not None and b < 0, c is not None and c < 0, a is None, b is None)
        if sig in seen:
            continue
        seen.add(sig)
        yield K('slice', (a, b, c))


def small_keys(n, tier, rng, slices=True):
    '''valid keys of every kind on an axis of length n'''
    out = [ALL]
    out += [K('int', i) for i in range(-n, n)]
    if slices:
        out += list(slice_grid(n, 6 if tier == 'thorough' else 3))
    # lists: every non-empty duplicate-free sequence of non-negative positions (order matters) for n <= 3, sampled above
    seqs = [p for r in range(0, n + 1) for p in itertools.permutations(range(n), r)]
    if len(seqs) > 20 and tier == 'quick':
        seqs = seqs[:6] + rng.sample(seqs[6:], 14)
    out += [K('list', list(p)) for p in seqs]
    out += [K('array', list(p)) for p in seqs[1::3]]
    # lists with negative positions (candidate finding D2 when not in positional order)
    for p in seqs[1::2]:
        q = [x - n if (i + len(p)) % 2 == 0 else x for i, x in enumerate(p)]
        if any(x < 0 for x in q):
            out.append(K('list', q))
    out += [K('mask', list(m)) for m in itertools.product((False, True), repeat=n)]
    return out


# ---------------------------------------------------------------------------------------------- findings
F_DROPALL = 'C08-drop-all-columns-with-rows'
F_ZERO = 'C08-zero-columns'


def call(fn):
    try:
        return fn(), None
    except Exception as e:  # noqa
        return None, e


def res_lit(out, err, printer):
    if err is not None:
        return f'(Err {lit.s(lit.err_class(err))})'
    return f'(Ok {printer(out)})'


# ---------------------------------------------------------------------------------------------- drop / mask
def frame_universe(ctx, extra_pools=()):
    """(pool name, dtypes, layout, level) of the exhaustive strata: every layout of every prefix of every pool.
    level (quick tier): 'full' = every key kind incl. the slice grid and the row-key sweep (one layout per width),
    'mid' = every key kind but slices (two more layouts per width), 'masks' = every subset of the columns (all the
    other layouts).  The thorough tier uses 'full' everywhere."""
    for pname, dts in POOLS.items():
        if ctx.tier == 'quick' and ((pname == 'F' and 'F' not in extra_pools) or pname == 'S'):
            continue            # quick tier: the UIIO pattern only in the thorough tier
        for m in range(0, 5):
            if pname != 'I' and (m < 2 or (ctx.tier == 'quick' and m < 4)):
                continue
            lays = list(zoo.layouts_for(dts[:m]))
            for i, layout in enumerate(lays):
                if ctx.tier == 'thorough':
                    level = 'full' if pname == 'I' else 'mid'      # the slice grid does not depend on dtypes
                elif pname == 'I' and i == len(lays) // 2:
                    level = 'full'
                elif pname == 'I' and i in (0, len(lays) - 1):
                    level = 'mid'
                elif (pname == 'S' or (pname == 'I' and m == 4)) and i % 2:
                    continue            # quick tier: every other layout of the widest frames (the thorough tier takes all)
                else:
                    level = 'masks'
                yield pname, dts[:m], layout, level


ROW_KEYS = [NONE, ALL, K('int', 1), K('int', -1), K('slice', (1, None, None)), K('slice', (None, None, -2)),
            K('list', [2, 0]), K('list', [-1, 0]), K('mask', [True, False, True]), K('list', [])]


def key_plan(ctx, m, level):
    """(column key, [row keys]) pairs for one frame: every subset of the columns (as a Boolean mask) on EVERY layout;
    the other key kinds (they differ only in how the key becomes ascending positions, which does not depend on the
    layout) on every layout in the thorough tier and on the 'full' / 'mid' layouts in the quick tier"""
    rot = 0
    for ck in [NONE] + small_keys(m, ctx.tier, ctx.rng, slices=(level == 'full')):
        if level == 'masks' and ck.kind not in ('mask', 'none', 'all'):
            continue
        rot += 1
        if level == 'full' and ck.kind in ('none', 'all'):
            yield ck, ROW_KEYS
        elif ctx.tier == 'thorough' and ck.kind != 'slice':
            yield ck, [NONE, ROW_KEYS[rot % len(ROW_KEYS)]]
        else:
            yield ck, [ROW_KEYS[rot % len(ROW_KEYS)]]


def classify(op, ck, rk, m, nrows):
    """finding tags from the INPUT class; cases() then keeps a tag only when the observed outcome is the RECORDED kind
    (FINDING_OUTCOME): another failure on the same input is not excused"""
    tags = {}
    cps, rps = ck.positions(m), rk.positions(nrows)
    # list keys with negative positions out of positional order: fixed by c80a0ec, regression cases now
    if op == 'drop' and rps and (m == 0 or (cps is not None and len(set(cps)) == m)):
        tags['finding'] = F_DROPALL
    elif op == 'mask' and m == 0:
        tags['finding'] = F_ZERO
    return tags


def drop_mask_cases(ctx):
    nrows = 3
    for pname, dts, layout, level in frame_universe(ctx):
        m = len(dts)
        f = build_frame(dts, nrows, layout)
        flit = mframe_lit(f)
        oflit = oframe_lit(f)
        for ck, rks in key_plan(ctx, m, level):
            for rk in rks:
                for op in ('drop', 'mask'):
                    if op == 'mask' and rk.kind == 'none' and ck.kind == 'none':
                        continue
                    if op == 'drop' and m == 0 and ck.kind != 'none':
                        continue        # deliberately rejected: 'cannot drop columns from zero-blocks'
                    before = snapshot(f)
                    key = rk.py() if ck.kind == 'none' else (rk.py(), ck.py())
                    out, err = call(lambda: getattr(f, op).iloc[key])
                    after = snapshot(f)
                    cps = ck.positions(m)
                    rps = rk.positions(nrows)
                    tags = {'op': op, 'form': 'iloc', 'ckind': ck.kind, 'rkind': rk.kind}
                    tags.update(classify(op, ck, rk, m, nrows))
                    ctx.count(f'{op}:ck={ck.kind}', f'{op}:rk={rk.kind}', f'layout:{zoo.layout_str(layout) or "empty"}',
                              'outcome:' + ('ok' if err is None else lit.err_class(err)))
                    obs = res_lit(out, err, ofl_lit)
                    if op == 'drop':
                        mterm = f'res_same ofl_eqb (M_frame_drop {flit} {rk.ocoq()} {ck.ocoq()}) {obs}'
                        sterm = f'res_agree of_eqb_ofl (S_frame_drop {oflit} {rk.ocoq()} {ck.ocoq()}) {obs}'
                    else:
                        mterm = f'res_same ofl_eqb_noname (M_frame_mask {flit} {rk.ocoq()} {ck.ocoq()}) {obs}'
                        sterm = f'res_agree of_eqb_ofl_noname (S_frame_mask {oflit} {rk.ocoq()} {ck.ocoq()}) {obs}'
                    yield Case(f'api:frame.{op}.iloc',
                               {'pool': pname, 'columns': m, 'rows': nrows, 'layout': zoo.layout_str(layout), 'call': f'f.{op}.iloc[row_key, column_key]',
                                'row_key': rk.desc(), 'column_key': ck.desc(),
                                'observed': 'raises ' + type(err).__name__ if err is not None else [lit.labels(out.index), lit.labels(out.columns), out.values.tolist() if out.size else []]},
                               m=mterm, s=sterm,
                               py_fail=None if before == after else f'receiver changed by f.{op}.iloc[{key!r}]',
                               tags=tags,
                               nontrivial=bool(cps) or bool(rps))


# ---------------------------------------------------------------------------------------------- label forms of a key
def loc_key(k, labels, reorder=False):
    """a label key with the same meaning as the positional key k on an axis with these labels; None when the key has
    no label form (negative-step / out-of-range slices).  Boolean keys stay Boolean arrays (or become a Boolean
    Series, reordered, when `reorder`)."""
    import static_frame as sf
    n = len(labels)
    if k.kind == 'none':
        return None
    if k.kind == 'all':
        return slice(None)
    if k.kind == 'int':
        return labels[k.v]
    if k.kind in ('list', 'array'):
        out = [labels[x] for x in k.v]
        return out if k.kind == 'list' else np.array(out, dtype=object if any(not isinstance(x, str) for x in out) else None) if out else out
    if k.kind == 'mask':
        if reorder:
            order = list(range(n))[::-1]
            return sf.Series([k.v[i] for i in order], index=[labels[i] for i in order])
        return np.array(k.v, dtype=bool)
    if k.kind == 'slice':
        a, b, c = k.v
        if c not in (None, 1) or (a is not None and not 0 <= a < n) or (b is not None and not 0 < b <= n):
            return None
        ps = list(range(n)[slice(a, b, c)])
        if not ps:
            return None
        return slice(None if a is None else labels[a], None if b is None else labels[b - 1])
    raise ValueError(k.kind)


# ---------------------------------------------------------------------------------------------- assign

ELEMS = [-5, 2.5, 'zz', None, True, 0]


def aval_elem(x):
    return f'(AElem {lit.val(x)})'


def aval_mat(B, rows_multi, cols_multi, nr_sel, nc_sel):
    """B: object ndarray broadcast to the selection; -> AMat m with m[j][i] (j-th addressed column ascending, i-th row key element)"""
    if rows_multi and cols_multi:
        get = lambda i, j: B[i, j]
    elif rows_multi:
        get = lambda i, j: B[i]
    elif cols_multi:
        get = lambda i, j: B[j]
    else:
        get = lambda i, j: B[()]
    return '(AMat ' + lit.lst([lit.vlist([get(i, j) for i in range(nr_sel)]) for j in range(nc_sel)]) + ')'


def sel_shape(rk, ck, rps, cps):
    shape = ()
    if rk.kind != 'int':
        shape += (len(rps),)
    if ck.kind != 'int':
        shape += (len(cps),)
    return shape


def unit_values(rk, ck, rps, cps, rot):
    """(description, python value, Coq aval, sliceable) for unlabelled values that NumPy can broadcast to the selection"""
    shape = sel_shape(rk, ck, rps, cps)
    rows_multi, cols_multi = rk.kind != 'int', ck.kind != 'int'
    e = ELEMS[rot % len(ELEMS)]
    yield ('element', e, aval_elem(e), False)
    cands = []
    if shape:
        # an array of the selection's shape, distinct cells
        a = (np.arange(int(np.prod(shape)), dtype=np.int64).reshape(shape) + 100) if rot % 2 == 0 else \
            (np.arange(int(np.prod(shape)), dtype=np.float64).reshape(shape) / 2 - 3)
        cands.append(('array' + str(len(shape)) + 'd', a))
        if len(shape) == 2:
            cands.append(('array1d-along-columns', np.arange(shape[1], dtype=np.int64) - 50))
        if cols_multi and not rows_multi:
            cands.append(('tuple', tuple((7, 'tt', 1.5, None, False)[(rot + j) % 5] for j in range(shape[0]))))
    for name, v in cands:
        try:
            B = np.broadcast_to(np.array(v, dtype=object) if not isinstance(v, tuple) else _obj1d(v), shape)
        except ValueError:
            continue
        if B.size == 0:
            continue
        yield (name, v, aval_mat(B, rows_multi, cols_multi, len(rps), len(cps)), True)


def _obj1d(t):
    a = np.empty(len(t), dtype=object)
    for i, x in enumerate(t):
        a[i] = x
    return a


def vdt_lit(value):
    from static_frame.core.util import dtype_from_element
    return lit.dtype(dtype_from_element(value))


RESOLVE = 'c08_resolve'


def assign_tags(form, ck, rk, m, asarray_mask):
    tags = {'op': 'assign', 'form': form, 'ckind': ck.kind, 'rkind': rk.kind}
    # negative positions in list keys (c80a0ec) and Boolean ndarray column keys through iloc (dc30af2) are fixed:
    # their inputs stay in the strata as regression cases
    if m == 0:
        tags['finding'] = F_ZERO
    return tags


def assign_unit_cases(ctx):
    nrows = 3
    rot = 0
    for pname, dts, layout, level in frame_universe(ctx):
        m = len(dts)
        f = build_frame(dts, nrows, layout)
        flit, oflit = mframe_lit(f), oframe_lit(f)
        for ck, rks in key_plan(ctx, m, level):
            for rk in (rks[:1] if ctx.tier == 'quick' else rks[:2]):
                cps, rps = ck.positions(m), rk.positions(nrows)
                if ck.kind == 'none':
                    cps = list(range(m))
                if rk.kind == 'none':
                    rps = list(range(nrows))
                if cps is None or rps is None:
                    continue
                rot += 1
                key = rk.py() if ck.kind == 'none' else (rk.py(), ck.py())
                vals = list(unit_values(rk, ck, rps, sorted(cps), rot))
                if (ctx.tier == 'quick' or ck.kind == 'slice') and len(vals) > 2:
                    vals = [vals[0], vals[1 + rot % (len(vals) - 1)]]
                for vname, value, aval, sliceable in vals:
                    if vname != 'element' and ck.kind in ('list', 'array') and sorted(cps) != cps:
                        continue    # the pairing of an unlabelled array with a non-ascending key is not fixed by the property
                    before = snapshot(f)
                    out, err = call(lambda: f.assign.iloc[key](value))
                    after = snapshot(f)
                    tags = assign_tags('iloc', ck, rk, m, ck.kind == 'mask')
                    tags['value'] = vname
                    ctx.count(f'assign:ck={ck.kind}', f'assign:rk={rk.kind}', f'assign:value={vname}',
                              'outcome:' + ('ok' if err is None else lit.err_class(err)))
                    obs = res_lit(out, err, ofl_lit)
                    is_slice = ck.kind != 'int'
                    mterm = (f'res_same ofl_same (M_frame_assign_unit {flit} {rk.ocoq()} {ck.ocoq()} {lit.b(ck.kind in ("array", "mask"))} '
                             f'{lit.b(is_slice)} {lit.b(sliceable)} {aval} {vdt_lit(value)} {RESOLVE}) {obs}')
                    sterm = (f'S_frame_assign_ok {oflit} {rk.ocoq()} {ck.ocoq()} {aval} VNaN {oframe_lit(out)}' if err is None else 'false')
                    yield Case('api:frame.assign.iloc(unit)',
                               {'pool': pname, 'columns': m, 'rows': nrows, 'layout': zoo.layout_str(layout),
                                'call': 'f.assign.iloc[row_key, column_key](value)', 'row_key': rk.desc(), 'column_key': ck.desc(),
                                'value': vname + ':' + repr(value if not isinstance(value, np.ndarray) else value.tolist()),
                                'observed': 'raises ' + type(err).__name__ if err is not None else out.values.tolist()},
                               m=mterm, s=sterm,
                               py_fail=None if before == after else f'receiver changed by f.assign.iloc[{key!r}]',
                               tags=tags, nontrivial=bool(cps) and bool(rps))


# ---------------------------------------------------------------------------------------------- assign: labelled values, forms
def few_layouts(dts):
    lays = list(zoo.layouts_for(dts))
    return list(dict.fromkeys([lays[0], lays[len(lays) // 2], lays[-1]]))


def label_frames(ctx, ms=(2, 3, 4)):
    for pname in ('I', 'M'):
        for m in ms:
            if ctx.tier == 'quick' and pname == 'M' and m != max(ms):
                continue
            dts = POOLS[pname][:m]
            for layout in few_layouts(dts):
                yield pname, dts, layout


def form_call(f, iface, form, rk, ck, rlabels, clabels, reorder=False):
    """the selector object `f.<iface>.<form>[key]` for a positional (rk, ck); None when the form cannot express the key"""
    obj = getattr(f, iface)
    if form == 'iloc':
        key = rk.py() if ck.kind == 'none' else (rk.py(), ck.py())
        return (lambda: obj.iloc[key]), f'f.{iface}.iloc[{key!r}]'
    if form == 'loc':
        if ck.kind == 'none':
            if rk.kind == 'none' or (rk.kind == 'slice' and loc_key(rk, rlabels) is None):
                return None
            key = loc_key(rk, rlabels, reorder)
        else:
            if (rk.kind == 'slice' and loc_key(rk, rlabels) is None) or (ck.kind == 'slice' and loc_key(ck, clabels) is None):
                return None
            if rk.kind == 'none':
                return None
            key = (loc_key(rk, rlabels, reorder), loc_key(ck, clabels, reorder))
        return (lambda: obj.loc[key]), f'f.{iface}.loc[{key!r}]'
    if form == 'getitem':
        if rk.kind != 'none' or ck.kind == 'none' or (ck.kind == 'slice' and loc_key(ck, clabels) is None):
            return None
        key = loc_key(ck, clabels, reorder)
        return (lambda: obj[key]), f'f.{iface}[{key!r}]'
    raise ValueError(form)


def hetero_cell(kind, j, i):
    if kind == 'i':
        return 700 + 10 * j + i
    if kind == 'f':
        return 700 + 10 * j + i + 0.5
    if kind == 's1':
        return 'abcdefg'[(i + j) % 7]
    return f'long{j}{i}'


def labelled_value(kind, f, rps, cps, partial, hetero=0):
    """a Series / Frame value whose labels partially overlap the target's, reordered, plus one foreign label;
    returns (python value, Coq aval)"""
    import static_frame as sf
    rl = [f.index.values[i] for i in rps]
    cl = [f.columns.values[j] for j in cps]
    if kind == 'series_rows':
        idx = (rl[1:][::-1] if partial and len(rl) > 1 else rl[::-1]) + ['q']
        vals = [500 + i for i in range(len(idx))]
        return sf.Series(vals, index=idx), f'(ARows {lit.vlist(idx)} {lit.vlist(vals)})'
    if kind == 'series_cols':
        idx = (cl[1:][::-1] if partial and len(cl) > 1 else cl[::-1]) + ['q']
        vals = [600 + i for i in range(len(idx))]
        return sf.Series(vals, index=idx), f'(ACols {lit.vlist(idx)} {lit.vlist(vals)})'
    if kind in ('frame', 'frame_norows', 'frame_nocols'):
        ridx = (rl[1:][::-1] if partial and len(rl) > 1 else rl[::-1]) + ['q']
        cidx = (cl[:-1][::-1] if partial and len(cl) > 1 else cl[::-1]) + ['k']
        if kind == 'frame_norows':
            ridx = ['q', 'p']
        if kind == 'frame_nocols':
            cidx = ['k']
        # hetero: the value's columns (= its blocks) differ in dtype and width, narrow first (1) or wide first (2): the
        # by-blocks walk must resolve the dtype of a target over ALL the value blocks it receives
        kinds = {0: ['i'], 1: ['i', 'f', 's1', 's5'], 2: ['s5', 's1', 'f', 'i']}[hetero]
        cols = [[hetero_cell(kinds[j % len(kinds)], j, i) for i in range(len(ridx))] for j in range(len(cidx))]
        fr = sf.Frame.from_fields(cols, index=ridx, columns=cidx)
        return fr, f'(AFrame {lit.vlist(ridx)} {lit.vlist(cidx)} {lit.lst([lit.vlist(c) for c in cols])})'
    raise ValueError(kind)


def container_aval(v):
    import static_frame as sf
    if isinstance(v, sf.Series):
        return lit.vlist(lit.labels(v.index)), lit.vlist(lit.array_vals(v.values))
    raise ValueError


def _labelled_case(ctx, f, oflit, pname, m, nrows, layout, vkind, rk, ck, rps, cps, form, fn, text, partial, fill, hetero=0):
    # the value is aligned to the target by label; rows in key order, columns in ascending order
    value, aval = labelled_value(vkind, f, rps, sorted(cps), partial, hetero)
    before = snapshot(f)
    out, err = call(lambda: fn()(value, fill_value=fill[0]))
    after = snapshot(f)
    tags = assign_tags(form, ck, rk, m, form == 'iloc' and ck.kind == 'mask')
    tags['value'] = vkind + (f'/hetero{hetero}' if hetero else '')
    # Frame values disjoint from the target on ONE axis were mis-assigned until fix 658b4ce (resize_blocks): regression cases
    ctx.count(f'assign:value={vkind}', f'assign:form={form}', 'outcome:' + ('ok' if err is None else lit.err_class(err)))
    sterm = f'S_frame_assign_ok {oflit} {rk.ocoq()} {ck.ocoq()} {aval} {fill[1]} {oframe_lit(out)}' if err is None else 'false'
    yield Case(f'api:frame.assign.{form}(labelled)',
               {'pool': pname, 'columns': m, 'rows': nrows, 'layout': zoo.layout_str(layout), 'call': text + '(value, fill_value=%r)' % (fill[0],),
                'value': repr(value.to_pairs() if hasattr(value, 'to_pairs') else value), 'row_key': rk.desc(), 'column_key': ck.desc(),
                'observed': 'raises ' + type(err).__name__ if err is not None else out.values.tolist()},
               s=sterm, py_fail=None if before == after else 'receiver changed by ' + text,
               tags=tags)


def assign_labelled_cases(ctx):
    import static_frame as sf
    nrows = 3
    rot = 0
    rkeys_multi = [NONE, ALL, K('list', [2, 0]), K('slice', (1, None, None)), K('mask', [True, False, True]), K('list', [1])]
    for pname, dts, layout in label_frames(ctx):
        m = len(dts)
        f = build_frame(dts, nrows, layout)
        oflit = oframe_lit(f)
        rlabels, clabels = list(f.index.values), list(f.columns.values)
        ckeys_multi = [ALL, K('list', list(range(m))[::-1]), K('list', [m - 1]), K('slice', (1, None, None)),
                       K('mask', [j % 2 == 0 for j in range(m)]), K('array', [0, m - 1])]
        plans = []
        for rk in rkeys_multi:
            for j in (0, m - 1):
                plans.append(('series_rows', rk, K('int', j)))
        for ck in ckeys_multi:
            for i in (0, -1):
                plans.append(('series_cols', K('int', i), ck))
        for rk in rkeys_multi:
            for ck in ckeys_multi[rot % 2::2]:
                plans.append(('frame', rk, ck))
        plans.append(('frame_norows', ALL, ALL))
        plans.append(('frame_nocols', ALL, ALL))
        plans.append(('frame_norows', K('list', [2, 0]), K('list', [m - 1, 0])))
        plans.append(('frame_nocols', K('list', [2, 0]), K('list', [m - 1, 0])))
        for vkind, rk, ck in plans:
            rps = rk.positions(nrows) if rk.kind != 'none' else list(range(nrows))
            cps = ck.positions(m) if ck.kind != 'none' else list(range(m))
            if not rps or not cps:
                continue
            for form in ('iloc', 'loc', 'getitem'):
                sel = form_call(f, 'assign', form, rk, ck, rlabels, clabels, reorder=(rot % 2 == 1))
                if sel is None:
                    continue
                rot += 1
                fn, text = sel
                # variants: (some target labels missing from the value, explicit fill_value) / (all present, default fill);
                # the thorough tier takes the full product
                variants = [(True, (-1, '(VInt (-1))')), (False, (np.nan, 'VNaN'))]
                if ctx.tier == 'thorough':
                    variants += [(True, (np.nan, 'VNaN')), (False, (-1, '(VInt (-1))'))]
                elif form != 'getitem' and vkind in ('series_rows', 'series_cols', 'frame'):
                    variants = variants[rot % 2:][:1]
                for partial, fill in variants:
                    # Frame values: blocks of different dtype / width, in both orders (homogeneous ones too in the thorough tier)
                    heteros = (0,) if vkind != 'frame' else ((1, 2) if ctx.tier == 'quick' else (0, 1, 2))
                    for hetero in heteros:
                        yield from _labelled_case(ctx, f, oflit, pname, m, nrows, layout, vkind, rk, ck, rps, cps, form, fn, text, partial, fill, hetero)
        # ---- apply: the function sees the selection, its result is assigned back aligned by label
        funcs = [('double', lambda x: x * 2), ('reversed', lambda x: x.iloc[::-1] if hasattr(x, 'iloc') else x),
                 ('tail', lambda x: x.iloc[1:] if hasattr(x, 'iloc') else x)]
        if pname != 'I':
            continue
        for rk, ck in [(K('int', 1), K('int', 0)), (ALL, K('int', m - 1)), (K('list', [2, 0]), K('int', 0)), (K('int', 0), ALL),
                       (K('int', -1), K('list', list(range(m))[::-1])), (ALL, ALL), (K('list', [2, 0]), K('list', [m - 1, 0])), (NONE, K('list', [0]))]:
            rps = rk.positions(nrows) if rk.kind != 'none' else list(range(nrows))
            cps = ck.positions(m) if ck.kind != 'none' else list(range(m))
            for form in ('iloc', 'loc', 'getitem'):
                sel = form_call(f, 'assign', form, rk, ck, rlabels, clabels)
                if sel is None:
                    continue
                fn, text = sel
                for fname, func in funcs:
                    # what the function returns for the selection (selection itself is property C04's business)
                    picked = f.iloc[rk.py() if rk.kind != 'none' else slice(None), ck.py() if ck.kind != 'none' else slice(None)]
                    value = func(picked)
                    if isinstance(value, sf.Series):
                        kind = 'ARows' if ck.kind == 'int' else 'ACols'
                        aval = f'({kind} {lit.vlist(lit.labels(value.index))} {lit.vlist(lit.array_vals(value.values))})'
                    elif isinstance(value, sf.Frame):
                        aval = (f'(AFrame {lit.vlist(lit.labels(value.index))} {lit.vlist(lit.labels(value.columns))} '
                                f'{lit.lst([lit.vlist(lit.array_vals(c)) for c in frame_columns(value)])})')
                    else:
                        aval = aval_elem(value)
                    before = snapshot(f)
                    out, err = call(lambda: fn().apply(func))
                    after = snapshot(f)
                    tags = assign_tags(form, ck, rk, m, False)
                    tags['value'] = 'apply:' + fname
                    ctx.count('assign:value=apply', f'assign:form={form}', 'outcome:' + ('ok' if err is None else lit.err_class(err)))
                    sterm = f'S_frame_assign_ok {oflit} {rk.ocoq()} {ck.ocoq()} {aval} VNaN {oframe_lit(out)}' if err is None else 'false'
                    yield Case(f'api:frame.assign.{form}.apply',
                               {'pool': pname, 'columns': m, 'rows': nrows, 'layout': zoo.layout_str(layout), 'call': text + f'.apply({fname})',
                                'row_key': rk.desc(), 'column_key': ck.desc(),
                                'observed': 'raises ' + type(err).__name__ if err is not None else out.values.tolist()},
                               s=sterm, py_fail=None if before == after else 'receiver changed by ' + text, tags=tags)


def assign_forms_cases(ctx):
    """unlabelled values through the loc / getitem forms (same positions as the iloc stratum, addressed by label)"""
    nrows = 3
    rot = 0
    for pname, dts, layout in label_frames(ctx, ms=(1, 3, 4)):
        m = len(dts)
        f = build_frame(dts, nrows, layout)
        oflit = oframe_lit(f)
        rlabels, clabels = list(f.index.values), list(f.columns.values)
        ckeys = [k for k in small_keys(m, 'quick', ctx.rng, slices=True) if not has_negative(k)]
        if ctx.tier == 'quick':
            ckeys = ckeys[::3]
        for ck in [NONE] + ckeys:
            rot += 1
            rk = ROW_KEYS[rot % len(ROW_KEYS)]
            if has_negative(rk):
                rk = ALL
            cps = ck.positions(m) if ck.kind != 'none' else list(range(m))
            rps = rk.positions(nrows) if rk.kind != 'none' else list(range(nrows))
            if cps is None or rps is None:
                continue
            for form in ('loc', 'getitem'):
                sel = form_call(f, 'assign', form, rk, ck, rlabels, clabels, reorder=(rot % 2 == 1))
                if sel is None:
                    continue
                fn, text = sel
                vals = list(unit_values(rk, ck, rps, sorted(cps), rot))
                for vname, value, aval, sliceable in vals[:2]:
                    if vname != 'element' and ck.kind in ('list', 'array') and sorted(cps) != cps:
                        continue
                    before = snapshot(f)
                    out, err = call(lambda: fn()(value))
                    after = snapshot(f)
                    tags = assign_tags(form, ck, rk, m, False)
                    tags['value'] = vname
                    ctx.count(f'assign:form={form}', f'assign:value={vname}', 'outcome:' + ('ok' if err is None else lit.err_class(err)))
                    sterm = f'S_frame_assign_ok {oflit} {rk.ocoq()} {ck.ocoq()} {aval} VNaN {oframe_lit(out)}' if err is None else 'false'
                    yield Case(f'api:frame.assign.{form}(unit)',
                               {'pool': pname, 'columns': m, 'rows': nrows, 'layout': zoo.layout_str(layout), 'call': text + '(value)',
                                'value': vname + ':' + repr(value if not isinstance(value, np.ndarray) else value.tolist()),
                                'row_key': rk.desc(), 'column_key': ck.desc(),
                                'observed': 'raises ' + type(err).__name__ if err is not None else out.values.tolist()},
                               s=sterm, py_fail=None if before == after else 'receiver changed by ' + text, tags=tags,
                               nontrivial=bool(cps) and bool(rps))


def assign_bloc_coordinate_cases(ctx):
    """assign.bloc[key](Series of (row label, column label) -> value) and assign.bloc[key].apply(func) over EVERY block
    layout, distinct value per cell (the by-coordinate walk must add the block's column offset)"""
    import static_frame as sf
    nrows = 3
    for pname, dts, layout, level in frame_universe(ctx):
        m = len(dts)
        if m == 0 or pname == 'S':
            continue
        f = build_frame(dts, nrows, layout)
        oflit = oframe_lit(f)
        rl, cl = list(f.index.values), list(f.columns.values)
        patterns = [[[(i + j) % 2 == 0 for i in range(nrows)] for j in range(m)],
                    [[True] * nrows for j in range(m)],
                    [[j == m - 1 and i != 1 for i in range(nrows)] for j in range(m)]]
        for mask in patterns:
            key = np.array(mask, dtype=bool).T.reshape(nrows, m)
            pairs = [((rl[i], cl[j]), 1000 + 10 * j + i) for j in range(m) for i in range(nrows) if mask[j][i]][::-1]
            sv = sf.Series([v for _, v in pairs], index=sf.Index([k for k, _ in pairs], dtype=object))
            smat = [[1000 + 10 * j + i for i in range(nrows)] for j in range(m)]
            func = (lambda x: x.iloc[::-1])
            cur = [[_cell(dts[j], i, j) for i in range(nrows)] for j in range(m)]
            for vname, run, vmat in [('series', lambda: f.assign.bloc[key.copy()](sv), smat),
                                     ('apply', lambda: f.assign.bloc[key.copy()].apply(func), cur)]:
                before = snapshot(f)
                out, err = call(run)
                after = snapshot(f)
                ctx.count('assign:bloc-coordinate=' + vname, 'outcome:' + ('ok' if err is None else lit.err_class(err)))
                klit = lit.lst([lit.lst([lit.b(x) for x in col]) for col in mask])
                vlit = lit.lst([lit.vlist(col) for col in vmat])
                sterm = f'S_frame_bloc_ok {oflit} {klit} {klit} {vlit} {oframe_lit(out)}' if err is None else 'false'
                yield Case('api:frame.assign.bloc(coordinate)',
                           {'pool': pname, 'columns': m, 'rows': nrows, 'layout': zoo.layout_str(layout),
                            'call': 'f.assign.bloc[key](coordinate Series)' if vname == 'series' else 'f.assign.bloc[key].apply(reverse)',
                            'key': np.array(mask).T.tolist(), 'observed': 'raises ' + type(err).__name__ if err is not None else out.values.tolist()},
                           s=sterm, py_fail=None if before == after else 'receiver changed by f.assign.bloc',
                           tags=bloc_tags(vname, 'array', layout, mask, bloc_outcome(f, out, err, layout, mask, mask, vmat)),
                           nontrivial=any(any(c) for c in mask))


F_BLOCBLOCK = 'C08-bloc-assign-coerces-whole-block'


def _same_cell(a, b):
    if a is None or b is None:
        return a is b
    try:
        if a != a and b != b:
            return True
    except Exception:  # noqa
        pass
    try:
        return bool(a == b) and (isinstance(a, (bool, np.bool_)) == isinstance(b, (bool, np.bool_)) or not isinstance(a, (bool, np.bool_, str)) )
    except Exception:  # noqa
        return False


def bloc_outcome(f, out, err, layout, kmask, emask, vmat):
    """KIND of the observed outcome of a bloc assignment, for the known-finding discriminator:
    'dtype'  = returned, labels and name kept, EVERY cell right (vmat where emask, the old cell elsewhere), and the only
               deviation is the recorded one: a column WITHOUT any True in the key changed dtype while sitting in a block
               that also holds an addressed column (whole-block cast);
    'ok'     = returned and nothing deviates;  'raises:<Class>';  'other' = anything else (wrong cells, labels, shape ...)"""
    if err is not None:
        return 'raises:' + type(err).__name__
    try:
        if list(out.index.values) != list(f.index.values) or list(out.columns.values) != list(f.columns.values) or out.name != f.name:
            return 'other'
        oc, fc = frame_columns(out), frame_columns(f)
        if len(oc) != len(fc):
            return 'other'
        nrows = len(f.index)
        for j in range(len(fc)):
            for i in range(nrows):
                want = vmat[j][i] if emask[j][i] else fc[j][i]
                got = oc[j][i]
                if not _same_cell(got.item() if hasattr(got, 'item') else got, want.item() if hasattr(want, 'item') else want):
                    return 'other'
        # blocks that are partly addressed by the key
        partly = set()
        pos = 0
        for w, _ in layout:
            hit = [any(kmask[j]) for j in range(pos, pos + w)]
            if any(hit) and not all(hit):
                partly.update(j for j in range(pos, pos + w) if not any(kmask[j]))
            pos += w
        changed = {j for j in range(len(fc)) if not any(kmask[j]) and oc[j].dtype != fc[j].dtype}
        if not changed:
            return 'ok'
        return 'dtype' if changed <= partly else 'other'
    except Exception:  # noqa
        return 'other'


def bloc_tags(vname, kname, layout, kmask, outcome=None):
    """the known finding 'whole block cast' is claimed only for its input class (the key addresses some but not all columns
    of one multi-column block) AND its recorded outcome kind (every cell right, only the dtype of unaddressed columns of
    such a block differs): any other failure on the same input stays a violation"""
    tags = {'op': 'assign', 'form': 'bloc', 'value': vname, 'key': kname}
    pos = 0
    in_class = False
    for w, _ in layout:
        hit = [any(kmask[j]) for j in range(pos, pos + w)]
        if any(hit) and not all(hit):
            in_class = True
        pos += w
    if outcome is not None:
        tags['outcome'] = outcome
    if in_class and outcome == 'dtype':
        tags['finding'] = F_BLOCBLOCK
    return tags


def assign_bloc_cases(ctx):
    import static_frame as sf
    nrows = 3
    rot = 0
    for pname, dts, layout in label_frames(ctx, ms=(1, 2, 4)):
        m = len(dts)
        f = build_frame(dts, nrows, layout)
        oflit = oframe_lit(f)
        rl, cl = list(f.index.values), list(f.columns.values)
        patterns = [[[(i + j) % 2 == 0 for i in range(nrows)] for j in range(m)],
                    [[j == m - 1 for i in range(nrows)] for j in range(m)],
                    [[i == 1 and j == 0 for i in range(nrows)] for j in range(m)],
                    [[False] * nrows for j in range(m)],
                    [[True] * nrows for j in range(m)]]
        for mask in patterns:          # mask[j][i]
            karr = np.array(mask, dtype=bool).T.reshape(nrows, m)
            keys = [('array', karr, mask)]
            # a Boolean Frame key with reordered, partially overlapping labels: missing labels count as False
            kr, kc = rl[::-1][:-1] + ['q'], cl[::-1] + ['k']
            kf = sf.Frame.from_fields([[(mask[cl.index(c)][rl.index(r)] if c in cl and r in rl else True) for r in kr] for c in kc], index=kr, columns=kc)
            eff = [[(mask[j][i] if rl[i] in kr else False) for i in range(nrows)] for j in range(m)]
            keys.append(('frame', kf, eff))
            for kname, key, eff_mask in keys:
                full = np.arange(nrows * m, dtype=np.int64).reshape(nrows, m) + 900
                values = [('element', ELEMS[rot % len(ELEMS)], [[ELEMS[rot % len(ELEMS)]] * nrows for _ in range(m)], eff_mask),
                          ('array', full, [[int(full[i, j]) for i in range(nrows)] for j in range(m)], eff_mask)]
                # a Frame value with partially overlapping labels: cells it does not hold stay as they are
                vr, vc = rl[1:][::-1] + ['q'], cl[::-1][:max(1, m - 1)] + ['k']
                vf = sf.Frame.from_fields([[800 + 10 * jj + ii for ii in range(len(vr))] for jj in range(len(vc))], index=vr, columns=vc)
                vmat = [[(int(vf.loc[rl[i], cl[j]]) if (rl[i] in vr and cl[j] in vc) else None) for i in range(nrows)] for j in range(m)]
                vmask = [[eff_mask[j][i] and vmat[j][i] is not None for i in range(nrows)] for j in range(m)]
                values.append(('frame', vf, vmat, vmask))
                # a Series as returned by a bloc selection: (row label, column label) -> value, any order
                pairs = [((rl[i], cl[j]), 1000 + 10 * j + i) for j in range(m) for i in range(nrows) if eff_mask[j][i]][::-1]
                if pairs:
                    sv = sf.Series([v for _, v in pairs], index=sf.Index([k for k, _ in pairs], dtype=object))
                    smat = [[1000 + 10 * j + i for i in range(nrows)] for j in range(m)]
                    values.append(('series', sv, smat, eff_mask))
                for vname, value, vmat_, emask in values:
                    rot += 1
                    before = snapshot(f)
                    key_arg = key.copy() if isinstance(key, np.ndarray) else key    # a writeable array key is modified in place by the Frame-value path
                    out, err = call(lambda: f.assign.bloc[key_arg](value))
                    after = snapshot(f)
                    ctx.count(f'assign:bloc-key={kname}', f'assign:value={vname}', 'outcome:' + ('ok' if err is None else lit.err_class(err)))
                    klit = lit.lst([lit.lst([lit.b(x) for x in col]) for col in eff_mask])
                    mlit = lit.lst([lit.lst([lit.b(x) for x in col]) for col in emask])
                    vlit = lit.lst([lit.vlist(col) for col in vmat_])
                    sterm = f'S_frame_bloc_ok {oflit} {klit} {mlit} {vlit} {oframe_lit(out)}' if err is None else 'false'
                    # element / array values: the model of _assign_from_bloc_by_unit (result columns, dtypes, layout)
                    mterm = (f'res_same ofl_same (M_frame_bloc_unit {mframe_lit(f)} {klit} {vlit} {vdt_lit(value)} {RESOLVE}) {res_lit(out, err, ofl_lit)}'
                             if vname in ('element', 'array') else None)
                    yield Case('api:frame.assign.bloc',
                               {'pool': pname, 'columns': m, 'rows': nrows, 'layout': zoo.layout_str(layout), 'call': f'f.assign.bloc[{kname} key](value)',
                                'key': np.array(mask).T.tolist(), 'value': vname,
                                'observed': 'raises ' + type(err).__name__ if err is not None else out.values.tolist()},
                               m=mterm, s=sterm, py_fail=None if before == after else 'receiver changed by f.assign.bloc',
                               tags=bloc_tags(vname, kname, layout, eff_mask, bloc_outcome(f, out, err, layout, eff_mask, emask, vmat_)),
                               nontrivial=any(any(c) for c in emask))


# ---------------------------------------------------------------------------------------------- drop / mask: label forms
def drop_mask_forms_cases(ctx):
    nrows = 3
    rot = 0
    for pname, dts, layout in label_frames(ctx, ms=(1, 3, 4)):
        m = len(dts)
        f = build_frame(dts, nrows, layout)
        oflit = oframe_lit(f)
        rlabels, clabels = list(f.index.values), list(f.columns.values)
        ckeys = [k for k in small_keys(m, 'quick', ctx.rng, slices=True) if not has_negative(k)]
        if ctx.tier == 'quick':
            ckeys = ckeys[1::3]
        for ck in [NONE] + ckeys:
            rot += 1
            rk = ROW_KEYS[rot % len(ROW_KEYS)]
            if has_negative(rk):
                rk = K('list', [2, 0])
            for op in ('drop', 'mask'):
                for form in ('loc', 'getitem'):
                    sel = form_call(f, op, form, rk, ck, rlabels, clabels, reorder=(rot % 2 == 1))
                    if sel is None or (op == 'mask' and rk.kind == 'none' and ck.kind == 'none'):
                        continue
                    fn, text = sel
                    before = snapshot(f)
                    out, err = call(fn)
                    after = snapshot(f)
                    tags = {'op': op, 'form': form, 'ckind': ck.kind, 'rkind': rk.kind}
                    tags.update(classify(op, ck, rk, m, nrows))
                    ctx.count(f'{op}:form={form}', 'outcome:' + ('ok' if err is None else lit.err_class(err)))
                    obs = res_lit(out, err, oframe_lit)
                    if op == 'drop':
                        sterm = f'res_agree oframe_eqb (S_frame_drop {oflit} {rk.ocoq()} {ck.ocoq()}) {obs}'
                    else:
                        sterm = f'res_agree oframe_eqb_noname (S_frame_mask {oflit} {rk.ocoq()} {ck.ocoq()}) {obs}'
                    yield Case(f'api:frame.{op}.{form}',
                               {'pool': pname, 'columns': m, 'rows': nrows, 'layout': zoo.layout_str(layout), 'call': text,
                                'row_key': rk.desc(), 'column_key': ck.desc(),
                                'observed': 'raises ' + type(err).__name__ if err is not None else [lit.labels(out.index), lit.labels(out.columns), out.values.tolist() if out.size else []]},
                               s=sterm, py_fail=None if before == after else 'receiver changed by ' + text, tags=tags)


# ---------------------------------------------------------------------------------------------- astype
F_ASTYPEBOOL = 'C08-astype-boolean-key'
ASTYPE_TARGETS = [np.dtype('float64'), np.dtype(object), np.dtype('int64')]


def astype_ok(src, dst):
    """conversions inside the cell-conversion oracle conv_val"""
    if dst == OB:
        return True
    if dst == F8:
        return src in (I8, F8, B1)
    if dst == I8:
        return src in (I8, B1)
    return False


def astype_cases(ctx):
    nrows = 3
    for pname, dts, layout, level in frame_universe(ctx, extra_pools=('F',)):
        m = len(dts)
        if ctx.tier == 'quick' and (pname == 'S' or (pname == 'F' and all(w == 1 for w, _ in layout))):
            continue
        f = build_frame(dts, nrows, layout)
        flit, oflit = mframe_lit(f), oframe_lit(f)
        clabels = list(f.columns.values)
        rot = 0
        for ck, _ in key_plan(ctx, m, 'masks' if level == 'masks' else 'mid'):
            if ck.kind == 'none' or has_negative(ck):
                continue
            if level == 'masks' and ck.kind == 'mask':
                ck = K('list', [j for j, x in enumerate(ck.v) if x])     # every subset of the columns, as a list key
            cps = ck.positions(m)
            key = loc_key(ck, clabels)
            if cps is None or (key is None and ck.kind == 'slice'):
                continue
            rot += 1
            ok_targets = [d for d in ASTYPE_TARGETS if all(astype_ok(dts[j], d) for j in cps)]
            if not (pname == 'F' or level != 'masks' or ctx.tier == 'thorough'):
                ok_targets = [ok_targets[rot % len(ok_targets)]]
            for dst, consolidate in [(d, c) for d in ok_targets for c in ((False, True) if rot % 4 == 0 else (False,))]:
                before = snapshot(f)
                out, err = call(lambda: f.astype[key](dst, consolidate_blocks=consolidate))
                after = snapshot(f)
                tags = {'op': 'astype', 'form': 'getitem', 'ckind': ck.kind}
                if ck.kind == 'mask' and sum(ck.v) != 1:
                    tags['finding'] = F_ASTYPEBOOL
                elif m == 0:
                    tags['finding'] = F_ZERO
                ctx.count(f'astype:ck={ck.kind}', f'astype:to={dst}', 'outcome:' + ('ok' if err is None else lit.err_class(err)))
                obs = res_lit(out, err, ofl_lit)
                # the Boolean-key ValueError is raised in FrameAsType.__call__, above the block walk that M models
                mterm = f'res_same ofl_eqb (M_frame_astype {flit} {ck.coq()} {lit.dtype(dst)}) {obs}' if not consolidate and tags.get('finding') != F_ASTYPEBOOL else None
                sterm = f'res_agree of_eqb_ofl (S_frame_astype {oflit} {ck.coq()} {lit.dtype(dst)}) {obs}'
                yield Case('api:frame.astype[key]',
                           {'pool': pname, 'columns': m, 'layout': zoo.layout_str(layout), 'call': f'f.astype[{key!r}]({dst}, consolidate_blocks={consolidate})',
                            'column_key': ck.desc(),
                            'observed': 'raises ' + type(err).__name__ if err is not None else [str(d) for d in (a.dtype for a in frame_columns(out))]},
                           m=mterm, s=sterm, py_fail=None if before == after else 'receiver changed by astype', tags=tags,
                           nontrivial=bool(cps))
        # whole frame: one dtype, and a mapping label -> dtype (only those labels change)
        if m == 0 or level == 'masks':
            continue
        for spec_name, spec, cps, dst in ([('object', OB, list(range(m)), OB)] +
                                          [('mapping', {clabels[j]: OB}, [j], OB) for j in (0, m - 1)]):
            before = snapshot(f)
            out, err = call(lambda: f.astype(spec))
            after = snapshot(f)
            ck = K('list', cps)
            obs = res_lit(out, err, ofl_lit)
            ctx.count('astype:whole-' + spec_name)
            yield Case('api:frame.astype(dtypes)',
                       {'pool': pname, 'columns': m, 'layout': zoo.layout_str(layout), 'call': f'f.astype({spec!r})',
                        'observed': 'raises ' + type(err).__name__ if err is not None else [str(d) for d in (a.dtype for a in frame_columns(out))]},
                       s=f'res_agree of_eqb_ofl (S_frame_astype {oflit} {ck.coq()} {lit.dtype(dst)}) {obs}',
                       py_fail=None if before == after else 'receiver changed by astype', tags={'op': 'astype', 'form': 'call'})


# ---------------------------------------------------------------------------------------------- insert / relabel / rename
def tb_lit(fr):
    return f'(build_tb {layout_lit(zoo.layout_of(fr))} {cols_lit(fr)})'


def aligned_cells(container_col, container_index, target_index, fill):
    lookup = dict(zip(container_index, container_col))
    return [lookup.get(l, fill) for l in target_index]


def insert_cases(ctx):
    import static_frame as sf
    nrows = 3
    rot = 0
    for pname, dts, layout in label_frames(ctx, ms=(1, 2, 4)):
        m = len(dts)
        f = build_frame(dts, nrows, layout)
        flit, oflit = mframe_lit(f), oframe_lit(f)
        rl, cl = list(f.index.values), list(f.columns.values)
        containers = []
        s_same = sf.Series([1.5, 2.5, 3.5], index=rl, name='n1')
        s_part = sf.Series([7, 8, 9], index=[rl[2], 'q', rl[0]], name='n2')
        containers += [('series', s_same, True), ('series-partial', s_part, False)]
        for lay2 in few_layouts((I8, I8, F8))[:2 if ctx.tier == 'quick' else 3]:
            fr = zoo.frame_from_columns([column(I8, 4, nrows), column(I8, 5, nrows), column(F8, 6, nrows)], lay2, index=sf.Index(rl), columns=sf.Index(['u', 'v', 'w']))
            containers.append(('frame:' + zoo.layout_str(lay2), fr, True))
        fr_part = sf.Frame.from_fields([[70, 71, 72], [80, 81, 82]], index=[rl[1], 'q', rl[0]], columns=['u', 'v'])
        containers.append(('frame-partial', fr_part, False))
        for pos in range(m):
            for after_ in (False, True):
                for cname, cont, same_index in containers:
                    rot += 1
                    if ctx.tier == 'quick' and rot % 2 and not same_index:
                        continue
                    key = pos + (1 if after_ else 0)
                    meth = 'insert_after' if after_ else 'insert_before'
                    before = snapshot(f)
                    out, err = call(lambda: getattr(f, meth)(cl[pos], cont, fill_value=-1))
                    after = snapshot(f)
                    if isinstance(cont, sf.Series):
                        labels = [cont.name]
                        cols = [aligned_cells(lit.array_vals(cont.values), list(cont.index.values), rl, -1)]
                        ins_tb = f'[mk_block {lit.dtype(cont.dtype)} true [{lit.vlist(lit.array_vals(cont.values))}]]'
                    else:
                        labels = list(cont.columns.values)
                        cols = [aligned_cells(lit.array_vals(c), list(cont.index.values), rl, -1) for c in frame_columns(cont)]
                        ins_tb = tb_lit(cont)
                    ctx.count(f'insert:{meth}', f'insert:container={cname.split(":")[0]}', 'outcome:' + ('ok' if err is None else lit.err_class(err)))
                    obs = res_lit(out, err, ofl_lit)
                    mterm = f'res_same ofl_eqb (M_frame_insert {flit} {lit.z(key)} {lit.vlist(labels)} {ins_tb}) {obs}' if same_index else None
                    sterm = (f'S_frame_insert_ok {oflit} {lit.z(key)} {lit.vlist(labels)} {lit.lst([lit.vlist(c) for c in cols])} {oframe_lit(out)}'
                             if err is None else 'false')
                    yield Case(f'api:frame.{meth}',
                               {'pool': pname, 'columns': m, 'layout': zoo.layout_str(layout), 'call': f'f.{meth}({cl[pos]!r}, {cname}, fill_value=-1)',
                                'observed': 'raises ' + type(err).__name__ if err is not None else [lit.labels(out.columns), out.values.tolist()]},
                               m=mterm, s=sterm, py_fail=None if before == after else f'receiver changed by {meth}',
                               tags={'op': meth, 'container': cname.split(':')[0]})


def names_of(obj):
    import static_frame as sf
    if isinstance(obj, sf.Series):
        return (obj.name, obj.index.name)
    return (obj.name, obj.index.name, obj.columns.name)


def relabel_rename_cases(ctx):
    import static_frame as sf
    nrows = 3
    for pname, dts, layout in label_frames(ctx, ms=(2, 4)):
        m = len(dts)
        f = build_frame(dts, nrows, layout)
        f = f.rename(index='in', columns='cn')
        oflit = oframe_lit(f)
        rl, cl = list(f.index.values), list(f.columns.values)
        relabels = [('index-mapping', dict(index={rl[0]: 'X', rl[2]: 'Z'}), [{rl[0]: 'X', rl[2]: 'Z'}.get(l, l) for l in rl], cl),
                    ('columns-mapping', dict(columns={cl[-1]: 'LAST'}), rl, [{cl[-1]: 'LAST'}.get(l, l) for l in cl]),
                    ('both-callable', dict(index=lambda l: l + l, columns=lambda l: l.upper()), [l + l for l in rl], [l.upper() for l in cl]),
                    ('index-auto', dict(index=sf.IndexAutoFactory), list(range(nrows)), cl),
                    ('columns-auto', dict(columns=sf.IndexAutoFactory), rl, list(range(m)))]
        for rname, kwargs, new_rl, new_cl in relabels:
            before = snapshot(f)
            out, err = call(lambda: f.relabel(**kwargs))
            after = snapshot(f)
            want = f'(mk_oframe {lit.vlist(new_rl)} {lit.vlist(new_cl)} {cols_lit(f)} {lit.val(f.name)})'
            ctx.count('relabel:' + rname)
            py_fail = None if before == after else 'receiver changed by relabel'
            if err is None and py_fail is None and zoo.layout_of(out) != zoo.layout_of(f):
                py_fail = 'relabel changed the block layout'
            yield Case('api:frame.relabel', {'pool': pname, 'columns': m, 'layout': zoo.layout_str(layout), 'call': f'f.relabel({rname})',
                                             'observed': 'raises ' + type(err).__name__ if err is not None else [lit.labels(out.index), lit.labels(out.columns)]},
                       s=f'res_agree oframe_eqb (Ok {want}) {res_lit(out, err, oframe_lit)}', py_fail=py_fail, tags={'op': 'relabel'})
        renames = [('name', ('N2',), {}, ('N2', 'in', 'cn')), ('index', (), dict(index='I2'), ('nm', 'I2', 'cn')),
                   ('columns', (), dict(columns='C2'), ('nm', 'in', 'C2')), ('all', ('N3',), dict(index='I3', columns='C3'), ('N3', 'I3', 'C3')),
                   ('none-name', (None,), {}, (None, 'in', 'cn'))]
        for rname, args, kwargs, want_names in renames:
            before = snapshot(f)
            out, err = call(lambda: f.rename(*args, **kwargs))
            after = snapshot(f)
            want = f'(mk_oframe {lit.vlist(rl)} {lit.vlist(cl)} {cols_lit(f)} {lit.val(want_names[0])})'
            py_fail = None if before == after else 'receiver changed by rename'
            if err is None and py_fail is None and names_of(out) != want_names:
                py_fail = f'rename({rname}) gives names {names_of(out)}, expected {want_names}'
            ctx.count('rename:' + rname)
            yield Case('api:frame.rename', {'pool': pname, 'columns': m, 'layout': zoo.layout_str(layout), 'call': f'f.rename({rname})',
                                            'observed': 'raises ' + type(err).__name__ if err is not None else list(names_of(out))},
                       s=f'res_agree oframe_eqb (Ok {want}) {res_lit(out, err, oframe_lit)}', py_fail=py_fail, tags={'op': 'rename'})
    # Series
    for dt in (I8, F8, U2, OB):
        sr = sf.Series(column(dt, 1, 4), index=sf.Index(ROW_LABELS[:4], name='in'), name='sn')
        lab = list(sr.index.values)
        for rname, arg, new_l in [('mapping', {lab[1]: 'Y2'}, [{lab[1]: 'Y2'}.get(l, l) for l in lab]), ('callable', lambda l: l * 2, [l * 2 for l in lab]),
                                  ('auto', sf.IndexAutoFactory, list(range(4)))]:
            before = snapshot(sr)
            out, err = call(lambda: sr.relabel(arg))
            after = snapshot(sr)
            want = f'(mk_oseries {lit.vlist(new_l)} {lit.vlist(lit.array_vals(sr.values))} {lit.dtype(sr.dtype)} {lit.val(sr.name)})'
            ctx.count('relabel:series-' + rname)
            yield Case('api:series.relabel', {'dtype': str(dt), 'call': f's.relabel({rname})', 'observed': 'raises ' + type(err).__name__ if err is not None else lit.labels(out.index)},
                       s=f'res_agree oseries_eqb (Ok {want}) {res_lit(out, err, lit.oseries)}',
                       py_fail=None if before == after else 'receiver changed by relabel', tags={'op': 'relabel', 'container': 'series'})
        for rname, args, kwargs, want_names in [('name', ('N2',), {}, ('N2', 'in')), ('index', (), dict(index='I2'), ('sn', 'I2')), ('both', ('N3',), dict(index='I3'), ('N3', 'I3'))]:
            before = snapshot(sr)
            out, err = call(lambda: sr.rename(*args, **kwargs))
            after = snapshot(sr)
            want = f'(mk_oseries {lit.vlist(lab)} {lit.vlist(lit.array_vals(sr.values))} {lit.dtype(sr.dtype)} {lit.val(want_names[0])})'
            py_fail = None if before == after else 'receiver changed by rename'
            if err is None and py_fail is None and names_of(out) != want_names:
                py_fail = f'rename gives names {names_of(out)}, expected {want_names}'
            ctx.count('rename:series-' + rname)
            yield Case('api:series.rename', {'dtype': str(dt), 'call': f's.rename({rname})', 'observed': 'raises ' + type(err).__name__ if err is not None else list(names_of(out))},
                       s=f'res_agree oseries_eqb (Ok {want}) {res_lit(out, err, lit.oseries)}', py_fail=py_fail, tags={'op': 'rename', 'container': 'series'})


# ---------------------------------------------------------------------------------------------- Series
def series_keys(n, ctx, full_cube=False):
    if ctx.tier == 'thorough' and full_cube:
        vals = [None] + list(range(-6, 7))
        out = [K('slice', (a, b, c)) for a, b, c in itertools.product(vals, vals, (None, 1, 2, 3, -1, -2, -3))]
    else:
        out = list(slice_grid(n, 3 if ctx.tier == 'quick' else 6))
    out += [ALL] + [K('int', i) for i in range(-n, n)]
    seqs = [p for r in range(0, n + 1) for p in itertools.permutations(range(n), r)]
    if len(seqs) > 24:
        seqs = seqs[:8] + ctx.rng.sample(seqs[8:], 16)
    out += [K('list', list(p)) for p in seqs]
    out += [K('array', [x - n if i % 2 else x for i, x in enumerate(p)]) for p in seqs[2::3]]
    out += [K('mask', list(mk)) for mk in itertools.product((False, True), repeat=n)]
    return out


def series_cases(ctx):
    import static_frame as sf
    rot = 0
    for n in range(0, 5):
        for dt in (((I8, U2) if n == 4 else (I8,)) if ctx.tier == 'quick' else (I8, F8, U2, OB, B1)):
            sr = sf.Series(column(dt, 2, n), index=sf.Index(ROW_LABELS[:n]), name='sn')
            slit = lit.oseries(sr)
            labels = list(sr.index.values)
            for k in series_keys(n, ctx, full_cube=(dt == I8)):
                ps = k.positions(n)
                if ps is None:
                    continue
                rot += 1
                forms = [('iloc', lambda obj, kk=k: obj.iloc[kk.py()])]
                lk = loc_key(k, labels, reorder=(rot % 2 == 1)) if not has_negative(k) else None
                if lk is not None or k.kind == 'all':
                    forms.append(('loc', lambda obj, lk=lk: obj.loc[lk]))
                    forms.append(('getitem', lambda obj, lk=lk: obj[lk]))
                if ctx.tier == 'quick':
                    forms = forms[rot % len(forms):][:1]
                for form, sel in forms:
                    ops = [('drop', None, None), ('mask', None, None)]
                    e = ELEMS[rot % len(ELEMS)]
                    ops.append(('assign', ('element', e), aval_elem(e)))
                    if k.kind != 'int' and ps:
                        arr = np.arange(len(ps), dtype=np.int64) + 300
                        ops.append(('assign', ('array', arr), '(AMat ' + lit.lst([lit.vlist(arr.tolist())]) + ')'))
                        idx = [labels[i] for i in ps][1:][::-1] + ['q']
                        sv = sf.Series([400 + i for i in range(len(idx))], index=idx)
                        ops.append(('assign', ('series', sv), f'(ARows {lit.vlist(idx)} {lit.vlist(lit.array_vals(sv.values))})'))
                        ops.append(('assign', ('apply', None), None))
                    for op, val, aval in (ops if ctx.tier == 'thorough' and (k.kind != 'slice' or form == 'iloc') else [ops[0], ops[1], ops[2 + rot % (len(ops) - 2)]]):
                        before = snapshot(sr)
                        if op in ('drop', 'mask'):
                            out, err = call(lambda: sel(getattr(sr, op)))
                        elif val[0] == 'apply':
                            func = lambda x: x * 2 if dt in (I8, F8) else x
                            picked = sr.iloc[k.py()]
                            aval = f'(ARows {lit.vlist(lit.labels(picked.index))} {lit.vlist(lit.array_vals(func(picked).values))})'
                            out, err = call(lambda: sel(sr.assign).apply(func))
                        elif val[0] == 'series':
                            out, err = call(lambda: sel(sr.assign)(val[1], fill_value=-1))
                        else:
                            out, err = call(lambda: sel(sr.assign)(val[1]))
                        after = snapshot(sr)
                        ctx.count(f'series.{op}:k={k.kind}', f'series.{op}:form={form}', 'outcome:' + ('ok' if err is None else lit.err_class(err)))
                        obs = res_lit(out, err, lit.oseries)
                        if op == 'drop':
                            sterm = f'res_agree oseries_eqb (S_series_drop {slit} (Some {k.coq()})) {obs}'
                        elif op == 'mask':
                            sterm = f'res_agree oseries_eqb_noname (S_series_mask {slit} {k.coq()}) {obs}'
                        else:
                            fill = '(VInt (-1))' if val[0] == 'series' else 'VNaN'
                            sterm = f'S_series_assign_ok {slit} {k.coq()} {aval} {fill} {lit.oseries(out)}' if err is None else 'false'
                        yield Case(f'api:series.{op}.{form}',
                                   {'dtype': str(dt), 'length': n, 'call': f's.{op}.{form}[key]' + ('' if val is None else f'({val[0]})'), 'key': k.desc(),
                                    'observed': 'raises ' + type(err).__name__ if err is not None else [lit.labels(out.index), out.values.tolist()]},
                                   s=sterm, py_fail=None if before == after else f'receiver changed by s.{op}',
                                   tags={'op': op, 'form': form, 'container': 'series', 'kind': k.kind}, nontrivial=bool(ps))
            # astype, insert
            if n == 0:
                continue
            for dst in ASTYPE_TARGETS:
                if not astype_ok(dt, dst):
                    continue
                before = snapshot(sr)
                out, err = call(lambda: sr.astype(dst))
                after = snapshot(sr)
                want = f'(mk_oseries {lit.vlist(labels)} (map (conv_val {lit.dtype(dst)}) {lit.vlist(lit.array_vals(sr.values))}) {lit.dtype(dst)} {lit.val(sr.name)})'
                ctx.count('series.astype')
                yield Case('api:series.astype', {'dtype': str(dt), 'length': n, 'call': f's.astype({dst})', 'observed': 'raises ' + type(err).__name__ if err is not None else str(out.dtype)},
                           s=f'res_agree oseries_eqb (Ok {want}) {res_lit(out, err, lit.oseries)}',
                           py_fail=None if before == after else 'receiver changed by s.astype', tags={'op': 'astype', 'container': 'series'})
            ins = sf.Series([91, 92], index=['i1', 'i2'])
            for pos in range(n):
                for meth, key in (('insert_before', pos), ('insert_after', pos + 1)):
                    before = snapshot(sr)
                    out, err = call(lambda: getattr(sr, meth)(labels[pos], ins))
                    after = snapshot(sr)
                    ctx.count('series.' + meth)
                    sterm = f'S_series_insert_ok {slit} {lit.z(key)} {lit.vlist(["i1", "i2"])} {lit.vlist([91, 92])} {lit.oseries(out)}' if err is None else 'false'
                    yield Case(f'api:series.{meth}', {'dtype': str(dt), 'length': n, 'call': f's.{meth}({labels[pos]!r}, Series)',
                                                       'observed': 'raises ' + type(err).__name__ if err is not None else [lit.labels(out.index), out.values.tolist()]},
                               s=sterm, py_fail=None if before == after else f'receiver changed by s.{meth}', tags={'op': meth, 'container': 'series'})


# ---------------------------------------------------------------------------------------------- new container: identity / aliasing
def go_alias_cases(ctx):
    """every functional-update interface on a grow-only receiver (FrameGO) and on a static Frame, including the
    'nothing to do' shortcuts (empty key, drop of nothing, astype of no column, identity relabel, same name, insertion of an
    empty Series / of a Frame without columns): the result must be a NEW container -- not the receiver, no shared
    _blocks / _columns object when the receiver can grow -- its content must equal what the static Frame gives (which the
    other strata check against S), and growing the result in place must leave the receiver as it was (and vice versa)"""
    import static_frame as sf
    nrows = 3
    for pname, dts, layout in label_frames(ctx, ms=(1, 3)):
        m = len(dts)
        rl, cl = list(ROW_LABELS[:nrows]), list(COL_LABELS[:m])
        empty_series = sf.Series((), index=(), name='e')
        full_series = sf.Series([1.5, 2.5, 3.5], index=rl, name='n1')
        no_cols = sf.Frame(index=sf.Index(rl))                       # rows, zero columns
        one_col = sf.Frame.from_fields([[7, 8, 9]], index=rl, columns=['u'])
        none_mask = np.zeros(m, dtype=bool)
        bkey = np.zeros((nrows, m), dtype=bool)
        bkey1 = bkey.copy(); bkey1[0, 0] = True
        ops = [
            ('assign.iloc[0,0](9)', lambda f: f.assign.iloc[0, 0](9)),
            ('assign[[]](9)', lambda f: f.assign[[]](9)),
            ('assign.iloc[[], :](9)', lambda f: f.assign.iloc[[], :](9)),
            ('assign.loc[:, none](9)', lambda f: f.assign.loc[:, none_mask](9)),
            ('assign.bloc[none](9)', lambda f: f.assign.bloc[bkey.copy()](9)),
            ('assign.bloc[one](9)', lambda f: f.assign.bloc[bkey1.copy()](9)),
            ('assign[a].apply(id)', lambda f: f.assign[cl[0]].apply(lambda x: x)),
            ('drop[a]', lambda f: f.drop[cl[0]]),
            ('drop[[]]', lambda f: f.drop[[]]),
            ('drop.iloc[[]]', lambda f: f.drop.iloc[[]]),
            ('drop.loc[none rows]', lambda f: f.drop.loc[np.zeros(nrows, dtype=bool)]),
            ('mask[a]', lambda f: f.mask[cl[0]]),
            ('mask[[]]', lambda f: f.mask[[]]),
            ('astype[a](object)', lambda f: f.astype[cl[0]](object)),
            ('astype[[]](float)', lambda f: f.astype[[]](float)),
            ('astype[a](same dtype)', lambda f: f.astype[cl[0]](f._blocks._dtypes[0])),
            ('astype({})', lambda f: f.astype({})),
            ('relabel(identity)', lambda f: f.relabel(index=lambda l: l, columns=lambda l: l)),
            ('relabel(index mapping {})', lambda f: f.relabel(index={})),
            ('relabel(columns)', lambda f: f.relabel(columns=lambda l: l + l)),
            ('rename(same)', lambda f: f.rename(f.name)),
            ('rename()', lambda f: f.rename()),
            ('rename(new)', lambda f: f.rename('other')),
            ('insert_before(a, Series)', lambda f: f.insert_before(cl[0], full_series)),
            ('insert_after(last, Frame)', lambda f: f.insert_after(cl[-1], one_col)),
            ('insert_before(a, empty Series)', lambda f: f.insert_before(cl[0], empty_series)),
            ('insert_after(a, empty Series)', lambda f: f.insert_after(cl[0], empty_series)),
            ('insert_before(a, Frame without columns)', lambda f: f.insert_before(cl[0], no_cols)),
            ('insert_after(last, Frame without columns)', lambda f: f.insert_after(cl[-1], no_cols)),
        ]
        for oname, op in ops:
            static = build_frame(dts, nrows, layout)
            want, werr = call(lambda: op(static))
            for cls_name in ('FrameGO', 'Frame', 'FrameHE'):
                f = build_frame(dts, nrows, layout, cls=getattr(sf, cls_name))
                before = snapshot(f)
                out, err = call(lambda: op(f))
                problems = []
                if (err is None) != (werr is None):
                    problems.append(f'{cls_name} receiver: {"raises " + type(err).__name__ if err else "returns"}, static Frame: {"raises " + type(werr).__name__ if werr else "returns"}')
                elif err is None:
                    if snapshot(out)[1] != snapshot(want)[1]:
                        problems.append(f'content differs from what the static Frame receiver gives')
                    if cls_name == 'FrameGO':
                        if out is f:
                            problems.append('the receiver itself is returned (not a new container)')
                        if out._blocks is f._blocks or out._columns is f._columns:
                            problems.append('result shares its _blocks / _columns object with the receiver')
                        if out.__class__ is not f.__class__:
                            problems.append(f'result class {out.__class__.__name__}')
                        # grow the result in place: the receiver must not notice
                        if isinstance(out, sf.FrameGO):
                            out_before = snapshot(out)
                            out['__grown__'] = np.arange(len(out.index))
                            if snapshot(f) != before:
                                problems.append('growing the RESULT in place changed the receiver')
                            f2 = build_frame(dts, nrows, layout, cls=sf.FrameGO)
                            out2 = op(f2)
                            out2_before = snapshot(out2)
                            f2['__grown__'] = np.arange(nrows)
                            if snapshot(out2) != out2_before:
                                problems.append('growing the RECEIVER in place changed the result')
                    elif snapshot(f) != before:
                        problems.append('receiver changed')
                if err is None and cls_name == 'Frame' and snapshot(f) != before:
                    problems.append('receiver changed')
                ctx.count(f'alias:{cls_name}', 'outcome:' + ('ok' if err is None else lit.err_class(err)))
                yield Case(f'api:{cls_name.lower()}.new-container',
                           {'receiver': cls_name, 'pool': pname, 'columns': m, 'layout': zoo.layout_str(layout), 'call': 'f.' + oname,
                            'observed': 'raises ' + type(err).__name__ if err is not None else [lit.labels(out.columns), list(out.shape)]},
                           py_fail='; '.join(problems) or None, tags={'op': oname.split('(')[0].split('[')[0], 'receiver': cls_name, 'alias': True},
                           nontrivial=cls_name == 'FrameGO')


# ---------------------------------------------------------------------------------------------- extension round: routes
F_BLOCKEY = 'C08-bloc-frame-value-clears-callers-key'
F_IHASTYPE = 'C08-index-hierarchy-astype-drops-name'
U1, S2_, DTD, TDD = np.dtype('uint8'), np.dtype('S2'), np.dtype('datetime64[D]'), np.dtype('timedelta64[D]')


def relate(labels, relation):
    """labels of a value relative to the target's: same / reordered / partial (same length, one foreign) / smaller / larger"""
    labels = list(labels)
    if relation == 'same':
        return labels
    if relation == 'reordered':
        return labels[::-1]
    if relation == 'partial':
        return (['q'] + labels[1:])[::-1] if len(labels) > 1 else ['q']
    if relation == 'smaller':
        return labels[1:][::-1] if len(labels) > 1 else labels
    if relation == 'larger':
        return ['p'] + labels[::-1] + ['q']
    raise ValueError(relation)


RELATIONS = ('same', 'reordered', 'partial', 'smaller', 'larger')


def value_frame(ridx, cidx, layout_pick):
    """an int64 Frame with the given labels whose columns sit in blocks chosen by layout_pick (0: all 1-D, 1: one 2-D block,
    2: mixed) -- the value blocks reach the block walks as they are (get_block_match cuts them)"""
    import static_frame as sf
    assert len(set(ridx)) == len(ridx) and len(set(cidx)) == len(cidx), (ridx, cidx)
    n, m = len(ridx), len(cidx)
    cols = [np.array([800 + 10 * j + i for i in range(n)], dtype=np.int64) for j in range(m)]
    lays = list(zoo.layouts_for((I8,) * m))
    layout = lays[0] if layout_pick == 0 else (lays[-1] if layout_pick == 1 else lays[len(lays) // 2])
    fr = zoo.frame_from_columns(cols, layout, index=sf.Index(ridx, dtype=object if any(not isinstance(x, str) for x in ridx) else None),
                                columns=sf.Index(cidx))
    return fr, [[int(c[i]) for i in range(n)] for c in cols]


def assign_value_relations_cases(ctx):
    """assign through iloc / loc / getitem / bloc with Frame and Series values whose labels are the same as, a
    reordering of, a same-shape partial overlap of, a subset of, a superset of the target's; value Frames hold their
    columns in 1-D blocks, one 2-D block, or a mix"""
    import static_frame as sf
    nrows = 3
    rot = 0
    for pname in ('I', 'M'):
        for m in ((2, 3) if ctx.tier == 'quick' else (1, 2, 3, 4)):
            dts = POOLS[pname][:m]
            for layout in few_layouts(dts):
                f = build_frame(dts, nrows, layout)
                oflit = oframe_lit(f)
                rl, cl = list(f.index.values), list(f.columns.values)
                for rel_r in RELATIONS:
                    for rel_c in (RELATIONS if ctx.tier == 'thorough' else dict.fromkeys((rel_r, 'reordered'))):
                        rot += 1
                        # ---- Frame value over the whole frame / a sub-selection, label forms
                        # (a one-column frame has no two different positions: the sub-selection key is [0] then, never [0, 0])
                        for rk, ck in ((ALL, ALL), (K('list', [2, 0]), K('list', [m - 1, 0] if m > 1 else [0]))):
                            rps, cps = rk.positions(nrows), ck.positions(m)
                            ridx = relate([rl[i] for i in rps], rel_r)
                            cidx = relate([cl[j] for j in sorted(cps)], rel_c)
                            if rel_c in ('partial', 'larger'):
                                cidx = [c if c not in ('q', 'p') else 'k' + c for c in cidx]
                            if not set(ridx) & set(rl[i] for i in rps) or not set(cidx) & set(cl):
                                continue           # one axis disjoint: covered by the labelled stratum (fixed 658b4ce)
                            vf, vcols = value_frame(ridx, cidx, rot % 3)
                            aval = f'(AFrame {lit.vlist(ridx)} {lit.vlist(cidx)} {lit.lst([lit.vlist(c) for c in vcols])})'
                            for form in ('iloc', 'loc', 'getitem'):
                                sel = form_call(f, 'assign', form, rk if form != 'getitem' else NONE, ck, rl, cl)
                                if sel is None or (form == 'getitem' and rk.kind != 'all'):
                                    continue
                                fn, text = sel
                                before = snapshot(f)
                                out, err = call(lambda: fn()(vf, fill_value=-1))
                                after = snapshot(f)
                                rk_c = rk if form != 'getitem' else NONE
                                ctx.count(f'relations:frame:{rel_r}/{rel_c}', f'relations:form={form}', 'outcome:' + ('ok' if err is None else lit.err_class(err)))
                                sterm = f'S_frame_assign_ok {oflit} {rk_c.ocoq()} {ck.ocoq()} {aval} (VInt (-1)) {oframe_lit(out)}' if err is None else 'false'
                                yield Case(f'api:frame.assign.{form}(Frame value: labels {rel_r}/{rel_c})',
                                           {'pool': pname, 'columns': m, 'layout': zoo.layout_str(layout), 'call': text + '(value Frame, fill_value=-1)',
                                            'value_index': [str(x) for x in ridx], 'value_columns': [str(x) for x in cidx], 'value_layout': zoo.layout_str(zoo.layout_of(vf)),
                                            'observed': 'raises ' + type(err).__name__ if err is not None else out.values.tolist()},
                                           s=sterm, py_fail=None if before == after else 'receiver changed by ' + text,
                                           tags={'op': 'assign', 'form': form, 'value': 'frame', 'rel': rel_r + '/' + rel_c})
                        # ---- bloc: key True everywhere / checkerboard, value Frame related to the WHOLE frame
                        ridx, cidx = relate(rl, rel_r), relate(cl, rel_c)
                        if rel_c in ('partial', 'larger'):
                            cidx = [c if c not in ('q', 'p') else 'k' + c for c in cidx]
                        vf, vcols = value_frame(ridx, cidx, rot % 3)
                        has = lambda i, j: rl[i] in ridx and cl[j] in cidx
                        vmat = [[(vcols[cidx.index(cl[j])][ridx.index(rl[i])] if has(i, j) else None) for i in range(nrows)] for j in range(m)]
                        for kname, kmask in (('all', [[True] * nrows for _ in range(m)]), ('checker', [[(i + j) % 2 == 0 for i in range(nrows)] for j in range(m)])):
                            key0 = np.array(kmask, dtype=bool).T.reshape(nrows, m)
                            karg = key0.copy()                   # the caller's own, writeable array
                            emask = [[kmask[j][i] and has(i, j) for i in range(nrows)] for j in range(m)]
                            before = snapshot(f)
                            out, err = call(lambda: f.assign.bloc[karg](vf))
                            after = snapshot(f)
                            problems = [] if before == after else ['receiver changed by f.assign.bloc']
                            tags = bloc_tags('frame', 'array', layout, kmask, bloc_outcome(f, out, err, layout, kmask, emask, vmat))
                            tags['rel'] = rel_r + '/' + rel_c
                            # the caller's key, as a case of its own: the known finding is claimed only for its input class (a
                            # writeable key that is True where the value Frame has no cell) AND its recorded outcome (exactly those
                            # entries were cleared to False, nothing else changed, the call returned)
                            key_problem = None
                            key_tags = {'op': 'assign', 'form': 'bloc', 'value': 'frame', 'check': 'caller-key', 'rel': rel_r + '/' + rel_c}
                            if not np.array_equal(karg, key0):
                                key_problem = 'the caller\'s Boolean key array was modified in place'
                                cleared_exactly = all(bool(karg[i, j]) == (kmask[j][i] and has(i, j)) for i in range(nrows) for j in range(m))
                                key_tags['outcome'] = 'key-cleared-where-value-missing' if (err is None and cleared_exactly) else 'other'
                                if any(kmask[j][i] and not has(i, j) for i in range(nrows) for j in range(m)) and key_tags['outcome'] == 'key-cleared-where-value-missing':
                                    key_tags['finding'] = F_BLOCKEY
                            yield Case(f'api:frame.assign.bloc(caller key: labels {rel_r}/{rel_c})',
                                       {'pool': pname, 'columns': m, 'layout': zoo.layout_str(layout), 'call': f'k = {kname} writeable Boolean array; f.assign.bloc[k](value Frame); k',
                                        'value_index': [str(x) for x in ridx], 'value_columns': [str(x) for x in cidx],
                                        'observed': karg.tolist()},
                                       py_fail=key_problem, tags=key_tags)
                            ctx.count(f'relations:bloc-frame:{rel_r}/{rel_c}', 'outcome:' + ('ok' if err is None else lit.err_class(err)))
                            klit = lit.lst([lit.lst([lit.b(x) for x in col]) for col in kmask])
                            mlit = lit.lst([lit.lst([lit.b(x) for x in col]) for col in emask])
                            vlit = lit.lst([lit.vlist(col) for col in vmat])
                            sterm = f'S_frame_bloc_ok {oflit} {klit} {mlit} {vlit} {oframe_lit(out)}' if err is None else 'false'
                            yield Case(f'api:frame.assign.bloc(Frame value: labels {rel_r}/{rel_c})',
                                       {'pool': pname, 'columns': m, 'layout': zoo.layout_str(layout), 'call': f'f.assign.bloc[{kname} writeable Boolean array](value Frame)',
                                        'value_index': [str(x) for x in ridx], 'value_columns': [str(x) for x in cidx], 'value_layout': zoo.layout_str(zoo.layout_of(vf)),
                                        'observed': 'raises ' + type(err).__name__ if err is not None else out.values.tolist()},
                                       s=sterm, py_fail='; '.join(problems) or None, tags=tags)
                    # ---- Series values (one addressed column / one addressed row), label forms
                    for axis, rk, ck in (('rows', ALL, K('int', m - 1)), ('rows', K('list', [2, 0]), K('int', 0)), ('cols', K('int', 1), ALL)):
                        rps, cps = rk.positions(nrows), ck.positions(m)
                        target = [rl[i] for i in rps] if axis == 'rows' else [cl[j] for j in sorted(cps)]
                        idx = relate(target, rel_r)
                        vals = [900 + i for i in range(len(idx))]
                        sv = sf.Series(vals, index=sf.Index(idx))
                        aval = f'({"ARows" if axis == "rows" else "ACols"} {lit.vlist(idx)} {lit.vlist(vals)})'
                        for form in ('iloc', 'loc', 'getitem'):
                            if form == 'getitem' and not (axis == 'rows' and rk.kind == 'all'):
                                continue
                            sel = form_call(f, 'assign', form, rk if form != 'getitem' else NONE, ck, rl, cl)
                            if sel is None:
                                continue
                            fn, text = sel
                            before = snapshot(f)
                            out, err = call(lambda: fn()(sv, fill_value=-1))
                            after = snapshot(f)
                            rk_c = rk if form != 'getitem' else NONE
                            ctx.count(f'relations:series:{rel_r}', f'relations:form={form}', 'outcome:' + ('ok' if err is None else lit.err_class(err)))
                            sterm = f'S_frame_assign_ok {oflit} {rk_c.ocoq()} {ck.ocoq()} {aval} (VInt (-1)) {oframe_lit(out)}' if err is None else 'false'
                            yield Case(f'api:frame.assign.{form}(Series value: labels {rel_r})',
                                       {'pool': pname, 'columns': m, 'layout': zoo.layout_str(layout), 'call': text + '(value Series, fill_value=-1)',
                                        'value_index': [str(x) for x in idx], 'observed': 'raises ' + type(err).__name__ if err is not None else out.values.tolist()},
                                       s=sterm, py_fail=None if before == after else 'receiver changed by ' + text,
                                       tags={'op': 'assign', 'form': form, 'value': 'series', 'rel': rel_r})


def hier_index(kind):
    import static_frame as sf
    if kind == 'product':
        return sf.IndexHierarchy.from_product(('x', 'y'), (1, 2), name='h')
    return sf.IndexHierarchy.from_labels([('x', 1), ('y', 2), ('z', 3)], name='h')


def hierarchy_cases(ctx):
    """the same interfaces on Frames / Series whose index or columns are an IndexHierarchy (labels are tuples), through
    positions and through HLoc; relabel_flat / relabel_level_add / relabel_level_drop; Index / IndexGO / IndexHierarchy
    drop, astype, rename, relabel"""
    import static_frame as sf
    ih = hier_index('product')
    tups = [tuple(x) for x in ih.__iter__()]
    # ---- hierarchical rows
    for layout in few_layouts((I8, I8, F8)):
        cols = [column(I8, 0, 4), column(I8, 1, 4), column(F8, 2, 4)]
        f = zoo.frame_from_columns(cols, layout, index=ih, columns=sf.Index(COL_LABELS[:3]), name=NAME)
        oflit = oframe_lit(f)
        rows = [(K('list', [0, 3]), [0, 3]), (K('int', 2), sf.HLoc['y', 1]), (K('list', [0, 1]), sf.HLoc['x']), (K('mask', [False, True, True, False]), None),
                (K('slice', (1, None, None)), None), (K('list', []), None)]
        for rk, hloc in rows:
            for ck in (NONE, K('int', 1), K('list', [2, 0])):
                for op in ('drop', 'mask', 'assign'):
                    forms = [('iloc', rk.py() if ck.kind == 'none' else (rk.py(), ck.py()))]
                    if hloc is not None and not isinstance(hloc, list):
                        lk = loc_key(ck, list(f.columns.values))
                        forms.append(('loc', hloc if ck.kind == 'none' else (hloc, lk)))
                    for form, key in forms:
                        before = snapshot(f)
                        if op == 'assign':
                            out, err = call(lambda: getattr(f.assign, form)[key](-7))
                        else:
                            out, err = call(lambda: getattr(getattr(f, op), form)[key])
                        after = snapshot(f)
                        obs = res_lit(out, err, oframe_lit)
                        if op == 'drop':
                            sterm = f'res_agree oframe_eqb (S_frame_drop {oflit} {rk.ocoq()} {ck.ocoq()}) {obs}'
                        elif op == 'mask':
                            sterm = f'res_agree oframe_eqb_noname (S_frame_mask {oflit} {rk.ocoq()} {ck.ocoq()}) {obs}'
                        else:
                            sterm = f'S_frame_assign_ok {oflit} {rk.ocoq()} {ck.ocoq()} (AElem (VInt (-7))) VNaN {oframe_lit(out)}' if err is None else 'false'
                        ctx.count(f'hier-rows:{op}.{form}', 'outcome:' + ('ok' if err is None else lit.err_class(err)))
                        tags = {'op': op, 'form': form, 'hier': 'rows'}
                        if op == 'drop' and ck.kind != 'none' and False:
                            pass
                        yield Case(f'api:frame(hierarchical index).{op}.{form}',
                                   {'layout': zoo.layout_str(layout), 'call': f'f.{op}.{form}[{key!r}]', 'observed': 'raises ' + type(err).__name__ if err is not None else out.values.tolist()},
                                   s=sterm, py_fail=None if before == after else f'receiver changed by f.{op}', tags=tags)
        # relabel_* on the hierarchical index
        L = lit.vlist(tups)
        for rname, fn, want in [('relabel_flat(index=True)', lambda: f.relabel_flat(index=True), L),
                                ('relabel_level_add(index="L")', lambda: f.relabel_level_add(index='L'),
                                 f'(map (fun l => match l with VTup e => VTup (VStr "L" :: e) | x => x end) {L})'),
                                ('rename(index="h2")', lambda: f.rename(index='h2'), L)]:
            before = snapshot(f)
            out, err = call(fn)
            after = snapshot(f)
            want_f = f'(mk_oframe {want} {lit.vlist(lit.labels(f.columns))} {cols_lit(f)} {lit.val(f.name)})'
            py_fail = None if before == after else 'receiver changed by ' + rname
            if err is None and not py_fail and rname.startswith('rename') and (out.index.name != 'h2' or f.index.name != 'h'):
                py_fail = f'rename(index=) gives index name {out.index.name!r}, receiver {f.index.name!r}'
            ctx.count('hier:' + rname.split('(')[0])
            yield Case('api:frame(hierarchical index).relabel', {'layout': zoo.layout_str(layout), 'call': 'f.' + rname,
                                                                'observed': 'raises ' + type(err).__name__ if err is not None else [list(map(str, x)) for x in lit.labels(out.index)]},
                       s=f'res_agree oframe_eqb (Ok {want_f}) {res_lit(out, err, oframe_lit)}', py_fail=py_fail, tags={'op': 'relabel', 'hier': 'rows'})
    # level_drop needs the inner level to be unique
    ih2 = hier_index('labels')
    f2 = sf.Frame.from_fields([[1, 2, 3], [4.5, 5.5, 6.5]], index=ih2, columns=('a', 'b'), name=NAME)
    s2 = sf.Series([1, 2, 3], index=ih2, name='sn')
    for rname, fn, obj in [('frame.relabel_level_drop(index=1)', lambda: f2.relabel_level_drop(index=1), f2), ('series.relabel_level_drop(1)', lambda: s2.relabel_level_drop(1), s2),
                           ('series.relabel_level_drop(-1) inner', lambda: s2.relabel_level_drop(-1), s2), ('frame.relabel_level_drop(index=-1) inner', lambda: f2.relabel_level_drop(index=-1), f2),
                           ('series.relabel_level_add("Z")', lambda: s2.relabel_level_add('Z'), s2), ('series.relabel_flat()', lambda: s2.relabel_flat(), s2)]:
        before = snapshot(obj)
        out, err = call(fn)
        after = snapshot(obj)
        L = lit.vlist([tuple(x) for x in ih2.__iter__()])
        if 'inner' in rname:
            want = f'(map (fun l => match l with VTup [a; _] => a | x => x end) {L})'
        elif 'level_drop' in rname:
            want = f'(map (fun l => match l with VTup [_; b] => b | x => x end) {L})'
        elif 'level_add' in rname:
            want = f'(map (fun l => match l with VTup e => VTup (VStr "Z" :: e) | x => x end) {L})'
        else:
            want = L
        if obj is f2:
            sterm = f'res_agree oframe_eqb (Ok (mk_oframe {want} {lit.vlist(["a", "b"])} {cols_lit(f2)} {lit.val(NAME)})) {res_lit(out, err, oframe_lit)}'
        else:
            sterm = f'res_agree oseries_eqb (Ok (mk_oseries {want} {lit.vlist([1, 2, 3])} {lit.dtype(s2.dtype)} (VStr "sn"))) {res_lit(out, err, lit.oseries)}'
        ctx.count('hier:' + rname.split('(')[0])
        yield Case('api:hierarchical.relabel_level', {'call': rname, 'observed': 'raises ' + type(err).__name__ if err is not None else [str(x) for x in lit.labels(out.index)]},
                   s=sterm, py_fail=None if before == after else 'receiver changed by ' + rname, tags={'op': 'relabel', 'hier': 'levels'})
    # ---- hierarchical columns: getitem / loc forms with HLoc, astype, insert
    fc = sf.Frame(np.arange(8).reshape(2, 4), index=('r0', 'r1'), columns=ih, name=NAME)
    fclit = oframe_lit(fc)
    for ck, hloc in [(K('list', [0, 1]), sf.HLoc['x']), (K('int', 3), sf.HLoc['y', 2]), (K('list', [2, 3]), sf.HLoc['y'])]:
        for op in ('drop', 'mask', 'assign', 'astype'):
            before = snapshot(fc)
            if op == 'assign':
                out, err = call(lambda: fc.assign[hloc](-7))
                sterm = f'S_frame_assign_ok {fclit} None {ck.ocoq()} (AElem (VInt (-7))) VNaN {oframe_lit(out)}' if err is None else 'false'
            elif op == 'astype':
                out, err = call(lambda: fc.astype[hloc](float))
                sterm = f'res_agree oframe_eqb (S_frame_astype {fclit} {ck.coq()} (DFlt 8)) {res_lit(out, err, oframe_lit)}'
            elif op == 'drop':
                out, err = call(lambda: fc.drop[hloc])
                sterm = f'res_agree oframe_eqb (S_frame_drop {fclit} None {ck.ocoq()}) {res_lit(out, err, oframe_lit)}'
            else:
                out, err = call(lambda: fc.mask[hloc])
                sterm = f'res_agree oframe_eqb_noname (S_frame_mask {fclit} None {ck.ocoq()}) {res_lit(out, err, oframe_lit)}'
            after = snapshot(fc)
            ctx.count(f'hier-columns:{op}', 'outcome:' + ('ok' if err is None else lit.err_class(err)))
            yield Case(f'api:frame(hierarchical columns).{op}.getitem', {'call': f'f.{op}[{hloc!r}]', 'observed': 'raises ' + type(err).__name__ if err is not None else out.values.tolist()},
                       s=sterm, py_fail=None if before == after else f'receiver changed by f.{op}', tags={'op': op, 'hier': 'columns'})
    ins = sf.Series((5, 6), index=('r0', 'r1'), name=('x', 3))
    for meth, key in (('insert_after', 2), ('insert_before', 1)):
        before = snapshot(fc)
        out, err = call(lambda: getattr(fc, meth)(('x', 2), ins))
        after = snapshot(fc)
        sterm = f'S_frame_insert_ok {fclit} {lit.z(key)} {lit.vlist([("x", 3)])} {lit.lst([lit.vlist([5, 6])])} {oframe_lit(out)}' if err is None else 'false'
        ctx.count('hier-columns:' + meth)
        yield Case(f'api:frame(hierarchical columns).{meth}', {'call': f'f.{meth}(("x", 2), Series named ("x", 3))', 'observed': 'raises ' + type(err).__name__ if err is not None else [str(x) for x in lit.labels(out.columns)]},
                   s=sterm, py_fail=None if before == after else f'receiver changed by f.{meth}', tags={'op': meth, 'hier': 'columns'})
    # ---- Index / IndexGO / IndexHierarchy: drop, astype, rename, relabel
    for cls in (sf.Index, sf.IndexGO):
        ix = cls(('a', 'b', 'c', 'd'), name='n')
        lab = list(ix.values)
        for k in [K('int', 0), K('int', -1), K('list', [2, 0]), K('slice', (1, 3, None)), K('mask', [True, False, False, True]), K('list', []), K('slice', (None, None, -2))]:
            for form in ('iloc', 'loc'):
                lk = loc_key(k, lab) if form == 'loc' else k.py()
                if form == 'loc' and (lk is None or has_negative(k)):
                    continue
                before = (list(ix.values), ix.name)
                out, err = call(lambda: getattr(ix.drop, form)[lk])
                py_fail = None if (list(ix.values), ix.name) == before else 'receiver Index changed by drop'
                if err is None and not py_fail and (out.name != 'n' or out.__class__ is not cls or (cls is sf.IndexGO and out is ix)):
                    py_fail = f'Index.drop result: name {out.name!r}, class {out.__class__.__name__}, same object {out is ix}'
                ctx.count(f'index.drop.{form}')
                obs = f'(Ok {lit.vlist(lit.labels(out))})' if err is None else f'(Err {lit.s(lit.err_class(err))})'
                yield Case(f'api:index.drop.{form}', {'class': cls.__name__, 'call': f'ix.drop.{form}[{lk!r}]', 'observed': 'raises ' + type(err).__name__ if err is not None else lit.labels(out)},
                           s=f'res_agree vlist_eqb (match key_positions {k.coq()} 4 with Ok ps => Ok (S_drop_at {lit.vlist(lab)} ps) | Err e => Err e end) {obs}',
                           py_fail=py_fail, tags={'op': 'drop', 'container': 'index'})
        ixn = cls((1, 2, 3), name='n')
        for nm, fn, want, wname in [('astype(float)', lambda: ixn.astype(float), f'(map (conv_val (DFlt 8)) {lit.vlist([1, 2, 3])})', 'n'),
                                    ('astype(object)', lambda: ixn.astype(object), lit.vlist([1, 2, 3]), 'n'),
                                    ('rename("z")', lambda: ixn.rename('z'), lit.vlist([1, 2, 3]), 'z'),
                                    ('relabel({1: 10})', lambda: ixn.relabel({1: 10}), lit.vlist([10, 2, 3]), 'n'),
                                    ('relabel(lambda)', lambda: ixn.relabel(lambda x: x * 2), lit.vlist([2, 4, 6]), 'n')]:
            out, err = call(fn)
            py_fail = None if (list(ixn.values), ixn.name) == ([1, 2, 3], 'n') else 'receiver Index changed by ' + nm
            if err is None and not py_fail and (out.name != wname or (cls is sf.IndexGO and out is ixn)):
                py_fail = f'Index.{nm}: name {out.name!r} (expected {wname!r}), same object {out is ixn}'
            ctx.count('index.' + nm.split('(')[0])
            obs = f'(Ok {lit.vlist(lit.labels(out))})' if err is None else f'(Err {lit.s(lit.err_class(err))})'
            yield Case('api:index.' + nm.split('(')[0], {'class': cls.__name__, 'call': 'ix.' + nm, 'observed': 'raises ' + type(err).__name__ if err is not None else lit.labels(out)},
                       s=f'res_agree vlist_eqb (Ok {want}) {obs}', py_fail=py_fail, tags={'op': nm.split('(')[0], 'container': 'index'})
    L = lit.vlist(tups)
    for nm, fn, want, wname in [('astype[1](float)', lambda: ih.astype[1](float), f'(map (fun l => match l with VTup [a; b] => VTup [a; conv_val (DFlt 8) b] | x => x end) {L})', 'h'),
                                ('astype(object)', lambda: ih.astype(object), L, 'h'),
                                ('rename("q")', lambda: ih.rename('q'), L, 'q'),
                                ('relabel(lambda)', lambda: ih.relabel(lambda l: (l[0] + l[0], l[1])),
                                 f'(map (fun l => match l with VTup [VStr a; b] => VTup [VStr (a ++ a); b] | x => x end) {L})', 'h'),
                                ('relabel(mapping)', lambda: ih.relabel({('x', 2): ('x', 5)}),
                                 lit.vlist([(('x', 5) if t == ('x', 2) else t) for t in tups]), 'h')]:
        out, err = call(fn)
        py_fail = None if ([tuple(x) for x in ih.__iter__()], ih.name) == (tups, 'h') else 'receiver IndexHierarchy changed by ' + nm
        if err is None and not py_fail and out.name != wname:
            py_fail = f'IndexHierarchy.{nm}: name {out.name!r}, expected {wname!r}'
        ih_tags = {'op': nm.split('(')[0], 'container': 'index_hierarchy'}
        if nm.startswith('astype') and err is None:
            # input class: astype of a NAMED IndexHierarchy; recorded outcome: the labels are right and the name is None
            want_py = [(a, float(b)) for a, b in tups] if '(float)' in nm else tups
            got_py = [tuple(x) for x in out.__iter__()]
            kind = (float, np.floating) if '(float)' in nm else (int, np.integer)
            labels_right = got_py == want_py and all(isinstance(x[1], kind) and not isinstance(x[1], (bool, np.bool_)) for x in got_py)
            ih_tags['outcome'] = 'name-dropped' if (labels_right and out.name is None) else 'other'
            if ih_tags['outcome'] == 'name-dropped':
                ih_tags['finding'] = F_IHASTYPE
        ctx.count('index_hierarchy.' + nm.split('(')[0].split('[')[0])
        obs = f'(Ok {lit.vlist(lit.labels(out))})' if err is None else f'(Err {lit.s(lit.err_class(err))})'
        yield Case('api:index_hierarchy.' + nm.split('(')[0].split('[')[0], {'call': 'ih.' + nm, 'observed': 'raises ' + type(err).__name__ if err is not None else [str(x) for x in lit.labels(out)]},
                   s=f'res_agree vlist_eqb (Ok {want}) {obs}', py_fail=py_fail, tags=ih_tags)


def dtype_kind_cases(ctx):
    """unsigned / bytes / datetime64 / timedelta64 / object-with-None columns, 0-row frames, FrameHE and SeriesHE receivers,
    masked_array: drop / mask / astype / assign through the block walks (M and S)"""
    import static_frame as sf
    kinds = (U1, S2_, DTD, TDD)
    for nrows in (2, 0):
        for dts in (kinds, (U1, U1, DTD, DTD), (OB, OB, S2_, TDD)):
            lays = list(zoo.layouts_for(dts))
            for layout in (lays if ctx.tier == 'thorough' else list(dict.fromkeys([lays[0], lays[len(lays) // 2], lays[-1]]))):
                for cls_name in (('Frame', 'FrameHE') if nrows else ('Frame',)):
                    f = build_frame(dts, nrows, layout, cls=getattr(sf, cls_name))
                    flit, oflit = mframe_lit(f), oframe_lit(f)
                    m = 4
                    rks = [NONE, K('int', -1), K('list', [1, 0])] if nrows else [NONE, K('list', []), ALL]
                    for i, ck in enumerate([K('int', 2), K('list', [3, 0]), K('slice', (None, None, -2)), K('mask', [False, True, True, False]), ALL, K('list', [])]):
                        rk = rks[i % len(rks)]
                        key = (rk.py(), ck.py())
                        for op in ('drop', 'mask', 'assign'):
                            before = snapshot(f)
                            tags = {'op': op, 'form': 'iloc', 'ckind': ck.kind, 'rkind': rk.kind, 'dtypes': 'exotic', 'receiver': cls_name}
                            if op == 'assign':
                                value = None
                                out, err = call(lambda: f.assign.iloc[key](value))
                                obs = res_lit(out, err, ofl_lit)
                                mterm = (f'res_same ofl_same (M_frame_assign_unit {flit} {rk.ocoq()} {ck.ocoq()} false {lit.b(ck.kind != "int")} false '
                                         f'(AElem VNone) DObj {RESOLVE}) {obs}')
                                sterm = f'S_frame_assign_ok {oflit} {rk.ocoq()} {ck.ocoq()} (AElem VNone) VNaN {oframe_lit(out)}' if err is None else 'false'
                            else:
                                out, err = call(lambda: getattr(f, op).iloc[key])
                                tags.update(classify(op, ck, rk, m, nrows))
                                obs = res_lit(out, err, ofl_lit)
                                if op == 'drop':
                                    mterm = f'res_same ofl_eqb (M_frame_drop {flit} {rk.ocoq()} {ck.ocoq()}) {obs}'
                                    sterm = f'res_agree of_eqb_ofl (S_frame_drop {oflit} {rk.ocoq()} {ck.ocoq()}) {obs}'
                                else:
                                    mterm = f'res_same ofl_eqb_noname (M_frame_mask {flit} {rk.ocoq()} {ck.ocoq()}) {obs}'
                                    sterm = f'res_agree of_eqb_ofl_noname (S_frame_mask {oflit} {rk.ocoq()} {ck.ocoq()}) {obs}'
                            after = snapshot(f)
                            py_fail = None if before == after else f'receiver changed by f.{op}'
                            if err is None and not py_fail and out.__class__ is not f.__class__:
                                py_fail = f'result class {out.__class__.__name__} for a {cls_name} receiver'
                            ctx.count(f'kinds:{op}', f'kinds:rows={nrows}', f'kinds:{cls_name}', 'outcome:' + ('ok' if err is None else lit.err_class(err)))
                            yield Case(f'api:{cls_name.lower()}(exotic dtypes).{op}.iloc',
                                       {'dtypes': [str(d) for d in dts], 'rows': nrows, 'layout': zoo.layout_str(layout), 'call': f'f.{op}.iloc[{key!r}]' + ('(None)' if op == 'assign' else ''),
                                        'observed': 'raises ' + type(err).__name__ if err is not None else [str(a.dtype) for a in frame_columns(out)]},
                                       m=mterm, s=sterm, py_fail=py_fail, tags=tags)
    # masked_array: the mask of the result is the mask Frame, the data are the values
    for layout in few_layouts(POOLS['I'][:3]):
        f = build_frame(POOLS['I'][:3], 3, layout)
        oflit = oframe_lit(f)
        for rk, ck in ((K('int', 1), NONE), (K('list', [2, 0]), K('int', 1)), (ALL, K('list', [2, 0])), (NONE, K('list', [1]))):
            for form in ('iloc', 'loc', 'getitem'):
                sel = form_call(f, 'masked_array', form, rk, ck, list(f.index.values), list(f.columns.values))
                if sel is None:
                    continue
                fn, text = sel
                before = snapshot(f)
                out, err = call(fn)
                after = snapshot(f)
                py_fail = None if before == after else 'receiver changed by ' + text
                if err is None:
                    mk = sf.Frame(np.array(out.mask), index=f.index, columns=f.columns)
                    if not np.array_equal(np.array(out.data), f.values):
                        py_fail = py_fail or 'masked_array data differ from the values'
                    obs = f'(Ok {oframe_lit(mk)})'
                else:
                    obs = f'(Err {lit.s(lit.err_class(err))})'
                ctx.count('masked_array:' + form)
                yield Case(f'api:frame.masked_array.{form}', {'layout': zoo.layout_str(layout), 'call': text, 'observed': 'raises ' + type(err).__name__ if err is not None else np.array(out.mask).tolist()},
                           s=f'res_agree oframe_eqb_noname (S_frame_mask {oflit} {rk.ocoq()} {ck.ocoq()}) {obs}', py_fail=py_fail, tags={'op': 'masked_array', 'form': form})
    for cls in (sf.Series, sf.SeriesHE):
        sr = cls(column(I8, 1, 4), index=sf.Index(ROW_LABELS[:4]), name='sn')
        slit = lit.oseries(sr)
        for k in (K('int', -1), K('list', [2, 0]), K('slice', (None, None, -2)), K('mask', [True, False, False, True])):
            before = snapshot(sr)
            lk = loc_key(k, list(sr.index.values)) if not has_negative(k) else None
            out, err = call((lambda: sr.masked_array.loc[lk]) if lk is not None else (lambda: sr.masked_array.iloc[k.py()]))
            obs = f'(Ok (mk_oseries {lit.vlist(lit.labels(sr.index))} {lit.vlist(np.array(out.mask).tolist())} DBool VNone))' if err is None else f'(Err {lit.s(lit.err_class(err))})'
            ctx.count('masked_array:series')
            yield Case('api:series.masked_array.iloc', {'class': cls.__name__, 'call': f's.masked_array.iloc[{k.py()!r}]', 'observed': 'raises ' + type(err).__name__ if err is not None else np.array(out.mask).tolist()},
                       s=f'res_agree oseries_eqb_noname (S_series_mask {slit} {k.coq()}) {obs}',
                       py_fail=None if snapshot(sr) == before else 'receiver changed by masked_array', tags={'op': 'masked_array', 'container': 'series'})
            for op in ('drop', 'mask', 'assign'):
                out, err = call((lambda: sr.assign.iloc[k.py()](0)) if op == 'assign' else (lambda: getattr(sr, op).iloc[k.py()]))
                py_fail = None if snapshot(sr) == before else f'receiver changed by s.{op}'
                if err is None and not py_fail and out.__class__ is not cls:
                    py_fail = f'result class {out.__class__.__name__} for a {cls.__name__} receiver'
                obs = res_lit(out, err, lit.oseries)
                sterm = (f'res_agree oseries_eqb (S_series_drop {slit} (Some {k.coq()})) {obs}' if op == 'drop' else
                         f'res_agree oseries_eqb_noname (S_series_mask {slit} {k.coq()}) {obs}' if op == 'mask' else
                         (f'S_series_assign_ok {slit} {k.coq()} (AElem (VInt 0)) VNaN {lit.oseries(out)}' if err is None else 'false'))
                ctx.count(f'series-class:{cls.__name__}:{op}')
                yield Case(f'api:{cls.__name__.lower()}.{op}.iloc(class kept)', {'class': cls.__name__, 'call': f's.{op}.iloc[{k.py()!r}]',
                                                                              'observed': 'raises ' + type(err).__name__ if err is not None else out.values.tolist()},
                           s=sterm, py_fail=py_fail, tags={'op': op, 'container': cls.__name__})


def malformed_bloc_cases(ctx):
    """bloc keys outside the domain (wrong shape, not Boolean, not an array / Frame) and key objects the block walk
    cannot handle: the call must raise and leave the receiver as it was"""
    import static_frame as sf
    for layout in few_layouts(POOLS['I'][:3]):
        f = build_frame(POOLS['I'][:3], 3, layout)
        bad = [('array of the wrong shape', np.zeros((2, 3), dtype=bool)), ('integer array', np.zeros((3, 3), dtype=np.int64)),
               ('list of lists', [[True] * 3] * 3), ('integer Frame', sf.Frame(np.zeros((3, 3), dtype=np.int64), index=f.index, columns=f.columns)),
               ('1-D Boolean array', np.zeros(3, dtype=bool))]
        for name, key in bad:
            before = snapshot(f)
            out, err = call(lambda: f.assign.bloc[key](0))
            py_fail = None if snapshot(f) == before else 'receiver changed by a failing f.assign.bloc'
            if err is None:
                py_fail = py_fail or f'f.assign.bloc[{name}] was accepted'
            ctx.count('malformed:bloc-key', 'outcome:' + ('ok' if err is None else lit.err_class(err)))
            yield Case('malformed:frame.assign.bloc', {'layout': zoo.layout_str(layout), 'call': f'f.assign.bloc[{name}](0)', 'observed': 'raises ' + type(err).__name__ if err is not None else 'returns'},
                       py_fail=py_fail, tags={'op': 'assign', 'form': 'bloc', 'malformed': True})
        for name, key in [('a set', {0, 1}), ('a float', 1.5), ('a dict', {0: 1})]:
            for op in ('drop', 'mask', 'assign'):
                before = snapshot(f)
                out, err = call((lambda: f.assign.iloc[:, key](0)) if op == 'assign' else (lambda: getattr(f, op).iloc[:, key]))
                py_fail = None if snapshot(f) == before else f'receiver changed by a failing f.{op}'
                if err is None:
                    py_fail = py_fail or f'f.{op}.iloc[:, {name}] was accepted'
                ctx.count('malformed:key-type', 'outcome:' + ('ok' if err is None else lit.err_class(err)))
                yield Case(f'malformed:frame.{op}.iloc(key type)', {'layout': zoo.layout_str(layout), 'call': f'f.{op}.iloc[:, {name}]', 'observed': 'raises ' + type(err).__name__ if err is not None else 'returns'},
                           py_fail=py_fail, tags={'op': op, 'malformed': True})


# ---------------------------------------------------------------------------------------------- malformed keys / values
def malformed_cases(ctx):
    """inputs outside the domain: out-of-range positions, absent labels, wrong mask length, step 0, value of the wrong
    shape -- the call must raise and leave the receiver as it was (the specification says Err too)"""
    nrows = 3
    for pname, dts, layout in label_frames(ctx, ms=(2, 4)):
        m = len(dts)
        if ctx.tier == 'quick' and layout != few_layouts(dts)[1]:
            continue
        f = build_frame(dts, nrows, layout)
        oflit = oframe_lit(f)
        bad_col = [K('int', m), K('int', -m - 1), K('list', [0, m]), K('list', [-m - 1]), K('mask', [True] * (m + 1)), K('slice', (None, None, 0))]
        bad_row = [K('int', nrows), K('list', [nrows]), K('mask', [True] * (nrows + 1))]
        plans = [(rk, ck) for ck in bad_col for rk in (NONE, ALL)] + [(rk, ck) for rk in bad_row for ck in (NONE, K('int', 0))]
        for rk, ck in plans:
            for op in ('drop', 'mask', 'assign'):
                if rk.kind == 'none' and ck.kind == 'none':
                    continue
                key = rk.py() if ck.kind == 'none' else (rk.py(), ck.py())
                before = snapshot(f)
                if op == 'assign':
                    out, err = call(lambda: f.assign.iloc[key](0))
                else:
                    out, err = call(lambda: getattr(f, op).iloc[key])
                after = snapshot(f)
                ctx.count(f'malformed:{op}', 'outcome:' + ('ok' if err is None else lit.err_class(err)))
                if op == 'drop':
                    sterm = f'res_agree oframe_eqb (S_frame_drop {oflit} {rk.ocoq()} {ck.ocoq()}) {res_lit(out, err, oframe_lit)}'
                elif op == 'mask':
                    sterm = f'res_agree oframe_eqb_noname (S_frame_mask {oflit} {rk.ocoq()} {ck.ocoq()}) {res_lit(out, err, oframe_lit)}'
                else:
                    sterm = 'true' if err is not None else f'S_frame_assign_ok {oflit} {rk.ocoq()} {ck.ocoq()} (AElem (VInt 0)) VNaN {oframe_lit(out)}'
                yield Case(f'malformed:frame.{op}.iloc',
                           {'pool': pname, 'columns': m, 'layout': zoo.layout_str(layout), 'call': f'f.{op}.iloc[{key!r}]', 'observed': 'raises ' + type(err).__name__ if err is not None else 'returns'},
                           s=sterm, py_fail=None if before == after else f'receiver changed by a failing f.{op}', tags={'op': op, 'malformed': True, 'ckind': ck.kind, 'rkind': rk.kind})
        # absent labels
        for key in ['nope', ['a', 'nope'], slice('a', 'nope')]:
            for op in ('drop', 'mask', 'assign'):
                before = snapshot(f)
                out, err = call((lambda: f.assign[key](0)) if op == 'assign' else (lambda: getattr(f, op)[key]))
                after = snapshot(f)
                ctx.count(f'malformed:{op}-label', 'outcome:' + ('ok' if err is None else lit.err_class(err)))
                py_fail = None if before == after else f'receiver changed by a failing f.{op}'
                if err is None:
                    py_fail = py_fail or f'f.{op}[{key!r}] accepted an absent label'
                yield Case(f'malformed:frame.{op}.getitem', {'pool': pname, 'columns': m, 'call': f'f.{op}[{key!r}]', 'observed': 'raises ' + type(err).__name__ if err is not None else 'returns'},
                           py_fail=py_fail, tags={'op': op, 'malformed': True})
        # a value that cannot be broadcast to the selection
        for key, value in [((slice(None), [0, 1]), np.arange(3 * 3).reshape(3, 3)), ((0, slice(None)), np.arange(m + 1)), ((slice(None), 0), np.arange(nrows + 1))]:
            before = snapshot(f)
            out, err = call(lambda: f.assign.iloc[key](value))
            after = snapshot(f)
            ctx.count('malformed:assign-shape', 'outcome:' + ('ok' if err is None else lit.err_class(err)))
            # a value wider than the selection is accepted (a prefix of it is used): outside the property's quantifier;
            # only "the receiver is left as it was" is demanded here
            py_fail = None if before == after else 'receiver changed by f.assign with a value of the wrong shape'
            yield Case('malformed:frame.assign.value-shape', {'pool': pname, 'columns': m, 'call': f'f.assign.iloc[{key!r}](array{value.shape})',
                                                              'observed': 'raises ' + type(err).__name__ if err is not None else out.values.tolist()},
                       py_fail=py_fail, tags={'op': 'assign', 'malformed': True, 'shape': True})


# ---------------------------------------------------------------------------------------------- random stream of bigger frames
def random_cases(ctx):
    rng = ctx.rng
    kinds = [I8, F8, B1, U2, OB]
    for _ in range(ctx.n(120, 1500)):
        m = rng.randint(3, 7)
        nrows = rng.randint(1, 5)
        # dtypes in runs, so that multi-column blocks are possible
        dts = []
        while len(dts) < m:
            dts += [rng.choice(kinds)] * rng.randint(1, 3)
        dts = tuple(dts[:m])
        lays = list(zoo.layouts_for(dts))
        layout = rng.choice(lays)
        f = build_frame(dts, nrows, layout)
        flit, oflit = mframe_lit(f), oframe_lit(f)

        def rand_key(n):
            kind = rng.choice(['int', 'slice', 'list', 'mask', 'all', 'array'])
            if kind == 'int':
                return K('int', rng.randrange(n))
            if kind == 'slice':
                return K('slice', (rng.choice([None] + list(range(-n - 1, n + 2))), rng.choice([None] + list(range(-n - 1, n + 2))), rng.choice([None, 1, 2, -1, -2, 3, -3])))
            if kind in ('list', 'array'):
                return K(kind, rng.sample(range(n), rng.randint(0, n)))
            if kind == 'mask':
                return K('mask', [rng.random() < 0.5 for _ in range(n)])
            return ALL
        ck, rk = rand_key(m), rng.choice([NONE, rand_key(nrows)])
        cps, rps = ck.positions(m), (rk.positions(nrows) if rk.kind != 'none' else list(range(nrows)))
        op = rng.choice(['drop', 'mask', 'assign', 'assign', 'astype'])
        key = (rk.py(), ck.py())
        before = snapshot(f)
        tags = {'op': op, 'form': 'iloc', 'ckind': ck.kind, 'rkind': rk.kind, 'random': True}
        if op == 'astype':
            lk = loc_key(ck, list(f.columns.values)) if not has_negative(ck) else None
            dst = rng.choice([d for d in ASTYPE_TARGETS if all(astype_ok(dts[j], d) for j in cps)])
            if (lk is None and ck.kind != 'all') or (ck.kind == 'mask' and sum(ck.v) != 1):
                ck = K('list', sorted(cps))
                lk = loc_key(ck, list(f.columns.values))
            key = lk
            out, err = call(lambda: f.astype[lk](dst, consolidate_blocks=False))
            obs = res_lit(out, err, ofl_lit)
            mterm = f'res_same ofl_eqb (M_frame_astype {flit} {ck.coq()} {lit.dtype(dst)}) {obs}'
            sterm = f'res_agree of_eqb_ofl (S_frame_astype {oflit} {ck.coq()} {lit.dtype(dst)}) {obs}'
        elif op == 'assign':
            vals = list(unit_values(rk, ck, rps, sorted(cps), rng.randrange(100)))
            vname, value, aval, sliceable = rng.choice(vals)
            if vname != 'element' and ck.kind in ('list', 'array') and sorted(cps) != cps:
                vname, value, aval, sliceable = vals[0]
            out, err = call(lambda: f.assign.iloc[key](value))
            tags.update(assign_tags('iloc', ck, rk, m, ck.kind == 'mask'))
            obs = res_lit(out, err, ofl_lit)
            mterm = (f'res_same ofl_same (M_frame_assign_unit {flit} {rk.ocoq()} {ck.ocoq()} {lit.b(ck.kind in ("array", "mask"))} '
                     f'{lit.b(ck.kind != "int")} {lit.b(sliceable)} {aval} {vdt_lit(value)} {RESOLVE}) {obs}')
            sterm = f'S_frame_assign_ok {oflit} {rk.ocoq()} {ck.ocoq()} {aval} VNaN {oframe_lit(out)}' if err is None else 'false'
        else:
            out, err = call(lambda: getattr(f, op).iloc[key])
            tags.update(classify(op, ck, rk, m, nrows))
            obs = res_lit(out, err, ofl_lit)
            if op == 'drop':
                mterm = f'res_same ofl_eqb (M_frame_drop {flit} {rk.ocoq()} {ck.ocoq()}) {obs}'
                sterm = f'res_agree of_eqb_ofl (S_frame_drop {oflit} {rk.ocoq()} {ck.ocoq()}) {obs}'
            else:
                mterm = f'res_same ofl_eqb_noname (M_frame_mask {flit} {rk.ocoq()} {ck.ocoq()}) {obs}'
                sterm = f'res_agree of_eqb_ofl_noname (S_frame_mask {oflit} {rk.ocoq()} {ck.ocoq()}) {obs}'
        after = snapshot(f)
        ctx.count(f'random:{op}', f'random:columns={m}', f'random:blocks={len(layout)}')
        yield Case(f'api:random.{op}.iloc',
                   {'dtypes': [str(d) for d in dts], 'rows': nrows, 'layout': zoo.layout_str(layout), 'call': f'f.{op}.iloc[{key!r}]',
                    'observed': 'raises ' + type(err).__name__ if err is not None else out.values.tolist()},
                   m=mterm, s=sterm, py_fail=None if before == after else f'receiver changed by f.{op}', tags=tags)


# ---------------------------------------------------------------------------------------------- kernels
def kernel_cases(ctx):
    from static_frame.core.util import slice_to_ascending_slice
    from static_frame.core.type_blocks import TypeBlocks
    R = 3 if ctx.tier == 'quick' else 7
    vals = [None] + list(range(-R, R + 1))
    steps = [None, -3, -2, -1, 1, 2, 3]
    for start, stop, step in itertools.product(vals, vals, steps):
        for size in range(0, R + 1):
            k = slice(start, stop, step)
            out = lit.pv_call(slice_to_ascending_slice, k, size)
            neg = step is not None and step < 0
            ctx.count('asc:step<0' if neg else 'asc:step>0')
            # spec check on the implementation itself: same position set, ascending
            want = sorted(range(size)[k])
            try:
                got = list(range(size)[slice_to_ascending_slice(k, size)])
            except Exception as e:  # noqa
                got = type(e).__name__
            py_fail = None
            if got != want:
                py_fail = f'slice_to_ascending_slice({k},{size}) selects {got}, key selects {want}'
            yield Case('kernel:slice_to_ascending_slice',
                       {'call': 'static_frame.core.util.slice_to_ascending_slice', 'key': [start, stop, step], 'size': size, 'observed': out},
                       m=f'pv_eqb (slice_to_ascending_slice {lit.pv(k)} {lit.pv(size)}) {out}',
                       py_fail=py_fail,
                       tags={'kernel': 'slice_to_ascending_slice', 'neg_step': neg,
                             'neg_bound': (start is not None and start < 0) or (stop is not None and stop < 0)},
                       nontrivial=neg)
    # _cols_to_slice on every contiguous monotone bundle within 0..R
    for a in range(0, R + 1):
        for b_ in range(0, R + 1):
            bundle = list(range(a, b_ + 1)) if a <= b_ else list(range(a, b_ - 1, -1))
            out = lit.pv_call(TypeBlocks._cols_to_slice, bundle)
            ctx.count('cols_to_slice')
            got = list(range(R + 1)[TypeBlocks._cols_to_slice(bundle)])
            yield Case('kernel:cols_to_slice', {'call': 'TypeBlocks._cols_to_slice', 'indices': bundle, 'observed': out},
                       m=f'pv_eqb (cols_to_slice {lit.pv(bundle)}) {out}',
                       py_fail=None if got == bundle else f'_cols_to_slice({bundle}) selects {got}',
                       tags={'kernel': 'cols_to_slice'}, nontrivial=len(bundle) > 1)


def walk_kernel_cases(ctx):
    """kernel level (plain-Python inputs and outputs, private names): container_util.key_to_ascending_key and
    TypeBlocks._key_to_block_slices(key, retain_key_order=False) against the models' ascending_key / block_slices_for"""
    from static_frame.core.container_util import key_to_ascending_key

    def to_k(obj):
        if isinstance(obj, slice):
            return K('slice', (obj.start, obj.stop, obj.step))
        if isinstance(obj, np.ndarray) and obj.dtype == bool:
            return K('mask', [bool(x) for x in obj])
        if isinstance(obj, (list, np.ndarray)):
            return K('list', [int(x) for x in obj])
        if isinstance(obj, (int, np.integer)):
            return K('int', int(obj))
        raise ValueError(obj)

    for n in range(0, 5):
        keys = small_keys(n, ctx.tier, ctx.rng, slices=True)
        for k in keys:
            if k.kind == 'all':
                continue
            out, err = call(lambda: key_to_ascending_key(k.py(), n))
            ctx.count('kernel:key_to_ascending_key:' + k.kind)
            if err is not None:
                continue
            yield Case('kernel:key_to_ascending_key', {'call': 'container_util.key_to_ascending_key', 'key': k.desc(), 'size': n, 'observed': to_k(out).desc()},
                       m=f'ckey_eqb (ascending_key {k.coq()} {lit.z(n)} {lit.b(k.kind in ("array", "mask"))}) {to_k(out).coq()}',
                       tags={'kernel': 'key_to_ascending_key'}, nontrivial=k.kind != 'int')
    for pname, dts, layout, level in frame_universe(ctx):
        m = len(dts)
        if pname != 'I' or m == 0:
            continue
        f = build_frame(dts, 2, layout)
        tlit = tb_lit(f)
        for ck, _ in key_plan(ctx, m, level):
            if ck.kind == 'none':
                continue

            def run():
                out = []
                for bi, tgt in f._blocks._key_to_block_slices(ck.py() if ck.kind != 'all' else None, retain_key_order=False):
                    out.append((bi, tgt if isinstance(tgt, slice) else slice(tgt, tgt + 1)))     # an integer target = a one-column slice in the model
                return out
            out, err = call(run)
            ctx.count('kernel:key_to_block_slices:' + ck.kind)
            obs = res_lit(out, err, lambda o: lit.lst([f'({lit.z(bi)}, {lit.slice_(sl)})' for bi, sl in o]))
            yield Case('kernel:_key_to_block_slices(ascending)',
                       {'call': 'TypeBlocks._key_to_block_slices(key, retain_key_order=False)', 'layout': zoo.layout_str(layout), 'key': ck.desc(),
                        'observed': 'raises ' + type(err).__name__ if err is not None else [[bi, [sl.start, sl.stop, sl.step]] for bi, sl in out]},
                       m=f'res_same targets_eqb (block_slices_for false {tlit} {ck.coq()}) {obs}',
                       tags={'kernel': 'key_to_block_slices'}, nontrivial=bool(out))


# the specification side alone: nothing here depends on Gen/Gen_c08.v or on the block-walk models, so S can still be
# evaluated (failing-input search) when generate() fails closed or a model no longer builds
IMPORTS_SPEC_ONLY = 'Require Import SF.Prelude SF.PySlice SF.Dtype SF.Value SF.Blocks SF.UpdateSpec SF.UpdateFrameSpec.'
IMPORTS = ('Require Import SF.Prelude SF.PySlice SF.Dtype SF.Value SF.PyDyn SF.Blocks SF.UpdateSpec SF.BlocksUpdate SF.UpdateFrame '
           'Gen.Gen_util Gen.Gen_type_blocks.\n'
           'Definition c08_resolve (a b : dtype) : dtype := match resolve_dtype (PDtype a) (PDtype b) with PDtype r => r | _ => DObj end.')


# recorded KIND of outcome of the known findings that are exception-shaped: a tag set from the input class survives only
# when the implementation raised exactly this class (the others compute their outcome where they are tagged)
FINDING_OUTCOME = {F_DROPALL: ('raises:ErrorInitFrame',), F_ZERO: ('raises:ErrorInitTypeBlocks',), F_ASTYPEBOOL: ('raises:ValueError',)}


def cases(ctx):
    for c in _all_cases(ctx):
        fid = c.tags.get('finding')
        if fid in FINDING_OUTCOME:
            obs = c.desc.get('observed')
            outcome = ('raises:' + obs[len('raises '):]) if isinstance(obs, str) and obs.startswith('raises ') else 'returns'
            c.tags['outcome'] = outcome
            if outcome not in FINDING_OUTCOME[fid]:
                c.tags['finding_not_claimed'] = c.tags.pop('finding')     # same input class, a DIFFERENT outcome: not excused
        yield c


def _all_cases(ctx):
    yield from kernel_cases(ctx)
    yield from walk_kernel_cases(ctx)
    yield from drop_mask_cases(ctx)
    yield from assign_unit_cases(ctx)
    yield from assign_labelled_cases(ctx)
    yield from assign_forms_cases(ctx)
    yield from assign_bloc_cases(ctx)
    yield from assign_bloc_coordinate_cases(ctx)
    yield from go_alias_cases(ctx)
    yield from assign_value_relations_cases(ctx)
    yield from hierarchy_cases(ctx)
    yield from dtype_kind_cases(ctx)
    yield from malformed_bloc_cases(ctx)
    yield from drop_mask_forms_cases(ctx)
    yield from astype_cases(ctx)
    yield from insert_cases(ctx)
    yield from relabel_rename_cases(ctx)
    yield from series_cases(ctx)
    yield from malformed_cases(ctx)
    yield from random_cases(ctx)
