'''C08 -- functional update interfaces change only what they address.'''
import itertools

import numpy as np

from .. import lit
from .. import zoo
from ..core import Case

ID = 'C08'
MANIFEST = {
    'text': ('Coq theorem C08_asc_slice_correct about the kernel util.slice_to_ascending_slice REGENERATED from /repo on every run: for every slice key and axis '
             'length the ascending slice used by drop/mask/assign denotes exactly the key positions in ascending order (unbounded, by arithmetic proof); '
             'kernel-level exhaustive-grid correspondence of the regenerated kernels with the implementation.'),
    'note': ('trusted: Coq kernel, py2v translator (validated per run on an exhaustive grid), PyDyn dynamic-value semantics, harness. '
             'Partial: the block-walking assign/drop/mask algorithms above the kernel are covered by API-level correspondence, not yet by a refinement theorem.'),
}
PROPERTY_FILES = ['Properties/C08.v']
REFUTED_FILES = ['Refuted/C08.v']
MODEL_FILES = ['SF/PyDyn.v', 'Gen/Gen_util.v', 'Gen/Gen_type_blocks.v', 'SF/UpdateFrame.v']
TRANSLATED = ['slice_to_ascending_slice', 'cols_to_slice']
RULE = ('kernel stratum: exhaustive grid of slices (start/stop in None,-R..R; step in None,-3..3 without 0) x size 0..R '
        'through util.slice_to_ascending_slice called directly, compared with the regenerated Gallina definition; '
        'a case is non-trivial when the key has a negative step (the function is the identity otherwise); distinct = distinct (key,size)')
ASSUMPTIONS = ['Python int = Z, // and % = Z.div / Z.modulo (floor)']
EXHAUSTIVE = {'quick': False, 'thorough': False}

# ---------------------------------------------------------------------------------------------- base data
ROW_LABELS = ('x', 'y', 'z', 'w', 'v')
COL_LABELS = ('a', 'b', 'c', 'd', 'e', 'f', 'g')
NAME = 'nm'

I8, F8, B1, U2, OB = np.dtype('int64'), np.dtype('float64'), np.dtype(bool), np.dtype('<U2'), np.dtype(object)


def _cell(dt, i, j):
    if dt == I8:
        return 10 * (j + 1) + i
    if dt == F8:
        return 10.0 * (j + 1) + i + 0.5
    if dt == B1:
        return (i + j) % 2 == 0
    if dt == U2:
        return f'{"pqrstuv"[j]}{i}'
    if dt == OB:
        return (None, 'o', 7, 2.5, True)[(i + j) % 5]
    raise ValueError(dt)


def column(dt, j, nrows):
    a = np.empty(nrows, dtype=dt)
    for i in range(nrows):
        a[i] = _cell(dt, i, j)
    a.flags.writeable = False
    return a


# dtype patterns of the exhaustive strata: every block layout compatible with each is enumerated
POOLS = {
    'I': (I8, I8, I8, I8),          # every composition is a legal layout
    'M': (I8, I8, F8, B1),
    'S': (U2, I8, I8, OB),
}


def build_frame(dtypes, nrows, layout, cls=None, name=NAME):
    import static_frame as sf
    cols = [column(dt, j, nrows) for j, dt in enumerate(dtypes)]
    return zoo.frame_from_columns(cols, layout, index=sf.Index(ROW_LABELS[:nrows]), columns=sf.Index(COL_LABELS[:len(dtypes)]),
                                  name=name, cls=cls)


def layout_lit(layout):
    return lit.lst([f'({lit.z(w)}, {lit.b(d)})' for w, d in layout])


def frame_columns(fr):
    '''the columns as 1-D arrays read straight from the block arrays (no extraction code involved)'''
    out = []
    for b in fr._blocks._blocks:
        if b.ndim == 1:
            out.append(b)
        else:
            out.extend(b[:, j] for j in range(b.shape[1]))
    return out


def cols_lit(fr):
    return lit.lst([f'({lit.dtype(a.dtype)}, {lit.vlist(lit.array_vals(a))})' for a in frame_columns(fr)])


def oframe_lit(fr):
    return f'(mk_oframe {lit.vlist(lit.labels(fr.index))} {lit.vlist(lit.labels(fr.columns))} {cols_lit(fr)} {lit.val(fr.name)})'


def mframe_lit(fr):
    '''the frame WITH its block layout'''
    return (f'(mk_mframe {lit.vlist(lit.labels(fr.index))} {lit.vlist(lit.labels(fr.columns))} '
            f'(build_tb {layout_lit(zoo.layout_of(fr))} {cols_lit(fr)}) {lit.val(fr.name)})')


def ofl_lit(fr):
    '''observed frame + observed layout'''
    return f'({oframe_lit(fr)}, {layout_lit(zoo.layout_of(fr))})'


def snapshot(obj):
    '''everything observable of a container, to decide "left exactly as it was"'''
    import static_frame as sf
    if isinstance(obj, sf.Series):
        return ('S', lit.oseries(obj), repr(obj.index.name), obj.values.flags.writeable)
    return ('F', oframe_lit(obj), layout_lit(zoo.layout_of(obj)), repr(obj.index.name), repr(obj.columns.name),
            tuple(b.flags.writeable for b in obj._blocks._blocks))


# ---------------------------------------------------------------------------------------------- keys
class K:
    '''a positional key: kind in none|all|int|slice|list|array|mask'''
    __slots__ = ('kind', 'v')

    def __init__(self, kind, v=None):
        self.kind, self.v = kind, v

    def py(self):
        if self.kind == 'none':
            return None
        if self.kind == 'all':
            return slice(None)
        if self.kind == 'int':
            return int(self.v)
        if self.kind == 'slice':
            return slice(*self.v)
        if self.kind == 'list':
            return list(self.v)
        if self.kind == 'array':
            return np.array(self.v, dtype=np.int64)
        if self.kind == 'mask':
            return np.array(self.v, dtype=bool)
        raise ValueError(self.kind)

    def coq(self):
        '''Coq ckey'''
        if self.kind == 'all':
            return 'CAll'
        if self.kind == 'int':
            return f'(CInt {lit.z(self.v)})'
        if self.kind == 'slice':
            return f'(CSlice {lit.slice_(slice(*self.v))})'
        if self.kind in ('list', 'array'):
            return '(CList ' + lit.lst([lit.z(x) for x in self.v]) + ')'
        if self.kind == 'mask':
            return '(CMask ' + lit.lst([lit.b(x) for x in self.v]) + ')'
        raise ValueError(self.kind)

    def ocoq(self):
        '''Coq option ckey (None = no key given)'''
        return 'None' if self.kind == 'none' else f'(Some {self.coq()})'

    def desc(self):
        return [self.kind, self.v if self.kind != 'slice' else list(self.v)]

    def positions(self, n):
        '''positions denoted on an axis of length n (None when the key is invalid there); order as given'''
        try:
            if self.kind == 'none':
                return None
            if self.kind == 'all':
                return list(range(n))
            if self.kind == 'int':
                return [range(n)[self.v]]
            if self.kind == 'slice':
                return list(range(n)[slice(*self.v)])
            if self.kind in ('list', 'array'):
                return [range(n)[x] for x in self.v]
            if self.kind == 'mask':
                if len(self.v) != n:
                    return None
                return [i for i, x in enumerate(self.v) if x]
        except (IndexError, ValueError):
            return None


NONE, ALL = K('none'), K('all')


def has_negative(k):
    if k.kind == 'int':
        return k.v < 0
    if k.kind in ('list', 'array'):
        return any(x < 0 for x in k.v)
    return False


def slice_grid(n, R):
    '''every slice with start/stop in None,-R..R and step in None,-3..3 (no 0), deduplicated by what decides the
    walk: (positions denoted in key order, sign class of the bounds)'''
    vals = [None] + list(range(-R, R + 1))
    seen = set()
    for a, b, c in itertools.product(vals, vals, (None, 1, 2, 3, -1, -2, -3)):
        ps = tuple(range(n)[slice(a, b, c)])
        sig = (ps, a is not None and a < 0, b is not None and b < 0, c is not None and c < 0, a is None, b is None)
        if sig in seen:
            continue
        seen.add(sig)
        yield K('slice', (a, b, c))


def small_keys(n, tier, rng, slices=True):
    '''valid keys of every kind on an axis of length n'''
    out = [ALL]
    out += [K('int', i) for i in range(-n, n)]
    if slices:
        out += list(slice_grid(n, 6 if tier == 'thorough' else 3))
    # lists: every non-empty duplicate-free sequence of non-negative positions (order matters) for n <= 3, sampled above
    seqs = [p for r in range(0, n + 1) for p in itertools.permutations(range(n), r)]
    if len(seqs) > 20 and tier == 'quick':
        seqs = seqs[:6] + rng.sample(seqs[6:], 14)
    out += [K('list', list(p)) for p in seqs]
    out += [K('array', list(p)) for p in seqs[1::3]]
    # lists with negative positions (candidate finding D2 when not in positional order)
    for p in seqs[1::2]:
        q = [x - n if (i + len(p)) % 2 == 0 else x for i, x in enumerate(p)]
        if any(x < 0 for x in q):
            out.append(K('list', q))
    out += [K('mask', list(m)) for m in itertools.product((False, True), repeat=n)]
    return out


# ---------------------------------------------------------------------------------------------- findings
F_NEGLIST = 'C08-negative-positions-in-list-key'
F_DROPALL = 'C08-drop-all-columns-with-rows'
F_ZERO = 'C08-zero-columns'


def asc_after_sorted(k, n):
    '''True when sorted(raw key) denotes ascending positions (so the ascending block walk is sound)'''
    if k.kind not in ('list', 'array'):
        return True
    ps = [x + n if x < 0 else x for x in sorted(k.v)]
    return all(a <= b for a, b in zip(ps, ps[1:]))


def call(fn):
    try:
        return fn(), None
    except Exception as e:  # noqa
        return None, e


def res_lit(out, err, printer):
    if err is not None:
        return f'(Err {lit.s(lit.err_class(err))})'
    return f'(Ok {printer(out)})'


# ---------------------------------------------------------------------------------------------- drop / mask
def frame_universe(ctx):
    """(pool name, dtypes, layout, representative) of the exhaustive strata: every layout of every prefix of every pool;
    `representative` marks three layouts per width (all 1-D, fewest blocks, a mixed one) that also get the wide key set
    in the quick tier"""
    for pname, dts in POOLS.items():
        for m in range(0, 5):
            if pname != 'I' and m < 2:
                continue
            lays = list(zoo.layouts_for(dts[:m]))
            reps = {lays[0], lays[-1], lays[len(lays) // 2]} if pname == 'I' else {lays[len(lays) // 2]}
            for layout in lays:
                yield pname, dts[:m], layout, layout in reps


ROW_KEYS = [NONE, ALL, K('int', 1), K('int', -1), K('slice', (1, None, None)), K('slice', (None, None, -2)),
            K('list', [2, 0]), K('list', [-1, 0]), K('mask', [True, False, True]), K('list', [])]


def key_plan(ctx, m, rep):
    """(column key, [row keys]) pairs for one frame: every subset of the columns (as a Boolean mask) on EVERY layout;
    the other key kinds (they differ only in how the key becomes ascending positions, which does not depend on the
    layout) on every layout in the thorough tier and on the representative layouts in the quick tier"""
    rot = 0
    wide = rep or ctx.tier == 'thorough'
    for ck in [NONE] + small_keys(m, ctx.tier, ctx.rng, slices=wide):
        if not wide and ck.kind not in ('mask', 'none', 'all'):
            continue
        rot += 1
        if wide and (ck.kind in ('none', 'all') or (ck.kind == 'list' and len(ck.v) == 1)):
            yield ck, ROW_KEYS
        elif ctx.tier == 'thorough':
            yield ck, [NONE, ROW_KEYS[rot % len(ROW_KEYS)]]
        else:
            yield ck, [ROW_KEYS[rot % len(ROW_KEYS)]]


def classify(op, ck, rk, m, nrows):
    """finding tags decided from the INPUT alone"""
    tags = {}
    cps, rps = ck.positions(m), rk.positions(nrows)
    if ck.kind in ('list', 'array') and has_negative(ck) and not asc_after_sorted(ck, m):
        tags['finding'] = F_NEGLIST
    elif op == 'drop' and rps and (m == 0 or (cps is not None and len(set(cps)) == m)):
        tags['finding'] = F_DROPALL
    elif op == 'mask' and m == 0:
        tags['finding'] = F_ZERO
    return tags


def drop_mask_cases(ctx):
    nrows = 3
    for pname, dts, layout, rep in frame_universe(ctx):
        m = len(dts)
        f = build_frame(dts, nrows, layout)
        flit = mframe_lit(f)
        oflit = oframe_lit(f)
        for ck, rks in key_plan(ctx, m, rep):
            for rk in rks:
                for op in ('drop', 'mask'):
                    if op == 'mask' and rk.kind == 'none' and ck.kind == 'none':
                        continue
                    if op == 'drop' and m == 0 and ck.kind != 'none':
                        continue        # deliberately rejected: 'cannot drop columns from zero-blocks'
                    before = snapshot(f)
                    key = rk.py() if ck.kind == 'none' else (rk.py(), ck.py())
                    out, err = call(lambda: getattr(f, op).iloc[key])
                    after = snapshot(f)
                    cps = ck.positions(m)
                    rps = rk.positions(nrows)
                    tags = {'op': op, 'form': 'iloc', 'ckind': ck.kind, 'rkind': rk.kind}
                    tags.update(classify(op, ck, rk, m, nrows))
                    ctx.count(f'{op}:ck={ck.kind}', f'{op}:rk={rk.kind}', f'layout:{zoo.layout_str(layout) or "empty"}',
                              'outcome:' + ('ok' if err is None else lit.err_class(err)))
                    obs = res_lit(out, err, ofl_lit)
                    if op == 'drop':
                        mterm = f'res_same ofl_eqb (M_frame_drop {flit} {rk.ocoq()} {ck.ocoq()}) {obs}'
                        sterm = f'res_agree of_eqb_ofl (S_frame_drop {oflit} {rk.ocoq()} {ck.ocoq()}) {obs}'
                    else:
                        mterm = f'res_same ofl_eqb_noname (M_frame_mask {flit} {rk.ocoq()} {ck.ocoq()}) {obs}'
                        sterm = f'res_agree of_eqb_ofl_noname (S_frame_mask {oflit} {rk.ocoq()} {ck.ocoq()}) {obs}'
                    yield Case(f'api:frame.{op}.iloc',
                               {'pool': pname, 'columns': m, 'rows': nrows, 'layout': zoo.layout_str(layout), 'call': f'f.{op}.iloc[row_key, column_key]',
                                'row_key': rk.desc(), 'column_key': ck.desc(),
                                'observed': 'raises ' + type(err).__name__ if err is not None else [lit.labels(out.index), lit.labels(out.columns), out.values.tolist() if out.size else []]},
                               m=mterm, s=sterm,
                               py_fail=None if before == after else f'receiver changed by f.{op}.iloc[{key!r}]',
                               tags=tags,
                               nontrivial=bool(cps) or bool(rps))


# ---------------------------------------------------------------------------------------------- label forms of a key
def loc_key(k, labels, reorder=False):
    """a label key with the same meaning as the positional key k on an axis with these labels; None when the key has
    no label form (negative-step / out-of-range slices).  Boolean keys stay Boolean arrays (or become a Boolean
    Series, reordered, when `reorder`)."""
    import static_frame as sf
    n = len(labels)
    if k.kind == 'none':
        return None
    if k.kind == 'all':
        return slice(None)
    if k.kind == 'int':
        return labels[k.v]
    if k.kind in ('list', 'array'):
        out = [labels[x] for x in k.v]
        return out if k.kind == 'list' else np.array(out, dtype=object if any(not isinstance(x, str) for x in out) else None) if out else out
    if k.kind == 'mask':
        if reorder:
            order = list(range(n))[::-1]
            return sf.Series([k.v[i] for i in order], index=[labels[i] for i in order])
        return np.array(k.v, dtype=bool)
    if k.kind == 'slice':
        a, b, c = k.v
        if c not in (None, 1) or (a is not None and not 0 <= a < n) or (b is not None and not 0 < b <= n):
            return None
        ps = list(range(n)[slice(a, b, c)])
        if not ps:
            return None
        return slice(None if a is None else labels[a], None if b is None else labels[b - 1])
    raise ValueError(k.kind)


# ---------------------------------------------------------------------------------------------- assign
F_BOOLSORT = 'C08-assign-iloc-boolean-array-column-key'

ELEMS = [-5, 2.5, 'zz', None, True, 0]


def aval_elem(x):
    return f'(AElem {lit.val(x)})'


def aval_mat(B, rows_multi, cols_multi, nr_sel, nc_sel):
    """B: object ndarray broadcast to the selection; -> AMat m with m[j][i] (j-th addressed column ascending, i-th row key element)"""
    if rows_multi and cols_multi:
        get = lambda i, j: B[i, j]
    elif rows_multi:
        get = lambda i, j: B[i]
    elif cols_multi:
        get = lambda i, j: B[j]
    else:
        get = lambda i, j: B[()]
    return '(AMat ' + lit.lst([lit.vlist([get(i, j) for i in range(nr_sel)]) for j in range(nc_sel)]) + ')'


def sel_shape(rk, ck, rps, cps):
    shape = ()
    if rk.kind != 'int':
        shape += (len(rps),)
    if ck.kind != 'int':
        shape += (len(cps),)
    return shape


def unit_values(rk, ck, rps, cps, rot):
    """(description, python value, Coq aval, sliceable) for unlabelled values that NumPy can broadcast to the selection"""
    shape = sel_shape(rk, ck, rps, cps)
    rows_multi, cols_multi = rk.kind != 'int', ck.kind != 'int'
    e = ELEMS[rot % len(ELEMS)]
    yield ('element', e, aval_elem(e), False)
    cands = []
    if shape:
        # an array of the selection's shape, distinct cells
        a = (np.arange(int(np.prod(shape)), dtype=np.int64).reshape(shape) + 100) if rot % 2 == 0 else \
            (np.arange(int(np.prod(shape)), dtype=np.float64).reshape(shape) / 2 - 3)
        cands.append(('array' + str(len(shape)) + 'd', a))
        if len(shape) == 2:
            cands.append(('array1d-along-columns', np.arange(shape[1], dtype=np.int64) - 50))
        if cols_multi and not rows_multi:
            cands.append(('tuple', tuple((7, 'tt', 1.5, None, False)[(rot + j) % 5] for j in range(shape[0]))))
    for name, v in cands:
        try:
            B = np.broadcast_to(np.array(v, dtype=object) if not isinstance(v, tuple) else _obj1d(v), shape)
        except ValueError:
            continue
        if B.size == 0:
            continue
        yield (name, v, aval_mat(B, rows_multi, cols_multi, len(rps), len(cps)), True)


def _obj1d(t):
    a = np.empty(len(t), dtype=object)
    for i, x in enumerate(t):
        a[i] = x
    return a


def vdt_lit(value):
    from static_frame.core.util import dtype_from_element
    return lit.dtype(dtype_from_element(value))


RESOLVE = 'c08_resolve'


def assign_tags(form, ck, rk, m, asarray_mask):
    tags = {'op': 'assign', 'form': form, 'ckind': ck.kind, 'rkind': rk.kind}
    if m == 0:
        tags['finding'] = F_ZERO
    elif ck.kind in ('list', 'array') and has_negative(ck) and not asc_after_sorted(ck, m):
        tags['finding'] = F_NEGLIST
    elif asarray_mask and sorted(ck.v) != list(ck.v):
        tags['finding'] = F_BOOLSORT
    return tags


def assign_unit_cases(ctx):
    nrows = 3
    rot = 0
    for pname, dts, layout, rep in frame_universe(ctx):
        m = len(dts)
        f = build_frame(dts, nrows, layout)
        flit, oflit = mframe_lit(f), oframe_lit(f)
        for ck, rks in key_plan(ctx, m, rep):
            for rk in rks[:3]:
                cps, rps = ck.positions(m), rk.positions(nrows)
                if ck.kind == 'none':
                    cps = list(range(m))
                if rk.kind == 'none':
                    rps = list(range(nrows))
                if cps is None or rps is None:
                    continue
                rot += 1
                key = rk.py() if ck.kind == 'none' else (rk.py(), ck.py())
                for vname, value, aval, sliceable in unit_values(rk, ck, rps, sorted(cps), rot):
                    if vname != 'element' and ck.kind in ('list', 'array') and sorted(cps) != cps:
                        continue    # the pairing of an unlabelled array with a non-ascending key is not fixed by the property
                    before = snapshot(f)
                    out, err = call(lambda: f.assign.iloc[key](value))
                    after = snapshot(f)
                    tags = assign_tags('iloc', ck, rk, m, ck.kind == 'mask')
                    tags['value'] = vname
                    ctx.count(f'assign:ck={ck.kind}', f'assign:rk={rk.kind}', f'assign:value={vname}',
                              'outcome:' + ('ok' if err is None else lit.err_class(err)))
                    obs = res_lit(out, err, ofl_lit)
                    is_slice = ck.kind != 'int'
                    mterm = (f'res_same ofl_same (M_frame_assign_unit {flit} {rk.ocoq()} {ck.ocoq()} {lit.b(ck.kind in ("array", "mask"))} '
                             f'{lit.b(is_slice)} {lit.b(sliceable)} {aval} {vdt_lit(value)} {RESOLVE}) {obs}')
                    sterm = (f'S_frame_assign_ok {oflit} {rk.ocoq()} {ck.ocoq()} {aval} VNaN {oframe_lit(out)}' if err is None else 'false')
                    yield Case('api:frame.assign.iloc(unit)',
                               {'pool': pname, 'columns': m, 'rows': nrows, 'layout': zoo.layout_str(layout),
                                'call': 'f.assign.iloc[row_key, column_key](value)', 'row_key': rk.desc(), 'column_key': ck.desc(),
                                'value': vname + ':' + repr(value if not isinstance(value, np.ndarray) else value.tolist()),
                                'observed': 'raises ' + type(err).__name__ if err is not None else out.values.tolist()},
                               m=mterm, s=sterm,
                               py_fail=None if before == after else f'receiver changed by f.assign.iloc[{key!r}]',
                               tags=tags, nontrivial=bool(cps) and bool(rps))


# ---------------------------------------------------------------------------------------------- kernels
def kernel_cases(ctx):
    from static_frame.core.util import slice_to_ascending_slice
    from static_frame.core.type_blocks import TypeBlocks
    R = 4 if ctx.tier == 'quick' else 7
    vals = [None] + list(range(-R, R + 1))
    steps = [None, -3, -2, -1, 1, 2, 3]
    for start, stop, step in itertools.product(vals, vals, steps):
        for size in range(0, R + 1):
            k = slice(start, stop, step)
            out = lit.pv_call(slice_to_ascending_slice, k, size)
            neg = step is not None and step < 0
            ctx.count('asc:step<0' if neg else 'asc:step>0')
            # spec check on the implementation itself: same position set, ascending
            want = sorted(range(size)[k])
            try:
                got = list(range(size)[slice_to_ascending_slice(k, size)])
            except Exception as e:  # noqa
                got = type(e).__name__
            py_fail = None
            if got != want:
                py_fail = f'slice_to_ascending_slice({k},{size}) selects {got}, key selects {want}'
            yield Case('kernel:slice_to_ascending_slice',
                       {'call': 'static_frame.core.util.slice_to_ascending_slice', 'key': [start, stop, step], 'size': size, 'observed': out},
                       m=f'pv_eqb (slice_to_ascending_slice {lit.pv(k)} {lit.pv(size)}) {out}',
                       py_fail=py_fail,
                       tags={'kernel': 'slice_to_ascending_slice', 'neg_step': neg,
                             'neg_bound': (start is not None and start < 0) or (stop is not None and stop < 0)},
                       nontrivial=neg)
    # _cols_to_slice on every contiguous monotone bundle within 0..R
    for a in range(0, R + 1):
        for b_ in range(0, R + 1):
            bundle = list(range(a, b_ + 1)) if a <= b_ else list(range(a, b_ - 1, -1))
            out = lit.pv_call(TypeBlocks._cols_to_slice, bundle)
            ctx.count('cols_to_slice')
            got = list(range(R + 1)[TypeBlocks._cols_to_slice(bundle)])
            yield Case('kernel:cols_to_slice', {'call': 'TypeBlocks._cols_to_slice', 'indices': bundle, 'observed': out},
                       m=f'pv_eqb (cols_to_slice {lit.pv(bundle)}) {out}',
                       py_fail=None if got == bundle else f'_cols_to_slice({bundle}) selects {got}',
                       tags={'kernel': 'cols_to_slice'}, nontrivial=len(bundle) > 1)


IMPORTS = ('Require Import SF.Prelude SF.PySlice SF.Dtype SF.Value SF.PyDyn SF.Blocks SF.UpdateSpec SF.BlocksUpdate SF.UpdateFrame '
           'Gen.Gen_util Gen.Gen_type_blocks.\n'
           'Definition c08_resolve (a b : dtype) : dtype := match resolve_dtype (PDtype a) (PDtype b) with PDtype r => r | _ => DObj end.')


def cases(ctx):
    yield from kernel_cases(ctx)
    yield from drop_mask_cases(ctx)
    yield from assign_unit_cases(ctx)
