'''C08 -- functional update interfaces change only what they address.'''
import itertools

from .. import lit
from ..core import Case

ID = 'C08'
MANIFEST = {
    'text': ('Coq theorem C08_asc_slice_correct about the kernel util.slice_to_ascending_slice REGENERATED from /repo on every run: for every slice key and axis '
             'length the ascending slice used by drop/mask/assign denotes exactly the key positions in ascending order (unbounded, by arithmetic proof); '
             'kernel-level exhaustive-grid correspondence of the regenerated kernels with the implementation.'),
    'note': ('trusted: Coq kernel, py2v translator (validated per run on an exhaustive grid), PyDyn dynamic-value semantics, harness. '
             'Partial: the block-walking assign/drop/mask algorithms above the kernel are covered by API-level correspondence, not yet by a refinement theorem.'),
}
PROPERTY_FILES = ['Properties/C08.v']
REFUTED_FILES = []
MODEL_FILES = ['SF/PyDyn.v', 'Gen/Gen_util.v', 'Gen/Gen_type_blocks.v']
TRANSLATED = ['slice_to_ascending_slice', 'cols_to_slice']
IMPORTS = 'Require Import SF.Prelude SF.PySlice SF.Dtype SF.PyDyn Gen.Gen_util Gen.Gen_type_blocks.'
RULE = ('kernel stratum: exhaustive grid of slices (start/stop in None,-R..R; step in None,-3..3 without 0) x size 0..R '
        'through util.slice_to_ascending_slice called directly, compared with the regenerated Gallina definition; '
        'a case is non-trivial when the key has a negative step (the function is the identity otherwise); distinct = distinct (key,size)')
ASSUMPTIONS = ['Python int = Z, // and % = Z.div / Z.modulo (floor)']
EXHAUSTIVE = {'quick': False, 'thorough': False}


def kernel_cases(ctx):
    from static_frame.core.util import slice_to_ascending_slice
    from static_frame.core.type_blocks import TypeBlocks
    R = 4 if ctx.tier == 'quick' else 7
    vals = [None] + list(range(-R, R + 1))
    steps = [None, -3, -2, -1, 1, 2, 3]
    for start, stop, step in itertools.product(vals, vals, steps):
        for size in range(0, R + 1):
            k = slice(start, stop, step)
            out = lit.pv_call(slice_to_ascending_slice, k, size)
            neg = step is not None and step < 0
            ctx.count('asc:step<0' if neg else 'asc:step>0')
            # spec check on the implementation itself: same position set, ascending
            want = sorted(range(size)[k])
            try:
                got = list(range(size)[slice_to_ascending_slice(k, size)])
            except Exception as e:  # noqa
                got = type(e).__name__
            py_fail = None
            if got != want:
                py_fail = f'slice_to_ascending_slice({k},{size}) selects {got}, key selects {want}'
            yield Case('kernel:slice_to_ascending_slice',
                       {'call': 'static_frame.core.util.slice_to_ascending_slice', 'key': [start, stop, step], 'size': size, 'observed': out},
                       m=f'pv_eqb (slice_to_ascending_slice {lit.pv(k)} {lit.pv(size)}) {out}',
                       py_fail=py_fail,
                       tags={'kernel': 'slice_to_ascending_slice', 'neg_step': neg,
                             'neg_bound': (start is not None and start < 0) or (stop is not None and stop < 0)},
                       nontrivial=neg)
    # _cols_to_slice on every contiguous monotone bundle within 0..R
    for a in range(0, R + 1):
        for b_ in range(0, R + 1):
            bundle = list(range(a, b_ + 1)) if a <= b_ else list(range(a, b_ - 1, -1))
            out = lit.pv_call(TypeBlocks._cols_to_slice, bundle)
            ctx.count('cols_to_slice')
            got = list(range(R + 1)[TypeBlocks._cols_to_slice(bundle)])
            yield Case('kernel:cols_to_slice', {'call': 'TypeBlocks._cols_to_slice', 'indices': bundle, 'observed': out},
                       m=f'pv_eqb (cols_to_slice {lit.pv(bundle)}) {out}',
                       py_fail=None if got == bundle else f'_cols_to_slice({bundle}) selects {got}',
                       tags={'kernel': 'cols_to_slice'}, nontrivial=len(bundle) > 1)


def cases(ctx):
    yield from kernel_cases(ctx)
