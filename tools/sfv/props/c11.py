'''C11 -- concatenation and overlay keep every input cell exactly once, aligned by label.'''
import itertools

import numpy as np

from .. import lit
from .. import zoo
from ..core import Case

ID = 'C11'
MANIFEST = {
    'text': ('Coq: an executable implementation model M of Frame.from_concat (both axes: index_many_set/ufunc_set_iter with the order-preserving '
             'shortcuts, IndexCorrespondence + TypeBlocks.resize_blocks with its three column paths and the row path, the block_compatible / '
             'reblock_compatible flags and the three strategies of vstack_blocks_to_blocks, concat_resolved, from_blocks), of from_concat_items / '
             'Series.from_concat(_items) (IndexHierarchy.from_index_items) and of Frame/Series.from_overlay (reindex on both axes, fillna_by_values '
             'block walk, Series.fillna), with util.resolve_dtype and dtype_kind_to_na REGENERATED from /repo on every run. Theorems (unbounded, all block '
             'layouts): C11_vstack_strategies_agree (all three strategies = column-wise stack), C11_aligned_axis_is_union_or_intersection, '
             'C11_reindex_columns_by_label, C11_reindex_rows_by_label, C11_concat_axis0_refines / C11_concat_axis1_refines (whole pipeline M = label-level '
             'specification S), C11_concat_duplicates_fail, C11_concat_cells_by_label (each result cell = the cell of the input holding that row label, or '
             'the fill), C11_concat_items_labels ([(key, label)], duplicate-free), C11_overlay_fillna_blocks_refines, C11_overlay_cell_step, '
             'C11_overlay_first_nonmissing. Correspondence: the public constructors are run on generated inputs (every layout pair of 3-column frames, '
             'random label overlaps/permutations, dtype mixes, explicit/auto index, generators, Series inputs, malformed stream) and M and S are '
             'evaluated inside Coq on the same inputs: M must reproduce labels, block layout, dtypes and cells exactly; S decides violations by label.'),
    'note': ('trusted: Coq kernel, py2v translator for the two regenerated kernels, the hand-written model M (tied to the code only by the correspondence '
             'cases of this run), harness/literal printer, Series.to_frame for Series inputs, NumPy sort order of int/str labels, cast model (int -> float '
             'exact: generated ints are small). Partial: S compares cells up to numeric widening (dtype choice is C07); label dtype coercion between '
             'indices (e.g. an empty float64 index) is outside; names are not compared; the overlay theorems are about the block '
             'walk and the per-cell fold, the end-to-end overlay M = S is observed by correspondence, not proved. Five known findings (zero-size results that raise) are listed in known/C11.jsonl; the both-axes reindex defect found here was repaired (658b4ce) and is kept as regression cases.'),
    'technique': 'refinement proof (implementation model = label-level specification, all block layouts) + differential correspondence through the public constructors',
}
PROPERTY_FILES = ['Properties/C11.v']
REFUTED_FILES = ['Refuted/C11.v']
MODEL_FILES = ['SF/Concat.v', 'SF/ConcatVal.v']
IMPORTS = 'Require Import SF.Prelude SF.Dtype SF.Value SF.Blocks SF.Concat SF.ConcatVal.'
RULE = ('strata: witness (fixed minimal replay of every known finding); api:from_concat-all-layouts (EVERY pair of block layouts of 3-column frames over the '
        'dtype patterns, identical labels, so the vstack strategy is decided by the layouts alone; thorough adds all int/float/str patterns, widths 1-4 and '
        'sampled triples); api:from_concat (random: 0..4 frames, axis, union/intersection, aligned labels same/permuted/overlapping/disjoint, str or int '
        'labels, dtype kinds i/f/b/U/O in random layouts, fill values nan/None/0/str/False, index/columns None/IndexAutoFactory/explicit, generator input; '
        '12% malformed: repeated labels along the axis, wrong-length replacement, IndexAutoFactory on the aligned axis); api:from_concat-series-inputs; '
        'api:series.from_concat; api:from_concat_items and api:series.from_concat_items (repeated outer keys 10%); api:frame.from_overlay and '
        'api:series.from_overlay (missing cells NaN/None, explicit index/columns 12%). A case is non-trivial when it has >= 2 inputs; distinct = distinct '
        'JSON description (inputs with layouts, arguments, observed result).')
ASSUMPTIONS = ['np.union1d / np.intersect1d return the sorted distinct labels (ints by value, ASCII strings by code point); labels of one call are all int or all str',
               'storing a Python int in a float64 array is exact (generated ints are below 2**53); every other resolve_dtype target holds the cell unchanged',
               'isna_array marks exactly NaN / None / NaT cells',
               'Series.to_frame(axis) is the Frame form of a Series input (frame.py:356)']
TRUSTED = []
EXHAUSTIVE = {'quick': False, 'thorough': False}
TRANSLATED = ['resolve_dtype', 'dtype_kind_to_na']
SHARD_SIZE = 250          # a shard of 400 layout cases needs ~0.6 GB in coqc; smaller shards keep the peak down

F_ZERO = 'C11-zero-column-result'


# ----------------------------------------------------------------------------- literals
def col_vals(a):
    return lit.vlist(lit.array_vals(a))


def block_lit(a):
    if a.ndim == 1:
        cols = [col_vals(a)]
    else:
        cols = [col_vals(a[:, j]) for j in range(a.shape[1])]
    return f'(mkb {lit.dtype(a.dtype)} {lit.b(a.ndim == 1)} {lit.lst(cols)})'


def frame_lit(f):
    blocks = [block_lit(b) for b in f._blocks._blocks]
    return f'(mkf {lit.vlist(lit.labels(f.index))} {lit.vlist(lit.labels(f.columns))} {lit.lst(blocks)})'


def res_frame(fn):
    try:
        out = fn()
    except Exception as e:  # noqa
        return f'(Err {lit.s(lit.err_class(e))})', e
    return f'(Ok {frame_lit(out)})', out


def ixarg_lit(arg):
    import static_frame as sf
    if arg is None:
        return 'ixn'
    if arg is sf.IndexAutoFactory:
        return 'ixa'
    return f'(ixg {lit.vlist(list(arg))})'


def ixarg_desc(arg):
    import static_frame as sf
    if arg is None:
        return None
    if arg is sf.IndexAutoFactory:
        return 'IndexAutoFactory'
    return list(arg)


def frame_desc(f):
    return {'index': lit.labels(f.index), 'columns': lit.labels(f.columns),
            'blocks': [{'dtype': str(b.dtype), 'ndim': b.ndim, 'values': b.tolist()} for b in f._blocks._blocks]}


def fill_lits(fill):
    from static_frame.core.util import dtype_from_element
    return lit.dtype(dtype_from_element(fill)), lit.val(fill)


# ----------------------------------------------------------------------------- generators
KINDS = 'ifbUO'
_DT = {'i': np.dtype('int64'), 'f': np.dtype('float64'), 'b': np.dtype('bool'), 'U': None, 'O': np.dtype('object')}


def gen_column(rng, kind, rows):
    '''One column of the given dtype kind; values stay inside the exactly-representable domain.'''
    if kind == 'i':
        return np.array([rng.randint(-9, 99) for _ in range(rows)], dtype='int64')
    if kind == 'f':
        return np.array([rng.choice([np.nan, 0.5, 1.0, -2.5, 3.0, 7.25]) for _ in range(rows)], dtype='float64')
    if kind == 'b':
        return np.array([rng.random() < 0.5 for _ in range(rows)], dtype='bool')
    if kind == 'U':
        return np.array([rng.choice(['p', 'qq', 'r']) for _ in range(rows)], dtype='<U2')
    a = np.empty(rows, dtype=object)
    for i in range(rows):
        a[i] = rng.choice([None, 1, 'w', 2.5, True])
    return a


def dtypes_of(kinds):
    return [np.dtype('<U2') if k == 'U' else _DT[k] for k in kinds]


def gen_frame(rng, index, columns, kinds=None, layout=None):
    '''A Frame with the given labels, random column kinds and a random block layout.'''
    rows, m = len(index), len(columns)
    if kinds is None:
        # runs of equal kinds are likely, so that multi-column blocks exist
        kinds = []
        while len(kinds) < m:
            k = rng.choice(KINDS)
            kinds += [k] * rng.randint(1, 2)
        kinds = kinds[:m]
    cols = [gen_column(rng, k, rows) for k in kinds]
    if layout is None:
        layout = rng.choice(list(zoo.layouts_for(dtypes_of(kinds)))) if m else ()
    return zoo.frame_from_columns(cols, layout, index=list(index), columns=list(columns)), ''.join(kinds), layout


POOLS = {'str': list('abcdefghijklmnop'), 'int': list(range(0, 16))}


def gen_aligned(rng, pool, k, mode, width):
    '''k label lists on the aligned axis.'''
    base = pool[:max(width, 1) + 2]
    if mode == 'same':
        one = rng.sample(base, min(width, len(base)))
        return [list(one) for _ in range(k)]
    if mode == 'perm':
        one = rng.sample(base, min(width, len(base)))
        return [rng.sample(one, len(one)) for _ in range(k)]
    if mode == 'disjoint':
        out, pos = [], 0
        for _ in range(k):
            w = rng.randint(0 if rng.random() < 0.1 else min(1, width), width)
            out.append(pool[pos:pos + w])
            pos += w
        return out
    out = [rng.sample(base, rng.randint(min(1, width), min(width, len(base)))) for _ in range(k)]   # overlap
    if width and rng.random() < 0.7:          # a shared core label, so that intersections are not always empty
        core = base[0]
        out = [l if core in l else l + [core] for l in out]
        out = [rng.sample(l, len(l)) for l in out]
    return out


def gen_along(rng, pool, k, length, unique):
    '''k label lists on the concatenation axis; unique=False allows repeats across inputs.'''
    out, pos = [], 0
    for _ in range(k):
        n = rng.randint(0, length) if rng.random() < 0.15 else rng.randint(min(1, length), length)
        if unique:
            out.append(pool[pos:pos + n])
            pos += n
        else:
            out.append(rng.sample(pool[:length + 2], min(n, length + 2)))
    if unique and rng.random() < 0.5:
        flat = [x for l in out for x in l]
        rng.shuffle(flat)
        it = iter(flat)
        out = [[next(it) for _ in l] for l in out]
    return out


FILLS = [np.nan, np.nan, None, 0, 'zz', False]


def strategy_of(frames_aligned):
    '''Which vstack strategy Frame.from_concat selects for these (already column-aligned) frames.'''
    bc = rc = True
    prev = None
    for f in frames_aligned:
        if prev is not None:
            bc = bc and f._blocks.block_compatible(prev._blocks, axis=1)
            rc = rc and f._blocks.reblock_compatible(prev._blocks)
        prev = f
    return 'block' if bc else ('reblock' if rc else 'column')


def concat_case(ctx, kind, frames, axis, union, index, columns, fill, as_generator=False, extra_tags=None, inputs=None):
    '''Run Frame.from_concat through the public interface and emit the M and S comparisons.
    `inputs` (default: frames) is what is actually passed (may contain Series); `frames` is its Frame form.'''
    import static_frame as sf
    inputs = frames if inputs is None else inputs
    kw = {}
    if fill is not ...:
        kw['fill_value'] = fill
    else:
        fill = np.nan
    arg = (x for x in inputs) if as_generator else tuple(inputs)
    obs, out = res_frame(lambda: sf.Frame.from_concat(arg, axis=axis, union=union, index=index, columns=columns, **kw))
    filldt, fillv = fill_lits(fill)
    args = (f'{lit.b(axis == 1)} {lit.b(union)} {ixarg_lit(index)} {ixarg_lit(columns)} {filldt} {fillv} '
            f'{lit.lst([frame_lit(f) for f in frames])} {obs}')
    # the class of the known finding, decided from the INPUT: >= 1 frame and the result must have no columns
    tags = {'api': 'Frame.from_concat', 'axis': axis, 'union': union}
    if frames:
        if axis == 0:
            if columns is None:
                sets = [set(lit.labels(f.columns)) for f in frames]
                want = set.union(*sets) if union else set.intersection(*sets)
                zero = not want
            else:
                zero = columns is not sf.IndexAutoFactory and len(list(columns)) == 0
        else:
            zero = sum(f.shape[1] for f in frames) == 0
        if zero:
            tags['finding'] = F_ZERO
    if extra_tags:
        tags.update(extra_tags)
    ok = not isinstance(out, Exception)
    ctx.count(f'concat:axis{axis}', f'concat:k={len(frames)}', 'concat:ok' if ok else f'concat:err:{lit.err_class(out)}')
    if ok and axis == 0 and len(frames) > 0 and out.shape[1] > 0:
        try:
            al = [f if (len(f.columns) == len(out.columns) and not (f.columns != out.columns).any())
                  else f.reindex(columns=out.columns, fill_value=fill) for f in frames]
            ctx.count('vstack:' + strategy_of(al))
        except Exception:  # noqa
            pass
    desc = {'call': 'sf.Frame.from_concat', 'axis': axis, 'union': union, 'index': ixarg_desc(index), 'columns': ixarg_desc(columns),
            'fill_value': repr(fill), 'generator_input': as_generator,
            'inputs': [frame_desc(f) for f in frames],
            'series_inputs': [not isinstance(x, sf.Frame) for x in inputs],
            'observed': frame_desc(out) if ok else lit.err_class(out)}
    return Case(kind, desc, m=f'MV_concat_ok {args}', s=f'SV_concat_ok {args}', tags=tags,
                nontrivial=len(frames) >= 2)


def random_concat_cases(ctx):
    import static_frame as sf
    rng = ctx.rng
    n = ctx.n(500, 6000)
    for _ in range(n):
        axis = rng.choice((0, 1))
        union = rng.random() < 0.6
        k = rng.choice((0, 1, 2, 2, 2, 3, 3, 4))
        pool_kind = rng.choice(('str', 'int'))
        pool = POOLS[pool_kind]
        mode = rng.choice(('same', 'same', 'perm', 'overlap', 'overlap', 'disjoint'))
        width = 0 if rng.random() < 0.04 else rng.choice((1, 2, 2, 3, 3, 4))
        if mode == 'disjoint' and not union and rng.random() < 0.8:
            union = True              # (the intersection of disjoint label sets is empty: the zero-column class)
        length = rng.choice((0, 1, 2, 2, 3, 3))
        malformed = rng.random() < 0.12
        aligned = gen_aligned(rng, pool, k, mode, width)
        along = gen_along(rng, pool, k, length, unique=not malformed)
        frames, inputs = [], []
        shared_kinds = None
        if axis == 0 and mode in ('same', 'perm') and rng.random() < 0.5 and aligned:
            shared_kinds = [rng.choice('iiffbUO') for _ in aligned[0]]      # same dtype runs in every input: reblock-compatible layouts
        for a, b in zip(along, aligned):
            idx, cols = (a, b) if axis == 0 else (b, a)
            f, kinds, layout = gen_frame(rng, idx, cols, kinds=shared_kinds)
            frames.append(f)
            inputs.append(f)
            ctx.count('layout:' + zoo.layout_str(layout) if len(layout) <= 3 else 'layout:4+blocks')
        # arguments
        r = rng.random()
        total_along = sum(len(a) for a in along)
        if r < 0.70:
            arg_along = None
        elif r < 0.85:
            arg_along = sf.IndexAutoFactory
        elif r < 0.95 or k == 0:
            arg_along = None if (k == 0 or total_along == 0) else [f'L{i}' for i in range(total_along)]
        else:
            wrong = total_along + rng.choice((-1, 1))                                    # malformed: wrong length
            if wrong <= 0:
                wrong = total_along + 1           # (an explicit EMPTY list is taken as "no argument" by the Frame constructor)
            arg_along = [f'L{i}' for i in range(wrong)]
        r = rng.random()
        if r < 0.85 or k == 0:
            arg_aligned = None
        elif r < 0.96:
            arg_aligned = rng.sample(pool[:6], rng.randint(1, 4))
        else:
            arg_aligned = sf.IndexAutoFactory                                           # malformed: not permitted
        index, columns = (arg_along, arg_aligned) if axis == 0 else (arg_aligned, arg_along)
        fill = ... if rng.random() < 0.4 else rng.choice(FILLS)
        ctx.count(f'aligned:{mode}', f'labels:{pool_kind}', 'stream:malformed' if malformed else 'stream:valid')
        yield concat_case(ctx, 'api:from_concat', frames, axis, union, index, columns, fill,
                          as_generator=rng.random() < 0.2, inputs=inputs)


# ----------------------------------------------------------------------------- exhaustive: every layout pair
def layout_cases(ctx):
    """Frame.from_concat(axis=0) of two (quick) / two and three (thorough) frames with IDENTICAL column labels, over every
    block layout of each: the strategy (block / reblock / column) is decided by the layouts alone."""
    import static_frame as sf
    rng = ctx.rng
    patterns = ['iii', 'iif', 'ifi'] if ctx.tier == 'quick' else [''.join(p) for p in itertools.product('if', repeat=3)] + ['ii', 'if', 'i', 'iiff']
    zoo_frames = []
    for pat in patterns:
        for layout in zoo.layouts_for(dtypes_of(pat)):
            zoo_frames.append((pat, layout))
    cols = list('abcd')
    pairs = [(x, y) for x in zoo_frames for y in zoo_frames if len(x[0]) == len(y[0])]
    if ctx.tier != 'quick':
        trip = [(x, y, z) for x in zoo_frames for y in zoo_frames for z in zoo_frames if len(x[0]) == len(y[0]) == len(z[0]) == 3]
        pairs = pairs + rng.sample(trip, min(len(trip), ctx.n(0, 1000)))
    for combo in pairs:
        frames = []
        pos = 0
        for pat, layout in combo:
            rows = 1 if len(combo) == 3 else 2
            f, _, _ = gen_frame(rng, [pos + i for i in range(rows)], cols[:len(pat)], kinds=list(pat), layout=layout)
            pos += rows
            frames.append(f)
        ctx.count('layouts:' + strategy_of(frames))
        yield concat_case(ctx, 'api:from_concat-all-layouts', frames, 0, True, None, None, ...,
                          extra_tags={'strategy': strategy_of(frames)})


# ----------------------------------------------------------------------------- Series inputs to Frame.from_concat
def series_input_cases(ctx):
    import static_frame as sf
    rng = ctx.rng
    for _ in range(ctx.n(60, 1000)):
        axis = rng.choice((0, 1))
        union = rng.random() < 0.6
        k = rng.choice((1, 2, 2, 3))
        pool = POOLS[rng.choice(('str', 'int'))]
        mode = rng.choice(('same', 'perm', 'overlap'))
        aligned = gen_aligned(rng, pool, k, mode, rng.choice((1, 2, 3)))
        names = rng.sample(['n0', 'n1', 'n2', 'n3'], k) if rng.random() < 0.85 else [rng.choice(['n0', 'n1']) for _ in range(k)]
        inputs, frames = [], []
        for name, labels in zip(names, aligned):
            if rng.random() < 0.6:
                kind = rng.choice(KINDS)
                sr = sf.Series(gen_column(rng, kind, len(labels)), index=labels, name=name)
                inputs.append(sr)
                frames.append(sr.to_frame(axis))           # the documented Frame form of a Series input (frame.py:356)
            else:
                along = [name + 'x', name + 'y'][:rng.randint(1, 2)]
                idx, cols = (along, labels) if axis == 0 else (labels, along)
                f, _, _ = gen_frame(rng, idx, cols)
                inputs.append(f)
                frames.append(f)
        ctx.count('series-input')
        yield concat_case(ctx, 'api:from_concat-series-inputs', frames, axis, union, None, None, rng.choice(FILLS),
                          as_generator=rng.random() < 0.2, inputs=inputs)


# ----------------------------------------------------------------------------- Series.from_concat
def mk_index(labels, pool):
    """An Index over the labels; an EMPTY one gets the dtype of the pool (sf.Index([]) alone would be float64 and turn the
    other inputs' int labels into floats on concatenation -- equal labels under ==, a dtype matter outside C11)."""
    import static_frame as sf
    if len(labels):
        return sf.Index(labels)
    return sf.Index(np.array([], dtype=np.int64 if isinstance(pool[0], int) else '<U1'))


def series_lit(sr):
    return f'(mks {lit.vlist(lit.labels(sr.index))} {lit.dtype(sr.dtype)} {col_vals(sr.values)})'


def res_series(fn):
    try:
        out = fn()
    except Exception as e:  # noqa
        return f'(Err {lit.s(lit.err_class(e))})', e
    return f'(Ok {series_lit(out)})', out


def series_desc(sr):
    return {'index': lit.labels(sr.index), 'values': sr.values.tolist(), 'dtype': str(sr.dtype)}


def gen_series_list(ctx, rng, k, unique):
    import static_frame as sf
    pool = POOLS[rng.choice(('str', 'int'))]
    along = gen_along(rng, pool, k, rng.choice((1, 2, 3)), unique=unique)
    out = []
    for labels in along:
        kind = rng.choice(KINDS)
        ctx.count('series:kind=' + kind)
        out.append(sf.Series(gen_column(rng, kind, len(labels)), index=mk_index(labels, pool)))
    return out


def series_concat_cases(ctx):
    import static_frame as sf
    rng = ctx.rng
    for _ in range(ctx.n(150, 2000)):
        k = rng.choice((0, 1, 2, 2, 3, 4))
        malformed = rng.random() < 0.15
        ss = gen_series_list(ctx, rng, k, unique=not malformed)
        total = sum(len(x) for x in ss)
        r = rng.random()
        if r < 0.7 or k == 0:
            index = None if (r < 0.85 or k > 0) else sf.IndexAutoFactory
        elif r < 0.85:
            index = sf.IndexAutoFactory
        elif r < 0.95 and total > 0:
            index = [f'L{i}' for i in range(total)]
        else:
            index = [f'L{i}' for i in range(total + 1)]
        arg = (x for x in ss) if rng.random() < 0.2 else tuple(ss)
        obs, out = res_series(lambda: sf.Series.from_concat(arg, index=index))
        args = f'{ixarg_lit(index)} {lit.lst([series_lit(x) for x in ss])} {obs}'
        ok = not isinstance(out, Exception)
        ctx.count(f'sconcat:k={k}', 'sconcat:ok' if ok else f'sconcat:err:{lit.err_class(out)}')
        yield Case('api:series.from_concat',
                   {'call': 'sf.Series.from_concat', 'index': ixarg_desc(index), 'inputs': [series_desc(x) for x in ss],
                    'observed': series_desc(out) if ok else lit.err_class(out)},
                   m=f'MV_series_concat_ok {args}', s=f'SV_series_concat_ok {args}',
                   tags={'api': 'Series.from_concat'}, nontrivial=k >= 2)


# ----------------------------------------------------------------------------- the items forms
F_ITEMS_EMPTY = 'C11-items-empty-member'


def gen_keys(rng, k, dup):
    pool = rng.choice((['A', 'B', 'C', 'D', 'E'], [10, 20, 30, 40, 50]))
    if dup and k >= 2:
        return [rng.choice(pool[:2]) for _ in range(k)]
    return rng.sample(pool, k)


def items_cases(ctx):
    import static_frame as sf
    rng = ctx.rng
    for _ in range(ctx.n(150, 2000)):
        axis = rng.choice((0, 1))
        union = rng.random() < 0.6
        k = rng.choice((0, 1, 2, 2, 3, 3))
        pool = POOLS[rng.choice(('str', 'int'))]
        dup = rng.random() < 0.1
        keys = gen_keys(rng, k, dup)
        aligned = gen_aligned(rng, pool, k, rng.choice(('same', 'perm', 'overlap')), rng.choice((1, 2, 3)))
        # inner labels along the axis may repeat ACROSS items: the outer key makes the pair unique
        along = [rng.sample(pool[:4], rng.randint(0 if rng.random() < 0.1 else 1, 3)) for _ in range(k)]
        frames = []
        for a, b in zip(along, aligned):
            idx, cols = (a, b) if axis == 0 else (b, a)
            f, _, _ = gen_frame(rng, idx, cols)
            frames.append(f)
        fill = rng.choice(FILLS)
        items = list(zip(keys, frames))
        arg = (x for x in items) if rng.random() < 0.3 else tuple(items)
        obs, out = res_frame(lambda: sf.Frame.from_concat_items(arg, axis=axis, union=union, fill_value=fill))
        filldt, fillv = fill_lits(fill)
        kfs = lit.lst([f'({lit.val(key)}, {frame_lit(f)})' for key, f in items])
        args = f'{lit.b(axis == 1)} {lit.b(union)} {filldt} {fillv} {kfs} {obs}'
        tags = {'api': 'Frame.from_concat_items', 'axis': axis}
        if any(len(a) == 0 for a in along):
            tags['finding'] = F_ITEMS_EMPTY
        elif frames:
            # same class as for from_concat: the result must have no columns
            if axis == 0:
                sets = [set(lit.labels(f.columns)) for f in frames]
                if not (set.union(*sets) if union else set.intersection(*sets)):
                    tags['finding'] = F_ZERO
        ok = not isinstance(out, Exception)
        ctx.count(f'items:axis{axis}', f'items:k={k}', 'items:dupkey' if dup and k >= 2 else 'items:keys-unique',
                  'items:ok' if ok else f'items:err:{lit.err_class(out)}')
        yield Case('api:from_concat_items',
                   {'call': 'sf.Frame.from_concat_items', 'axis': axis, 'union': union, 'fill_value': repr(fill), 'keys': keys,
                    'inputs': [frame_desc(f) for f in frames], 'observed': frame_desc(out) if ok else lit.err_class(out)},
                   m=f'MV_concat_items_ok {args}', s=f'SV_concat_items_ok {args}', tags=tags, nontrivial=k >= 2)
    for _ in range(ctx.n(100, 1500)):
        k = rng.choice((0, 1, 2, 2, 3, 3))
        dup = rng.random() < 0.1
        keys = gen_keys(rng, k, dup)
        pool = POOLS[rng.choice(('str', 'int'))]
        ss = []
        for _i in range(k):
            labels = rng.sample(pool[:4], rng.randint(0 if rng.random() < 0.1 else 1, 3))
            ss.append(sf.Series(gen_column(rng, rng.choice(KINDS), len(labels)), index=mk_index(labels, pool)))
        items = list(zip(keys, ss))
        arg = (x for x in items) if rng.random() < 0.3 else tuple(items)
        obs, out = res_series(lambda: sf.Series.from_concat_items(arg))
        kss = lit.lst([f'({lit.val(key)}, {series_lit(x)})' for key, x in items])
        tags = {'api': 'Series.from_concat_items'}
        if any(len(x) == 0 for x in ss):
            tags['finding'] = F_ITEMS_EMPTY
        ok = not isinstance(out, Exception)
        ctx.count(f'sitems:k={k}', 'sitems:ok' if ok else f'sitems:err:{lit.err_class(out)}')
        yield Case('api:series.from_concat_items',
                   {'call': 'sf.Series.from_concat_items', 'keys': keys, 'inputs': [series_desc(x) for x in ss],
                    'observed': series_desc(out) if ok else lit.err_class(out)},
                   m=f'MV_series_items_ok {kss} {obs}', s=f'SV_series_items_ok {kss} {obs}', tags=tags, nontrivial=k >= 2)


# ----------------------------------------------------------------------------- overlay
F_OV_FIRST = 'C11-overlay-first-no-columns'
F_OV_ZERO = 'C11-overlay-zero-columns'
F_OV_ROWS = 'C11-overlay-zero-rows'
# (C11-reindex-both-one-axis-disjoint: repaired in /repo by 658b4ce -- resize_blocks consults has_common per axis; its inputs are kept as regression cases)


def gen_overlay_column(rng, kind, rows):
    if kind == 'f':
        return np.array([rng.choice([np.nan, np.nan, 0.5, 1.0, -2.5, 3.0]) for _ in range(rows)], dtype='float64')
    if kind == 'O':
        a = np.empty(rows, dtype=object)
        for i in range(rows):
            a[i] = rng.choice([None, None, np.nan, 1, 'w', 2.5, True])
        return a
    return gen_column(rng, kind, rows)


def gen_overlay_frame(rng, index, columns):
    m = len(columns)
    kinds = []
    while len(kinds) < m:
        kinds += [rng.choice('fffOOiUb')] * rng.randint(1, 2)
    kinds = kinds[:m]
    cols = [gen_overlay_column(rng, k, len(index)) for k in kinds]
    layout = rng.choice(list(zoo.layouts_for(dtypes_of(kinds)))) if m else ()
    return zoo.frame_from_columns(cols, layout, index=list(index), columns=list(columns))


def olabels_lit(arg):
    return 'None' if arg is None else f'(Some {lit.vlist(list(arg))})'


def target_set(arg, union, lists):
    if arg is not None:
        return set(arg)
    sets = [set(l) for l in lists]
    return (set.union(*sets) if union else set.intersection(*sets)) if sets else set()


def overlay_case(ctx, kind, frames, union, index, columns, as_generator=False):
    import static_frame as sf
    arg = (x for x in frames) if as_generator else tuple(frames)
    obs, out = res_frame(lambda: sf.Frame.from_overlay(arg, union=union, index=index, columns=columns))
    args = f'{lit.b(union)} {olabels_lit(index)} {olabels_lit(columns)} {lit.lst([frame_lit(f) for f in frames])} {obs}'
    tags = {'api': 'Frame.from_overlay', 'union': union}
    if frames:
        f0 = frames[0]
        tidx = target_set(index, union, [lit.labels(f.index) for f in frames])
        tcols = target_set(columns, union, [lit.labels(f.columns) for f in frames])
        if f0.shape[1] == 0:
            tags['finding'] = F_OV_FIRST
        elif not tcols and len(frames) >= 2:
            tags['finding'] = F_OV_ZERO
        elif not tidx and len(frames) >= 2:
            tags['finding'] = F_OV_ROWS
    ok = not isinstance(out, Exception)
    ctx.count(f'overlay:k={len(frames)}', 'overlay:ok' if ok else f'overlay:err:{lit.err_class(out)}')
    return Case(kind,
                {'call': 'sf.Frame.from_overlay', 'union': union, 'index': index, 'columns': columns, 'generator_input': as_generator,
                 'inputs': [frame_desc(f) for f in frames], 'observed': frame_desc(out) if ok else lit.err_class(out)},
                m=f'MV_overlay_ok {args}', s=f'SV_overlay_ok {args}', tags=tags, nontrivial=len(frames) >= 2)


def overlay_cases(ctx):
    import static_frame as sf
    rng = ctx.rng
    for _ in range(ctx.n(300, 4000)):
        union = rng.random() < 0.7
        k = rng.choice((1, 2, 2, 3, 3, 4))
        pool = POOLS[rng.choice(('str', 'int'))]
        imode = rng.choice(('same', 'perm', 'overlap', 'overlap', 'disjoint'))
        cmode = rng.choice(('same', 'perm', 'overlap', 'overlap', 'disjoint'))
        idxs = gen_aligned(rng, pool, k, imode, rng.choice((1, 2, 3, 3)))
        colss = gen_aligned(rng, pool, k, cmode, 0 if rng.random() < 0.04 else rng.choice((1, 2, 2, 3)))
        frames = [gen_overlay_frame(rng, i, c) for i, c in zip(idxs, colss)]
        index = rng.sample(pool[:5], rng.randint(1, 4)) if rng.random() < 0.12 else None
        columns = rng.sample(pool[:5], rng.randint(1, 4)) if rng.random() < 0.12 else None
        ctx.count(f'overlay:index-{imode}', f'overlay:columns-{cmode}')
        yield overlay_case(ctx, 'api:frame.from_overlay', frames, union, index, columns, as_generator=rng.random() < 0.2)
    for _ in range(ctx.n(200, 2500)):
        union = rng.random() < 0.7
        k = rng.choice((1, 2, 2, 3, 3, 4))
        pool = POOLS[rng.choice(('str', 'int'))]
        idxs = gen_aligned(rng, pool, k, rng.choice(('same', 'perm', 'overlap', 'overlap', 'disjoint')), rng.choice((0, 1, 2, 3, 3)))
        ss = [sf.Series(gen_overlay_column(rng, rng.choice('fffOOiUb'), len(i)), index=mk_index(i, pool)) for i in idxs]
        index = rng.sample(pool[:5], rng.randint(1, 4)) if rng.random() < 0.12 else None
        arg = (x for x in ss) if rng.random() < 0.2 else tuple(ss)
        obs, out = res_series(lambda: sf.Series.from_overlay(arg, union=union, index=index))
        args = f'{lit.b(union)} {olabels_lit(index)} {lit.lst([series_lit(x) for x in ss])} {obs}'
        ok = not isinstance(out, Exception)
        ctx.count(f'soverlay:k={k}', 'soverlay:ok' if ok else f'soverlay:err:{lit.err_class(out)}')
        yield Case('api:series.from_overlay',
                   {'call': 'sf.Series.from_overlay', 'union': union, 'index': index, 'inputs': [series_desc(x) for x in ss],
                    'observed': series_desc(out) if ok else lit.err_class(out)},
                   m=f'MV_series_overlay_ok {args}', s=f'SV_series_overlay_ok {args}',
                   tags={'api': 'Series.from_overlay'}, nontrivial=k >= 2)


# ----------------------------------------------------------------------------- fixed witnesses of the known findings
def witness_cases(ctx):
    """The minimal replay of every known finding, every run (so that known/C11.jsonl cannot rot)."""
    import static_frame as sf
    a = sf.Frame.from_records([(1.0, 2.0), (3.0, 4.0)], index=('x', 'y'), columns=('p', 'q'))
    b = sf.Frame.from_records([(10.0,)], index=('z',), columns=('r',))
    z = sf.Frame.from_records([], columns=('p', 'q'))                 # no rows
    e = sf.Frame(index=('x',))                                           # no columns
    yield concat_case(ctx, 'witness', [a, b], 0, False, None, None, ...)                 # empty intersection of the columns
    yield concat_case(ctx, 'witness', [e, e.relabel(index=('y',))], 1, True, None, None, ...)
    for items in ([('A', a), ('B', z)],):
        obs, out = res_frame(lambda: sf.Frame.from_concat_items(items))
        filldt, fillv = fill_lits(np.nan)
        kfs = lit.lst([f'({lit.val(key)}, {frame_lit(f)})' for key, f in items])
        args = f'false true {filldt} {fillv} {kfs} {obs}'
        yield Case('witness', {'call': 'sf.Frame.from_concat_items', 'keys': [k for k, _ in items], 'inputs': [frame_desc(f) for _, f in items],
                               'observed': lit.err_class(out) if isinstance(out, Exception) else frame_desc(out)},
                   m=f'MV_concat_items_ok {args}', s=f'SV_concat_items_ok {args}', tags={'api': 'Frame.from_concat_items', 'finding': F_ITEMS_EMPTY})
    yield overlay_case(ctx, 'witness', [e, a], True, None, None)                           # first container without columns
    yield overlay_case(ctx, 'witness', [a, b], False, None, None)                          # no common column, no common row
    yield overlay_case(ctx, 'witness', [a, b.relabel(columns=('p',))], False, None, ['w'])  # no row in the result, >= 2 containers
    # regression (fixed 658b4ce): the first container shares labels with the target on exactly one axis
    yield overlay_case(ctx, 'regression', [a], True, ['m', 'n'], ['q', 'zz'])               # rows disjoint (same length): cells were moved to m, n
    yield overlay_case(ctx, 'regression', [a], True, ['m', 'n', 'o'], ['q', 'zz'])          # rows disjoint (other length): was ValueError
    yield overlay_case(ctx, 'regression', [a, b.relabel(columns=('q',))], False, None, None)  # empty row intersection, shared column: was ValueError
    yield overlay_case(ctx, 'regression', [a, b], True, None, ['r'])                        # columns disjoint, rows shared: was TypeError


# ----------------------------------------------------------------------------- kernel: the set operations on labels
def set_kernel_cases(ctx):
    """container_util.index_many_set (-> util.ufunc_set_iter) called directly on EVERY pair of duplicate-free label lists over three
    labels (plus 300 sampled triples; every int triple, and every pair over four labels, in thorough), union and intersection,
    int and str labels."""
    import static_frame as sf
    from static_frame.core.container_util import index_many_set
    def arrangements(pool):
        out = []
        for n in range(len(pool) + 1):
            out.extend(itertools.permutations(pool, n))
        return [list(x) for x in out]
    for pool_kind, pool in (('int', [0, 1, 2]), ('str', ['a', 'b', 'c'])):
        arr = arrangements(pool)
        combos = [c for c in itertools.product(arr, repeat=2)]
        triples = [c for c in itertools.product(arr, repeat=3)]
        combos += triples if (ctx.tier != 'quick' and pool_kind == 'int') else ctx.rng.sample(triples, 300)
        if ctx.tier != 'quick' and pool_kind == 'int':
            arr4 = arrangements([0, 1, 2, 3])
            combos += [c for c in itertools.product(arr4, repeat=2)]
        for lists in combos:
            for union in (True, False):
                out = index_many_set([mk_index(l, POOLS[pool_kind]) for l in lists], sf.Index, union).values.tolist()
                args = f'{lit.b(union)} {lit.lst([lit.vlist(l) for l in lists])} {lit.vlist(out)}'
                ctx.count('set:union' if union else 'set:intersection')
                yield Case('kernel:index_many_set',
                           {'call': 'static_frame.core.container_util.index_many_set', 'union': union, 'labels': [list(l) for l in lists], 'observed': out},
                           m=f'MV_many_set_ok {args}', s=f'SV_many_set_ok {args}', tags={'kernel': 'index_many_set'},
                           nontrivial=len({tuple(l) for l in lists}) > 1)


# ----------------------------------------------------------------------------- overlay: every layout x every missing pattern
def overlay_layout_cases(ctx):
    """Frame.from_overlay whose FIRST container is built with every block layout of 3-4 columns and every pattern of missing cells in
    its float/object columns, its labels ALREADY equal to the aligned labels (no reindex: the blocks reach fillna_by_values as built);
    the later container has a distinct value per (row, column), so any shift between columns is visible.  The same inputs are also
    given directly to TypeBlocks.fillna_by_values (kernel stratum)."""
    import static_frame as sf
    rng = ctx.rng
    specs = [('fff', 2), ('iif', 2), ('iiif', 2), ('iifO', 2)]
    if ctx.tier != 'quick':
        specs += [('ffff', 1), ('fiif', 2), ('OiiO', 1), ('ffi', 2), ('UUf', 2)]
    for pat, rows in specs:
        na_cells = [(i, j) for j, k in enumerate(pat) if k in 'fO' for i in range(rows)]
        index = list(range(rows))
        columns = list('abcd')[:len(pat)]
        masks = list(itertools.product((False, True), repeat=len(na_cells)))
        for layout in zoo.layouts_for(dtypes_of(pat)):
            for mask in masks:
                missing = {c for c, m in zip(na_cells, mask) if m}
                cols = []
                for j, k in enumerate(pat):
                    if k == 'i':
                        a = np.array([10 * j + i + 1 for i in range(rows)], dtype='int64')
                    elif k == 'f':
                        a = np.array([np.nan if (i, j) in missing else 10 * j + i + 0.5 for i in range(rows)], dtype='float64')
                    elif k == 'U':
                        a = np.array([f'{j}{i}' for i in range(rows)], dtype='<U2')
                    else:
                        a = np.empty(rows, dtype=object)
                        for i in range(rows):
                            a[i] = None if (i, j) in missing else f's{j}{i}'
                    cols.append(a)
                first = zoo.frame_from_columns(cols, layout, index=index, columns=columns)
                variant = rng.randrange(3)
                if variant == 0:      # same labels, one float block: distinct value per cell
                    later = [sf.Frame(np.array([[100.0 * (j + 1) + i for j in range(len(pat))] for i in range(rows)]), index=index, columns=columns)]
                elif variant == 1:    # same labels, a column per dtype
                    later = [zoo.frame_from_columns([np.array([100 * (j + 1) + i for i in range(rows)], dtype='int64') for j in range(len(pat))],
                                                    tuple((1, False) for _ in pat), index=index, columns=columns)]
                else:                 # two later containers, the first of them with holes and permuted columns
                    perm = rng.sample(columns, len(columns))
                    holes = np.array([[np.nan if rng.random() < 0.5 else 100.0 * (columns.index(c) + 1) + i for c in perm] for i in range(rows)])
                    later = [sf.Frame(holes, index=index, columns=perm),
                             sf.Frame(np.array([[900.0 + 10 * j + i for j in range(len(pat))] for i in range(rows)]), index=index, columns=columns)]
                ctx.count('overlay-layouts:' + pat)
                yield overlay_case(ctx, 'api:frame.from_overlay-all-layouts', [first] + later, True, None, None)
                # kernel: the block walk itself
                vals = [later[0][c].values for c in columns]
                try:
                    out = first._blocks.fillna_by_values(vals)
                    obs = lit.lst([block_lit(b) for b in out._blocks])
                    obs_desc = [{'dtype': str(b.dtype), 'ndim': b.ndim, 'values': b.tolist()} for b in out._blocks]
                except Exception as e:  # noqa
                    obs, obs_desc = '[]', lit.err_class(e)
                t_lit = lit.lst([block_lit(b) for b in first._blocks._blocks])
                v_lit = lit.lst([f'({lit.dtype(v.dtype)}, {col_vals(v)})' for v in vals])
                yield Case('kernel:fillna_by_values',
                           {'call': 'TypeBlocks.fillna_by_values', 'blocks': frame_desc(first)['blocks'], 'values': [v.tolist() for v in vals], 'observed': obs_desc},
                           m=f'MV_fillna_ok {t_lit} {v_lit} {obs}', s=f'SV_fillna_ok {t_lit} {v_lit} {obs}',
                           tags={'kernel': 'fillna_by_values'}, nontrivial=bool(missing))


def cases(ctx):
    yield from witness_cases(ctx)
    yield from set_kernel_cases(ctx)
    yield from layout_cases(ctx)
    yield from overlay_layout_cases(ctx)
    yield from random_concat_cases(ctx)
    yield from series_input_cases(ctx)
    yield from series_concat_cases(ctx)
    yield from items_cases(ctx)
    yield from overlay_cases(ctx)
