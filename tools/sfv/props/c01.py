'''C01 -- immutability: no public operation changes an existing static container.'''
import copy
import itertools
import pickle

import numpy as np

from .. import lit
from ..core import Case

ID = 'C01'
MANIFEST = {
    'text': ('Coq theorems about an executable heap model (buffers, ndarray handles with their own flags.writeable, containers, caller-held '
             'handles; SF/Heap.v): C01_frozen_invariant (after EVERY guarded history of constructions through immutable_filter / own_data, '
             'derivations by view or fresh array, exposures, caller views / freezes / writes, pickle and deepcopy round trips and failing '
             'calls, no buffer a container can see has a writeable handle anywhere), C01_immutability (content and flags seen through an '
             'existing container never change, for every history), C01_exposed_readonly, C01_container_arrays_readonly, '
             'C01_caller_isolation. Correspondence: random and exhaustive small histories executed on the real library through public calls '
             '(np.array / views / flags / writes by the caller; Series, Index, Frame, TypeBlocks constructors; selections; .values / '
             '.positions; pickle; deepcopy), the whole observation trace (content + flags of every caller array and every container slot '
             'after every step, np.shares_memory matrix) compared with the model M and with the value-semantics specification S evaluated '
             'inside Coq.'),
    'note': ('trusted: Coq kernel, hand-written model SF/Heap.v, harness. NumPy facts are modelling assumptions validated only by the '
             'correspondence runs (see assumptions). PARTIAL: that each of the ~160 freeze sites of the library follows the protocol is '
             'decided by enumeration (interface x zoo strata, Python-side observation), not by proof.'),
    'technique': 'invariant over histories of a heap model + differential traces',
}
PROPERTY_FILES = ['Properties/C01.v']
REFUTED_FILES = []
MODEL_FILES = ['SF/Heap.v']
IMPORTS = 'Require Import SF.Prelude SF.Heap.\nLocal Open Scope nat_scope.'
RULE = ('heap strata: a history is a list of steps of the model alphabet, each executed on the real library by a public call; '
        'non-trivial = the history builds at least one container from a caller-held array and later the caller writes, or exposes, or '
        'round-trips; distinct = distinct step list')
ASSUMPTIONS = [
    'NumPy: a basic-indexing view shares the buffer of its base and inherits flags.writeable at creation',
    'NumPy: writing through a non-writeable ndarray raises ValueError and changes nothing',
    'NumPy: copy / astype / fancy indexing / np.array(list) / unpickling return a fresh buffer',
    'alphabet exclusion: the caller never sets flags.writeable = True (NumPy allows it on arrays that own their data, e.g. on s.values)',
    'alphabet exclusion: no assignment to attributes of a container (Series.values is a plain slot attribute)',
]
TRUSTED = []
EXHAUSTIVE = {'quick': False, 'thorough': False}


# =============================================================================== literals
def nat(v):
    v = int(v)
    assert v >= 0
    return str(v)


def natl(xs):
    return '[' + '; '.join(nat(x) for x in xs) + ']'


def zl(xs):
    return '[' + '; '.join(lit.z(x) + '%Z' for x in xs) + ']'


def slot_lit(content, w):
    return f'({zl(content)}, {lit.b(w)})'


def obs_lit(conts, callers):
    c = '[' + '; '.join('[' + '; '.join(slot_lit(*s) for s in slots) + ']' for slots in conts) + ']'
    k = '[' + '; '.join(slot_lit(*s) for s in callers) + ']'
    return f'({c}, {k})'


# =============================================================================== the interpreter of histories
def _ints(a):
    return [int(x) for x in np.asarray(a).reshape(-1).tolist()]


class Sim:
    '''Executes steps of the model alphabet on the real library and records (a) the Coq step literals, (b) the observations.'''

    def __init__(self):
        import static_frame as sf
        from static_frame.core.type_blocks import TypeBlocks
        self.sf = sf
        self.TB = TypeBlocks
        self.callers = []       # ndarrays the caller holds
        self.conts = []         # (kind, object)
        self.steps = []         # Coq literals
        self.desc = []          # human readable replay
        self.trace = []         # (ok, conts_obs, callers_obs)
        self.first = []         # first observation of each container (python-side immutability check)
        self.violations = []
        self.flags = set()      # by-construction classes: 'readonly_alias', 'own_alias', 'pickle_index'

    # ---- observation
    def slots(self, kind, obj):
        if kind == 'series':
            return [obj.values, obj.index.values, obj.index.positions]
        if kind == 'index':
            return [obj.values, obj.positions]
        if kind == 'tb':
            return list(obj._blocks)
        if kind == 'frame':
            return list(obj._blocks._blocks) + [obj.index.values, obj.index.positions, obj.columns.values, obj.columns.positions]
        raise ValueError(kind)

    def observe(self, ok):
        conts = [[(_ints(a), bool(a.flags.writeable)) for a in self.slots(k, o)] for k, o in self.conts]
        callers = [(_ints(a), bool(a.flags.writeable)) for a in self.callers]
        self.trace.append((ok, conts, callers))
        for i, c in enumerate(conts):
            if i >= len(self.first):
                self.first.append(c)
            elif c != self.first[i]:
                self.violations.append(f'container {i} ({self.conts[i][0]}) changed after step {len(self.steps) - 1} ({self.desc[-1]}): {self.first[i]} -> {c}')
                self.first[i] = c
            for j, (_, w) in enumerate(c):
                if w:
                    msg = f'slot {j} of container {i} ({self.conts[i][0]}) is writeable'
                    if msg not in self.violations:
                        self.violations.append(msg)

    def shares(self):
        '''np.shares_memory of every container slot with every caller array; None (do not care) when either aliases the
        library's global PositionsAllocator buffer (auto-index labels / positions), which the model abstracts as private arrays.'''
        from static_frame.core.util import PositionsAllocator
        g = PositionsAllocator._array
        taint = lambda a: bool(np.shares_memory(a, g))
        return [[[None if (taint(a) or taint(c)) else bool(np.shares_memory(a, c)) for c in self.callers] for a in self.slots(k, o)] for k, o in self.conts]

    def emit(self, step, desc, ok=True):
        self.steps.append(step)
        self.desc.append(desc)
        self.observe(ok)

    # ---- caller steps
    def new(self, vals):
        self.callers.append(np.array(vals, dtype=np.int64))
        self.emit(f'SNew {zl(vals)}', f'a{len(self.callers) - 1} = np.array({list(vals)})')

    def view(self, k, sl):
        a = self.callers[k]
        n = a.shape[0]
        sel = list(range(n)[sl])
        self.callers.append(a[sl])
        self.emit(f'SView {k} {natl(sel)}', f'a{len(self.callers) - 1} = a{k}[{sl.start}:{sl.stop}:{sl.step}]')

    def freeze(self, k):
        self.callers[k].flags.writeable = False
        self.emit(f'SFreeze {k}', f'a{k}.flags.writeable = False')

    def write(self, k, i, v):
        a = self.callers[k]
        try:
            a[i] = v
            ok = True
        except ValueError:
            ok = False
        self.emit(f'SWrite {k} {i} {lit.z(v)}%Z', f'a{k}[{i}] = {v}', ok)

    # ---- helpers for guards decided by construction of the input
    @staticmethod
    def _root(a):
        while isinstance(a.base, np.ndarray):
            a = a.base
        return a

    def _has_other_writeable_alias(self, k):
        '''Another caller array on the same allocation (even a disjoint or empty view of it) is writeable.'''
        r = self._root(self.callers[k])
        return any(j != k and b.flags.writeable and self._root(b) is r for j, b in enumerate(self.callers))

    def _note_filter(self, k):
        a = self.callers[k]
        if not a.flags.writeable and self._has_other_writeable_alias(k):
            self.flags.add('readonly_alias')

    def _auto(self, n):
        return f'FromVals {zl(range(n))}'

    def fail(self, desc):
        self.emit('SFail', desc, False)

    # ---- constructions
    def c_series(self, k):
        a = self.callers[k]
        if a.ndim != 1:
            return False
        self._note_filter(k)
        n = a.shape[0]
        self.conts.append(('series', self.sf.Series(a)))
        self.emit(f'SConstruct [FromCaller RFilter {k}; {self._auto(n)}; {self._auto(n)}]', f'c{len(self.conts) - 1} = sf.Series(a{k})')
        return True

    def c_index(self, k):
        a = self.callers[k]
        if a.ndim != 1:
            return False
        try:
            obj = self.sf.Index(a)
        except self.sf.ErrorInitIndex:
            self.fail(f'sf.Index(a{k}) raises')
            return True
        self._note_filter(k)
        self.conts.append(('index', obj))
        self.emit(f'SConstruct [FromCaller RFilter {k}; {self._auto(a.shape[0])}]', f'c{len(self.conts) - 1} = sf.Index(a{k})')
        return True

    def c_tb(self, ks):
        arrs = [self.callers[k] for k in ks]
        if any(a.ndim != 1 for a in arrs):
            return False
        try:
            obj = self.TB.from_blocks(arrs)
        except Exception:  # noqa: mismatched row count
            self.fail(f'TypeBlocks.from_blocks({["a%d" % k for k in ks]}) raises')
            return True
        for k in ks:
            self._note_filter(k)
        # the same read-only argument twice: both slots keep it
        self.conts.append(('tb', obj))
        self.emit('SConstruct [' + '; '.join(f'FromCaller RFilter {k}' for k in ks) + ']',
                  f'c{len(self.conts) - 1} = TypeBlocks.from_blocks([{", ".join("a%d" % k for k in ks)}])')
        return True

    def c_frame(self, k, own):
        a = self.callers[k]
        if a.ndim != 1:
            return False
        if own:
            if self._has_other_writeable_alias(k):
                self.flags.add('own_alias')
        else:
            self._note_filter(k)
        n = a.shape[0]
        self.conts.append(('frame', self.sf.Frame(a, own_data=own)))
        r = 'ROwn' if own else 'RFilter'
        self.emit(f'SConstruct [FromCaller {r} {k}; {self._auto(n)}; {self._auto(n)}; {self._auto(1)}; {self._auto(1)}]',
                  f'c{len(self.conts) - 1} = sf.Frame(a{k}, own_data={own})')
        return True

    def c_series_list(self, vals):
        n = len(vals)
        self.conts.append(('series', self.sf.Series(list(vals), dtype=np.int64)))
        self.emit(f'SConstruct [FromVals {zl(vals)}; {self._auto(n)}; {self._auto(n)}]', f'c{len(self.conts) - 1} = sf.Series({list(vals)}, dtype=int64)')

    # ---- derivations
    def _derived(self, c, kind, obj, data_dsrcs, desc):
        '''data_dsrcs: dsrc literals of the leading data slots; every remaining slot is a fresh computed array (DVals content).'''
        self.conts.append((kind, obj))
        arrs = self.slots(kind, obj)
        ds = list(data_dsrcs) + [f'DVals {zl(_ints(a))}' for a in arrs[len(data_dsrcs):]]
        self.emit(f'SDerive {c} [' + '; '.join(ds) + ']', f'c{len(self.conts) - 1} = {desc}')

    def d_select(self, c, key):
        '''Row selection by slice (view) or by integer list (copy).'''
        kind, obj = self.conts[c]
        ndata = {'series': 1, 'index': 1, 'frame': 1}.get(kind)
        if kind == 'tb':
            ndata = len(obj._blocks)
        n = len(obj) if kind != 'tb' else obj.shape[0]
        if isinstance(key, slice):
            sel = list(range(n)[key])
            form = 'DView'
            ktxt = f'{key.start}:{key.stop}:{key.step}'
        else:
            sel = [k % n if n else k for k in key]
            form = 'DCopy'
            ktxt = str(list(key))
        try:
            if kind == 'tb':
                new = obj._extract(row_key=key)
            else:
                new = obj.iloc[key]
        except Exception as e:  # noqa
            self.fail(f'c{c}.iloc[{ktxt}] raises {type(e).__name__}')
            return
        self._derived(c, kind, new, [f'{form} {j} {natl(sel)}' for j in range(ndata)], f'c{c}.iloc[{ktxt}]')

    def d_rename(self, c):
        kind, obj = self.conts[c]
        if kind == 'tb':
            new = obj.copy()
            n = len(obj._blocks)
            ids = [f'DView {j} {natl(range(obj.shape[0]))}' for j in range(n)]
            return self._derived(c, kind, new, ids, f'c{c}.copy()')
        new = obj.rename('n')
        nslots = len(self.slots(kind, obj))
        ids = []
        for j, a in enumerate(self.slots(kind, obj)):
            ids.append(f'DView {j} {natl(range(a.reshape(-1).shape[0]))}')
        self._derived(c, kind, new, ids[:nslots], f"c{c}.rename('n')")

    def d_compute(self, c):
        kind, obj = self.conts[c]
        if kind == 'tb':
            new = obj * 2
        elif kind == 'index':
            return False
        else:
            new = obj * 2
        self._derived(c, kind, new, [], f'c{c} * 2')
        return True

    PICKLE_FLAGS = {   # slot -> re-frozen by __setstate__ (the table regenerated from the source is checked against this in generate())
        'series': [True, True, False], 'index': [True, False], 'frame': [True, True, False, True, False]}

    def d_pickle(self, c):
        kind, obj = self.conts[c]
        new = pickle.loads(pickle.dumps(obj))
        if kind == 'tb':
            flags = [True] * len(obj._blocks)
        else:
            flags = self.PICKLE_FLAGS[kind]
            self.flags.add('pickle_index')
        self.conts.append((kind, new))
        self.emit(f'SDerive {c} [' + '; '.join(f'DPickle {j} {lit.b(f)}' for j, f in enumerate(flags)) + ']',
                  f'c{len(self.conts) - 1} = pickle.loads(pickle.dumps(c{c}))')

    def d_deepcopy(self, c):
        kind, obj = self.conts[c]
        new = copy.deepcopy(obj)
        if kind == 'tb':
            ds = [f'DDeep {j}' for j in range(len(obj._blocks))]
        elif kind == 'series':
            ds = ['DDeep 0', 'DDeep 1']
        elif kind == 'index':
            ds = ['DDeep 0']
        else:
            ds = ['DDeep 0', 'DDeep 1', None, 'DDeep 3']
        self.conts.append((kind, new))
        arrs = self.slots(kind, new)
        full = []
        for j, a in enumerate(arrs):
            full.append(ds[j] if j < len(ds) and ds[j] else f'DVals {zl(_ints(a))}')
        self.emit(f'SDerive {c} [' + '; '.join(full) + ']', f'c{len(self.conts) - 1} = copy.deepcopy(c{c})')

    # ---- exposure
    def expose(self, c, j):
        kind, obj = self.conts[c]
        if kind == 'series':
            a = (obj.values, obj.index.values, obj.index.positions)[j]
            txt = ('values', 'index.values', 'index.positions')[j]
        elif kind == 'index':
            a = (obj.values, obj.positions)[j]
            txt = ('values', 'positions')[j]
        elif kind == 'tb':
            a = obj._blocks[j]
            txt = f'_blocks[{j}]'
        else:
            nb = len(obj._blocks._blocks)
            if j < nb:
                a = next(itertools.islice(obj._blocks.axis_values(0), j, None)) if False else obj._blocks._blocks[j]
                txt = f'_blocks._blocks[{j}]'
            else:
                a = (obj.index.values, obj.index.positions, obj.columns.values, obj.columns.positions)[j - nb]
                txt = ('index.values', 'index.positions', 'columns.values', 'columns.positions')[j - nb]
        self.callers.append(a)
        self.emit(f'SExpose {c} {j}', f'a{len(self.callers) - 1} = c{c}.{txt}')

    # ---- result
    def hist_lit(self):
        return '[' + '; '.join(self.steps) + ']'

    def trace_lit(self):
        return '[' + '; '.join(f'({lit.b(ok)}, {obs_lit(conts, callers)})' for ok, conts, callers in self.trace) + ']'

    def shares_lit(self):
        return '[' + '; '.join('[' + '; '.join('[' + '; '.join(('None' if x is None else f'Some {lit.b(x)}') for x in row) + ']' for row in slots) + ']' for slots in self.shares()) + ']'


SLICES = [slice(None, None, None), slice(1, None, None), slice(None, 2, None), slice(None, None, -1), slice(None, None, 2), slice(1, 3, None), slice(0, 0, None)]


def random_history(rng, sim, length, allow):
    '''allow: set of by-construction classes this history may enter ("readonly_alias", "own_alias", "pickle_index").'''
    sim.new([rng.randrange(-3, 9) for _ in range(rng.choice([0, 1, 2, 3, 3, 4]))] if rng.random() < 0.15 else rng.sample(range(10, 60), rng.choice([2, 3, 3, 4])))
    for _ in range(length):
        nk, nc = len(sim.callers), len(sim.conts)
        r = rng.random()
        if r < 0.08:
            sim.new(rng.sample(range(10, 60), rng.choice([1, 2, 3, 4])))
        elif r < 0.20:
            k = rng.randrange(nk)
            if sim.callers[k].ndim == 1:
                sim.view(k, rng.choice(SLICES))
        elif r < 0.27:
            k = rng.randrange(nk)
            sim.freeze(k)
        elif r < 0.45:
            k = rng.randrange(nk)
            a = sim.callers[k]
            if a.ndim == 1 and a.shape[0]:
                sim.write(k, rng.randrange(a.shape[0]), rng.randrange(-9, 0))
        elif r < 0.65:
            k = rng.randrange(nk)
            a = sim.callers[k]
            unsafe = (not a.flags.writeable) and sim._has_other_writeable_alias(k)
            which = rng.choice(['series', 'index', 'tb', 'tb2', 'frame', 'frame_own', 'list'])
            if which == 'frame_own':
                if sim._has_other_writeable_alias(k) and 'own_alias' not in allow:
                    continue
                sim.c_frame(k, True)
                continue
            if unsafe and 'readonly_alias' not in allow and which != 'list':
                continue
            if which == 'series':
                sim.c_series(k)
            elif which == 'index':
                sim.c_index(k)
            elif which == 'tb':
                sim.c_tb([k])
            elif which == 'tb2':
                k2 = rng.randrange(nk)
                a2 = sim.callers[k2]
                if (not a2.flags.writeable) and sim._has_other_writeable_alias(k2) and 'readonly_alias' not in allow:
                    continue
                sim.c_tb([k, k2])
            elif which == 'frame':
                sim.c_frame(k, False)
            else:
                sim.c_series_list(rng.sample(range(10, 60), 3))
        elif nc and r < 0.80:
            c = rng.randrange(nc)
            which = rng.choice(['slice', 'list', 'rename', 'compute', 'pickle', 'deepcopy'])
            kind = sim.conts[c][0]
            n = sim.conts[c][1].shape[0] if kind in ('tb', 'frame', 'series') else len(sim.conts[c][1])
            if which == 'slice':
                sim.d_select(c, rng.choice(SLICES))
            elif which == 'list':
                if n:
                    sim.d_select(c, [rng.randrange(n) for _ in range(rng.choice([1, 2]))] if kind != 'index' else rng.sample(range(n), min(n, 2)))
            elif which == 'rename':
                sim.d_rename(c)
            elif which == 'compute':
                sim.d_compute(c)
            elif which == 'pickle':
                if kind != 'tb' and 'pickle_index' not in allow:
                    continue
                sim.d_pickle(c)
            else:
                sim.d_deepcopy(c)
        elif nc:
            c = rng.randrange(nc)
            kind, obj = sim.conts[c]
            sim.expose(c, rng.randrange(len(sim.slots(kind, obj))))


def history_case(sim, stratum, guarded, spec=True):
    h, t, sh = sim.hist_lit(), sim.trace_lit(), sim.shares_lit()
    g = 'guarded w0 H' if guarded else 'negb (guarded w0 H)'
    m = f'(let H := {h} in trace_eqb (trace M_step w0 H) {t} && oshares_eqb (shares_obs (M_run w0 H)) {sh} && {g})%nat'
    s = f'(trace_eqb (trace S_step w0 {h}) {t})%nat' if spec else None
    nontrivial = any(st.startswith('SConstruct [FromCaller') for st in sim.steps) and any(st.startswith(('SWrite', 'SExpose', 'SDerive')) for st in sim.steps)
    tags = {'stratum': stratum}
    for f in ('readonly_alias', 'own_alias', 'pickle_index'):
        tags[f] = f in sim.flags
    return Case(stratum, {'replay': ['import numpy as np, static_frame as sf, pickle, copy; from static_frame.core.type_blocks import TypeBlocks'] + sim.desc,
                          'observed_final': {'containers': sim.trace[-1][1], 'caller_arrays': sim.trace[-1][2]} if sim.trace else None},
                m=m, s=s, py_fail='; '.join(sim.violations[:3]) if (sim.violations and spec) else None,
                tags=tags, nontrivial=nontrivial, key=h)


def heap_cases(ctx):
    n = ctx.n(250, 2500)
    for i in range(n):
        sim = Sim()
        random_history(ctx.rng, sim, ctx.rng.choice([3, 4, 5, 6, 7]), allow=set())
        assert not sim.flags
        for st in sim.steps:
            ctx.count('step:' + st.split()[0])
        yield history_case(sim, 'heap:guarded-random', True)




# =============================================================================== interface x zoo enumeration (Python-side observation)
import inspect
import io
import os
import shutil
import tempfile

_SENTINEL = object()


def digest(a):
    '''Hashable content of an ndarray (dtype, shape, every element).'''
    if isinstance(a, np.ma.MaskedArray):
        return ('ma', digest(np.asarray(a.data)), digest(np.ma.getmaskarray(a)))
    if a.dtype.kind == 'O':
        return (a.dtype.str, a.shape, repr(a.tolist()))
    return (a.dtype.str, a.shape, np.ascontiguousarray(a).tobytes())


def _is_sf(obj):
    return type(obj).__module__.startswith('static_frame')


def observe_container(obj):
    '''Everything observable through a container (labels, values, dtypes, name, shape, class), via public accessors plus the raw blocks.'''
    import static_frame as sf
    from static_frame.core.type_blocks import TypeBlocks
    from static_frame.core.index_base import IndexBase
    if isinstance(obj, TypeBlocks):
        return ('TB', obj._shape, tuple(digest(b) for b in obj._blocks), tuple(str(d) for d in obj._dtypes))
    if isinstance(obj, IndexBase):
        if obj.depth > 1:
            return (type(obj).__name__, repr(obj.name), digest(obj.values), digest(obj.positions),
                    tuple(str(d) for d in obj.dtypes.values), tuple(t.__name__ for t in obj.index_types.values))
        return (type(obj).__name__, repr(obj.name), digest(obj.values), digest(obj.positions))
    if isinstance(obj, sf.Series):
        return (type(obj).__name__, repr(obj.name), digest(obj.values), observe_container(obj.index))
    if isinstance(obj, sf.Frame):
        return (type(obj).__name__, repr(obj.name), obj.shape, observe_container(obj._blocks),
                observe_container(obj.index), observe_container(obj.columns))
    raise TypeError(type(obj))


def _slots_of(obj):
    names = []
    for cls in type(obj).__mro__:
        sl = cls.__dict__.get('__slots__', ())
        if isinstance(sl, str):
            sl = (sl,)
        names.extend(n for n in sl if n != '__weakref__')
    return names


def walk_arrays(obj, path='r', out=None, seen=None, depth=0, budget=None):
    '''Every ndarray reachable from a result: slots of static-frame objects, tuples / lists / dicts / sets, generators and iterators
    (consumed, bounded), object arrays holding containers or arrays, masked arrays.'''
    if out is None:
        out, seen, budget = [], set(), [4000]
    if depth > 8 or budget[0] <= 0 or id(obj) in seen:
        return out
    budget[0] -= 1
    if isinstance(obj, np.ndarray):
        seen.add(id(obj))
        out.append((path, obj))
        if isinstance(obj, np.ma.MaskedArray):
            out.append((path + '.mask', np.ma.getmaskarray(obj)))
        if obj.dtype.kind == 'O' and obj.size <= 64:
            for i, x in enumerate(obj.reshape(-1)):
                if isinstance(x, np.ndarray) or _is_sf(x):
                    walk_arrays(x, f'{path}<{i}>', out, seen, depth + 1, budget)
        return out
    if obj is None or isinstance(obj, (str, bytes, int, float, complex, bool, np.generic, type)):
        return out
    seen.add(id(obj))
    if isinstance(obj, (list, tuple, set, frozenset)):
        for i, x in enumerate(itertools.islice(obj, 64)):
            walk_arrays(x, f'{path}[{i}]', out, seen, depth + 1, budget)
    elif isinstance(obj, dict):
        for i, (k, v) in enumerate(itertools.islice(obj.items(), 64)):
            walk_arrays(k, f'{path}.key{i}', out, seen, depth + 1, budget)
            walk_arrays(v, f'{path}[{k!r}]', out, seen, depth + 1, budget)
    elif _is_sf(obj):
        if is_node(obj):
            return out
        for n in _slots_of(obj):
            try:
                v = getattr(obj, n)
            except AttributeError:
                continue
            walk_arrays(v, f'{path}.{n}', out, seen, depth + 1, budget)
        d = getattr(obj, '__dict__', None)
        if d:
            for n, v in list(d.items())[:32]:
                walk_arrays(v, f'{path}.{n}', out, seen, depth + 1, budget)
    elif hasattr(obj, '__next__') or inspect.isgenerator(obj) or type(obj).__name__ in ('dict_keys', 'dict_values', 'dict_items', 'map', 'zip', 'filter'):
        try:
            for i, x in enumerate(itertools.islice(obj, 24)):
                walk_arrays(x, f'{path}<it{i}>', out, seen, depth + 1, budget)
        except Exception:  # noqa: an iterator that raises midway is a failing call
            pass
    return out


def is_node(obj):
    '''An interface node: selector / assignment / iterator / accessor object hanging off a container.'''
    if not _is_sf(obj):
        return False
    n = type(obj).__name__
    return n.startswith(('Interface', 'IterNode', 'SeriesAssign', 'FrameAssign', 'FrameAsType', 'IndexHierarchyAsType'))


# ------------------------------------------------------------------ the zoo
def _ro(a):
    a.flags.writeable = False
    return a


def zoo(tier):
    '''[(name, recipe_text, factory)] -- factory() -> (container, [caller-held source arrays]).'''
    import datetime
    import static_frame as sf
    from static_frame.core.type_blocks import TypeBlocks
    from .. import zoo as Z
    out = []

    def add(name, text, fn):
        out.append((name, text, fn))

    # ---- Series: every dtype kind, 0-size, hierarchical / date index, built from caller arrays (writeable and read-only) and iterables
    add('S-int-arr', "a=np.array([3,1,2,1]); sf.Series(a, index=tuple('abcd'), name='s')",
        lambda: (lambda a: (sf.Series(a, index=tuple('abcd'), name='s'), [a]))(np.array([3, 1, 2, 1])))
    add('S-int-roarr', 'a=np.array([3,1,2,1]); a.flags.writeable=False; sf.Series(a)',
        lambda: (lambda a: (sf.Series(a), [a]))(_ro(np.array([3, 1, 2, 1]))))
    add('S-float-nan', "sf.Series([1.5, nan, -2.0, nan], index=(10,20,30,40))", lambda: (sf.Series([1.5, np.nan, -2.0, np.nan], index=(10, 20, 30, 40)), []))
    add('S-bool', "sf.Series([True, False, True], index=tuple('xyz'))", lambda: (sf.Series([True, False, True], index=tuple('xyz')), []))
    add('S-str', "sf.Series(['ab', 'c', 'ab'], index=(1,2,3), name=('t',1))", lambda: (sf.Series(['ab', 'c', 'ab'], index=(1, 2, 3), name=('t', 1)), []))
    add('S-obj', "sf.Series([1, 'a', None, 2.5], index=tuple('abcd'))", lambda: (sf.Series([1, 'a', None, 2.5], index=tuple('abcd')), []))
    add('S-dt64', "sf.Series(np.array(['2020-01-01','2020-01-03','NaT'], dtype='datetime64[D]'), index=sf.IndexDate(('2021-05-01','2021-05-02','2021-05-03')))",
        lambda: (lambda a: (sf.Series(a, index=sf.IndexDate(('2021-05-01', '2021-05-02', '2021-05-03'))), [a]))(np.array(['2020-01-01', '2020-01-03', 'NaT'], dtype='datetime64[D]')))
    add('S-empty', 'sf.Series(())', lambda: (sf.Series(()), []))
    add('S-hier', "sf.Series((1,2,3,4), index=sf.IndexHierarchy.from_product(('a','b'),(1,2)))",
        lambda: (sf.Series((1, 2, 3, 4), index=sf.IndexHierarchy.from_product(('a', 'b'), (1, 2))), []))
    add('SHE-int', "sf.SeriesHE((1,2,3), index=tuple('abc'))", lambda: (sf.SeriesHE((1, 2, 3), index=tuple('abc')), []))
    if tier != 'quick':
        add('S-complex', 'sf.Series([1+2j, 3j])', lambda: (sf.Series([1 + 2j, 3j]), []))
        add('S-bytes', "sf.Series(np.array([b'a', b'bc']))", lambda: (lambda a: (sf.Series(a), [a]))(np.array([b'a', b'bc'])))
        add('S-td64', "sf.Series(np.array([1, 2], dtype='timedelta64[s]'))", lambda: (lambda a: (sf.Series(a), [a]))(np.array([1, 2], dtype='timedelta64[s]')))
        add('S-uint8', "sf.Series(np.array([1, 200, 3], dtype=np.uint8), index=tuple('abc'))", lambda: (lambda a: (sf.Series(a, index=tuple('abc')), [a]))(np.array([1, 200, 3], dtype=np.uint8)))

    # ---- Index
    add('I-int-arr', 'a=np.array([10,20,30]); sf.Index(a, name="i")', lambda: (lambda a: (sf.Index(a, name='i'), [a]))(np.array([10, 20, 30])))
    add('I-str', "sf.Index(tuple('abcd'))", lambda: (sf.Index(tuple('abcd')), []))
    add('I-obj', "sf.Index((1, 'a', None))", lambda: (sf.Index((1, 'a', None)), []))
    add('I-empty', 'sf.Index(())', lambda: (sf.Index(()), []))
    add('I-date', "sf.IndexDate(('2020-01-01','2020-01-02','2020-02-01'))", lambda: (sf.IndexDate(('2020-01-01', '2020-01-02', '2020-02-01')), []))
    add('I-auto', 'sf.Series((5,6,7)).index', lambda: (sf.Series((5, 6, 7)).index, []))
    add('IGO-str', "sf.IndexGO(tuple('abc'))", lambda: (sf.IndexGO(tuple('abc')), []))
    if tier != 'quick':
        add('I-float', 'sf.Index((1.5, 2.5))', lambda: (sf.Index((1.5, 2.5)), []))
        add('I-year', "sf.IndexYear(('2019','2020'))", lambda: (sf.IndexYear(('2019', '2020')), []))
        add('I-ym', "sf.IndexYearMonth(('2019-01','2020-03'))", lambda: (sf.IndexYearMonth(('2019-01', '2020-03')), []))
        add('I-sec', "sf.IndexSecond(('2019-01-01T00:00:01','2020-03-01T00:00:02'))", lambda: (sf.IndexSecond(('2019-01-01T00:00:01', '2020-03-01T00:00:02')), []))

    # ---- IndexHierarchy
    add('IH-2', "sf.IndexHierarchy.from_product(('a','b'),(1,2,3), name='h')", lambda: (sf.IndexHierarchy.from_product(('a', 'b'), (1, 2, 3), name='h'), []))
    add('IH-3', "sf.IndexHierarchy.from_labels([('a',1,'x'),('a',1,'y'),('a',2,'x'),('b',1,'x')])",
        lambda: (sf.IndexHierarchy.from_labels([('a', 1, 'x'), ('a', 1, 'y'), ('a', 2, 'x'), ('b', 1, 'x')]), []))
    add('IH-date', "sf.IndexHierarchy.from_product(('a','b'), sf.IndexDate(('2020-01-01','2020-01-02')))",
        lambda: (sf.IndexHierarchy.from_product(('a', 'b'), sf.IndexDate(('2020-01-01', '2020-01-02'))), []))
    add('IHGO-2', "sf.IndexHierarchyGO.from_product(('a','b'),(1,2))", lambda: (sf.IndexHierarchyGO.from_product(('a', 'b'), (1, 2)), []))
    add('IH-arr', "a=np.array([['a',1],['a',2],['b',1]],dtype=object); sf.IndexHierarchy.from_labels(a)",
        lambda: (lambda a: (sf.IndexHierarchy.from_labels(a), [a]))(np.array([['a', 1], ['a', 2], ['b', 1]], dtype=object)))

    # ---- Frame: dtype mixes x block layouts
    def cols_for(kinds, rows):
        base = {
            'i': lambda k: np.arange(rows, dtype=np.int64) * (k + 2) - 3,
            'f': lambda k: np.array([1.5, np.nan, -2.0, 4.0, np.nan][:rows]) + k,
            'b': lambda k: np.array([True, False, True, True, False][:rows]),
            'U': lambda k: np.array(['ab', 'c', 'ab', 'zz', ''][:rows]),
            'O': lambda k: np.array([1, 'a', None, 2.5, (1, 2)][:rows] if rows < 5 else [1, 'a', None, 2.5, 'q'], dtype=object),
            'M': lambda k: np.array(['2020-01-01', '2020-01-03', 'NaT', '2021-01-01', '1999-12-31'][:rows], dtype='datetime64[D]'),
        }
        return [base[c](k) for k, c in enumerate(kinds)]

    def frame_recipes(kinds, rows, cls_name='Frame', index=None, columns=None, limit=None):
        cols = cols_for(kinds, rows)
        layouts = list(Z.layouts_for([c.dtype for c in cols]))
        if limit is not None:
            layouts = layouts[:1] + layouts[-limit + 1:] if limit > 1 else layouts[:1]
        for lay in layouts:
            name = f'F-{cls_name}-{kinds}-{rows}r-{Z.layout_str(lay)}'

            def fn(lay=lay):
                cs = cols_for(kinds, rows)
                f = Z.frame_from_columns(cs, lay, index=index() if index else None,
                                         columns=columns() if columns else tuple('pqrstu'[:len(kinds)]), name='f', cls=getattr(sf, cls_name))
                return f, cs
            yield name, f'zoo.frame_from_columns(cols {kinds} x {rows} rows, layout {Z.layout_str(lay)}, cls={cls_name})', fn

    lim = 2 if tier == 'quick' else None
    for r in frame_recipes('iif', 3, limit=lim):
        add(*r)
    for r in frame_recipes('ifUb', 4, limit=1 if tier == 'quick' else 3):
        add(*r)
    for r in frame_recipes('iO', 3, limit=1):
        add(*r)
    for r in frame_recipes('iiM', 3, limit=1 if tier == 'quick' else 2):
        add(*r)
    for r in frame_recipes('ii', 2, cls_name='FrameGO', limit=lim):
        add(*r)
    for r in frame_recipes('if', 3, cls_name='FrameHE', limit=1):
        add(*r)
    for r in frame_recipes('iii', 4, limit=1, index=lambda: sf.IndexHierarchy.from_product(('a', 'b'), (1, 2)),
                           columns=lambda: sf.IndexHierarchy.from_labels([('x', 1), ('x', 2), ('y', 1)])):
        add(r[0] + '-hier', r[1] + ' hierarchical index and columns', r[2])
    for r in frame_recipes('ff', 3, limit=1, index=lambda: sf.IndexDate(('2020-01-01', '2020-01-02', '2020-01-03'))):
        add(r[0] + '-date', r[1] + ' IndexDate index', r[2])
    add('F-0rows', "sf.Frame.from_records((), columns=('a','b'))", lambda: (sf.Frame.from_records((), columns=('a', 'b')), []))
    add('F-0cols', "sf.Frame(index=(1,2,3))", lambda: (sf.Frame(index=(1, 2, 3)), []))
    add('F-0x0', 'sf.Frame()', lambda: (sf.Frame(), []))
    add('F-arr2d', "a=np.arange(6).reshape(3,2); sf.Frame(a, columns=('a','b'))", lambda: (lambda a: (sf.Frame(a, columns=('a', 'b')), [a]))(np.arange(6).reshape(3, 2)))
    add('F-records', "sf.Frame.from_records([(1,'a',1.5),(2,'b',nan)], columns=('x','y','z'), index=('r','s'))",
        lambda: (sf.Frame.from_records([(1, 'a', 1.5), (2, 'b', np.nan)], columns=('x', 'y', 'z'), index=('r', 's')), []))

    # ---- TypeBlocks
    def tb_recipe(kinds, rows, lay):
        def fn():
            cs = cols_for(kinds, rows)
            srcs = [c.copy() for c in cs]
            return TypeBlocks.from_blocks(Z.blocks_from_columns(cs, lay)), []
        return fn
    for kinds, rows in (('iif', 3), ('iU', 2)):
        cols = cols_for(kinds, rows)
        lays = list(Z.layouts_for([c.dtype for c in cols]))
        for lay in (lays[:2] if tier == 'quick' else lays):
            add(f'TB-{kinds}-{Z.layout_str(lay)}', f'TypeBlocks.from_blocks(zoo.blocks_from_columns(cols {kinds} x {rows}, {Z.layout_str(lay)}))', tb_recipe(kinds, rows, lay))
    add('TB-empty', 'TypeBlocks.from_zero_size_shape((0, 2))', lambda: (TypeBlocks.from_zero_size_shape((0, 2)), []))
    return out


# ------------------------------------------------------------------ argument pools (valid and failing), by parameter name
class Recv:
    '''A receiver with what the pools need to know about it.'''

    def __init__(self, name, text, obj, sources):
        import static_frame as sf
        from static_frame.core.type_blocks import TypeBlocks
        from static_frame.core.index_base import IndexBase
        self.name, self.text, self.obj, self.sources = name, text, obj, sources
        self.cls = type(obj)
        if isinstance(obj, TypeBlocks):
            self.kind = 'tb'
            self.L0, self.L1 = list(range(obj.shape[0])), list(range(obj.shape[1]))
        elif isinstance(obj, sf.Frame):
            self.kind = 'frame'
            self.L0, self.L1 = list(obj.index), list(obj.columns)
        elif isinstance(obj, sf.Series):
            self.kind = 'series'
            self.L0, self.L1 = list(obj.index), []
        elif isinstance(obj, IndexBase):
            self.kind = 'ih' if obj.depth > 1 else 'index'
            self.L0, self.L1 = list(obj), []
        else:
            raise TypeError(type(obj))
        self.n0, self.n1 = len(self.L0), len(self.L1)
        self.static = getattr(obj, 'STATIC', True)
        self.mutators = set() if self.static else {'append', 'extend', 'extend_items', '__setitem__'}


def _warr(vals, dtype=None):
    '''A fresh WRITEABLE caller array.'''
    return np.array(vals, dtype=dtype)


def key_pool(R, tail, rng):
    '''Selection keys for the node / member whose name is `tail` ('iloc', 'loc', 'bloc', '[]').'''
    import static_frame as sf
    n0, n1, L0, L1 = R.n0, R.n1, R.L0, R.L1
    pos = [('0', lambda: 0), ('-1', lambda: -1), ('[0]', lambda: [0]), ('slice(0,2)', lambda: slice(0, 2)), ('slice(None,None,-1)', lambda: slice(None, None, -1)),
           ('slice(None)', lambda: slice(None)), ('np.array([0]) writeable', lambda: _warr([0])), ('99', lambda: 99), ('None', lambda: None)]
    if n0:
        pos += [(f'np bool mask[{n0}] writeable', lambda: _warr([i % 2 == 0 for i in range(n0)])), ('[n-1, 0]', lambda: [n0 - 1, 0])]
    positional = R.kind in ('index', 'ih', 'tb') or tail == 'iloc'
    if tail == 'bloc':
        out = [('2D bool ndarray writeable', lambda: _warr([[(i + j) % 2 == 0 for j in range(n1)] for i in range(n0)], dtype=bool).reshape(n0, n1)),
               ('wrong-shape mask', lambda: _warr([[True]]))]
        if R.kind == 'frame':
            out.append(('boolean Frame', lambda: sf.Frame(np.full((n0, n1), True), index=R.obj.index, columns=R.obj.columns)))
        return out
    if positional:
        out = list(pos)
        if R.kind in ('frame', 'tb'):
            out += [('(0, 0)', lambda: (0, 0)), ('(slice(None), 0)', lambda: (slice(None), 0)), ('(slice(None), [0])', lambda: (slice(None), [0])),
                    ('(slice(None), slice(0,2))', lambda: (slice(None), slice(0, 2))), ('([0], slice(None,None,-1))', lambda: ([0], slice(None, None, -1))),
                    ('(0, 99)', lambda: (0, 99))]
            if n1:
                out.append(('(slice(None), bool mask cols writeable)', lambda: (slice(None), _warr([j % 2 == 0 for j in range(n1)]))))
        if R.kind == 'ih' and tail == 'loc' and L0:
            out += [(f'{L0[0]!r}', lambda: L0[0]), (f'HLoc[{L0[0][0]!r}]', lambda: sf.HLoc[L0[0][0]]), (f'[{L0[0]!r}, {L0[-1]!r}]', lambda: [L0[0], L0[-1]]),
                    ("('zz', 9)", lambda: ('zz', 9))]
        if R.kind == 'index' and tail == 'loc' and L0:
            out += [(f'{L0[0]!r}', lambda: L0[0]), (f'[{L0[0]!r}]', lambda: [L0[0]]), ("'zz'", lambda: 'zz')]
        return out
    # label keys
    labs = L1 if (R.kind == 'frame' and tail == '[]') else L0
    out = [("'zz' (missing)", lambda: 'zz'), ('slice(None)', lambda: slice(None)), ('ILoc[0]', lambda: sf.ILoc[0]), ('[] empty list', lambda: [])]
    if labs:
        a, b = labs[0], labs[-1]
        out += [(f'{a!r}', lambda: a), (f'[{a!r}, {b!r}]', lambda: [a, b]), (f'slice({a!r}, {b!r})', lambda: slice(a, b)),
                ('bool mask writeable', lambda: _warr([i % 2 == 0 for i in range(len(labs))])),
                ('label ndarray writeable', lambda: _warr([a], dtype=object))]
        if isinstance(a, tuple):
            out += [(f'HLoc[{a[0]!r}]', lambda: sf.HLoc[a[0]])]
    if R.kind == 'frame' and tail == 'loc' and L0 and L1:
        out += [(f'({L0[0]!r}, {L1[0]!r})', lambda: (L0[0], L1[0])), (f'(slice(None), [{L1[0]!r}])', lambda: (slice(None), [L1[0]])),
                (f'([{L0[-1]!r}, {L0[0]!r}], slice(None))', lambda: ([L0[-1], L0[0]], slice(None)))]
    return out


def arg_pool(R, pname, default, path, rng, tmp):
    '''Candidate values [(text, thunk)] for parameter `pname` of the member at `path`; the first is the most plausible.'''
    import static_frame as sf
    obj, n0, n1, L0, L1 = R.obj, R.n0, R.n1, R.L0, R.L1
    member = path[-1][0] if path else ''
    top = path[0][0] if path else ''
    is_op = member.startswith('__') and member not in ('__getitem__', '__call__', '__contains__', '__round__', '__deepcopy__', '__array__', '__array_ufunc__')

    def shaped(fill=2):
        if R.kind in ('frame', 'tb'):
            return np.full((n0, n1), fill)
        return np.full(n0, fill)

    P = []
    if pname == 'key':
        tail = 'loc'
        for name, kind in reversed(path):
            if name in ('iloc', 'loc', 'bloc'):
                tail = name
                break
            if name in ('__getitem__',):
                tail = '[]'
        return key_pool(R, tail, rng)
    if pname in ('other', 'others'):
        one = [('recv', lambda: obj), ('2', lambda: 2), ('ndarray same shape writeable', lambda: shaped()), ("'a'", lambda: 'a'), ('[1]', lambda: [1])]
        if R.kind == 'series':
            one.append(('recv.iloc[:1]', lambda: obj.iloc[:1]))
        if R.kind in ('index', 'ih') and n0:
            one.append(('recv[:1]', lambda: obj[:1]))
        if pname == 'others':
            return [('[recv]', lambda: [obj]), ('[recv, recv]', lambda: [obj, obj]), ('[2]', lambda: [2])]
        return one
    if pname in ('value', 'fill_value', 'values', 'element', 'composite_index_fill_value'):
        P = [('0', lambda: 0), ('ndarray same shape writeable', lambda: shaped(7)), ('None', lambda: None), ("'x'", lambda: 'x'),
             ('[0, 1]', lambda: [0, 1]), ('1D writeable ndarray len n0', lambda: _warr(list(range(n0))))]
        if R.kind == 'series':
            P.append(('Series same index', lambda: sf.Series(list(range(n0)), index=obj.index)))
        if R.kind == 'frame':
            P.append(('Frame same labels', lambda: sf.Frame(np.full((n0, n1), 5), index=obj.index, columns=obj.columns)))
            P.append(('Series on columns', lambda: sf.Series(list(range(n1)), index=obj.columns)))
        if pname == 'values':
            P = [('[0, 1]', lambda: [0, 1]), ('1D writeable ndarray len n0', lambda: _warr(list(range(n0)))), ('ndarray same shape writeable', lambda: shaped(7)),
                 ('()', lambda: ()), ('5', lambda: 5)]
        return P
    if pname == 'axis':
        return [('0', lambda: 0), ('1', lambda: 1), ('3', lambda: 3)]
    if pname in ('func', 'window_func', 'mapper', 'condition', 'constructor', 'ufunc', 'ufunc_skipna'):
        P = [('lambda x: x', lambda: (lambda x: x)), ('lambda *a: 0', lambda: (lambda *a: 0)), ('np.sum', lambda: np.sum), ('dict()', lambda: {}), ('None', lambda: None)]
        if pname == 'mapper' and L0:
            P.insert(1, ('{label: label}', lambda: {L0[0]: L0[0]}))
        if pname == 'constructor':
            P.insert(0, ('sf.Index', lambda: sf.Index))
        return P
    if pname == 'mapping':
        return [('{}', lambda: {}), ('{0: 1}', lambda: {0: 1}), ('Series', lambda: sf.Series((1,), index=(0,))), ('5', lambda: 5)]
    if pname in ('index', 'columns', 'labels', 'names', 'fields'):
        n = n1 if pname == 'columns' else n0
        P = [(f'range({n}) as list', lambda: list(range(n))), (f'writeable label ndarray len {n}', lambda: _warr([f'k{i}' for i in range(n)])),
             ('sf.Index(range(n))', lambda: sf.Index(range(n))), ('IndexAutoFactory', lambda: sf.IndexAutoFactory), ('None', lambda: None),
             ("('only',)", lambda: ('only',)), ('IndexGO', lambda: sf.IndexGO(range(n)))]
        if pname == 'names':
            P = [("('n0','n1','n2')[:depth]", lambda: tuple(f'n{i}' for i in range(getattr(obj, 'depth', 1)))), ("'n'", lambda: 'n')]
        return P
    if pname in ('dtype', 'dtypes', 'values_dtype'):
        return [('float', lambda: float), ('object', lambda: object), ('str', lambda: str), ('np.int64', lambda: np.int64), ("'bogus'", lambda: 'bogus'), ('None', lambda: None)]
    if pname == 'name':
        return [("'n'", lambda: 'n'), ("('a', 1)", lambda: ('a', 1)), ('[1] (unhashable)', lambda: [1]), ('None', lambda: None)]
    if pname in ('count', 'size', 'shift', 'step', 'limit', 'decimals', 'depth_level', 'level', 'index_depth', 'columns_depth', 'start', 'stop', 'ddof',
                 'label_shift', 'start_shift', 'size_increment', 'depth', 'left_depth_level', 'right_depth_level', 'skip_header', 'skip_footer', 'lower', 'upper',
                 'depth_reference', 'seed'):
        P = [('1', lambda: 1), ('0', lambda: 0), ('2', lambda: 2), ('-1', lambda: -1), ('[0, 1]', lambda: [0, 1]), ("'a'", lambda: 'a')]
        if pname in ('lower', 'upper'):
            P.insert(1, ('ndarray same shape writeable', lambda: shaped(1)))
        return P
    if pname == 'fp':
        return [('tmp path', lambda: os.path.join(tmp, f'f{rng.randrange(10 ** 9)}.out')), ('StringIO', lambda: io.StringIO())]
    if pname == 'memo':
        return [('{}', lambda: {})]
    if pname in ('items', 'pairs'):
        P = [("[('a', 1), ('b', 2)]", lambda: [('a', 1), ('b', 2)]), ("[('a', writeable ndarray len n0)]", lambda: [('a', _warr(list(range(n0))))]),
             ("[('a', Series), ('b', Series)]", lambda: [('a', sf.Series((1, 2))), ('b', sf.Series((3, 4)))]), ('()', lambda: ()), ('5', lambda: 5)]
        if R.kind == 'frame':
            P.insert(0, ("[('new', writeable ndarray len n0)]", lambda: [('new', _warr(list(range(n0))))]))
        return P
    if pname in ('records', 'elements', 'data', 'json_data', 'msgpack_data', 'array', 'block', 'blocks', 'raw_blocks', 'tree', 'levels'):
        P = [('2D writeable ndarray', lambda: _warr([[1, 2], [3, 4]])), ('1D writeable ndarray', lambda: _warr([1, 2, 3])), ('[(1, 2), (3, 4)]', lambda: [(1, 2), (3, 4)]),
             ('[writeable 1D, writeable 1D]', lambda: [_warr([1, 2]), _warr([3, 4])]), ("{'a': (1, 2)}", lambda: {'a': (1, 2)}), ("'[1, 2]'", lambda: '[1, 2]'), ('()', lambda: ())]
        if pname == 'block':
            P = [('1D writeable ndarray len n0', lambda: _warr(list(range(n0)))), ('2D writeable ndarray n0 x 2', lambda: np.full((n0, 2), 3)), ('wrong length', lambda: _warr(list(range(n0 + 1))))]
        if pname == 'levels':
            P.insert(0, ('IndexLevel of recv', lambda: getattr(obj, '_levels', None)))
        if pname == 'tree':
            P.insert(0, ("{'a': (1, 2), 'b': (1,)}", lambda: {'a': (1, 2), 'b': (1,)}))
        return P
    if pname in ('container', 'containers', 'frames', 'series', 'type_blocks'):
        P = [('recv', lambda: obj), ('[recv]', lambda: [obj]), ('[recv, recv]', lambda: [obj, obj]), ('5', lambda: 5)]
        if pname in ('containers', 'frames', 'type_blocks'):
            P = P[1:] + P[:1]
        if pname == 'series' and R.kind == 'frame':
            P.insert(0, ('recv column 0', lambda: obj.iloc[:, 0]))
        return P
    if pname == 'shape':
        return [('(0, 2)', lambda: (0, 2)), ('(2, 2)', lambda: (2, 2))]
    if pname == 'label':
        return [("'new'", lambda: 'new'), (f'{L0[0]!r}' if L0 else "'q'", lambda: L0[0] if L0 else 'q')]
    if pname == 'column':
        return [(f'{L1[0]!r}' if L1 else "'q'", lambda: L1[0] if L1 else 'q'), ("'zz'", lambda: 'zz')]
    if pname in ('index_fields', 'columns_fields', 'data_fields', 'left_columns', 'right_columns', 'columns_select'):
        return [(f'{L1[0]!r}' if L1 else "'q'", lambda: L1[0] if L1 else 'q'), (f'[{L1[-1]!r}]' if L1 else "['q']", lambda: [L1[-1]] if L1 else ['q']), ("'zz'", lambda: 'zz')]
    if pname == 'depth_map':
        return [('[1, 0]', lambda: [1, 0]), ('[0]', lambda: [0])]
    if pname == 'bloc_key':
        return key_pool(R, 'bloc', rng)
    if pname in ('delimiter',):
        return [("','", lambda: ',')]
    if pname in ('url', 'query', 'connection'):
        return [("'x'", lambda: 'x')]
    # generic: from the default
    if default is not inspect.Parameter.empty:
        if isinstance(default, bool):
            return [(repr(default), lambda: default), (repr(not default), lambda: (not default))]
        if isinstance(default, int):
            return [(repr(default), lambda: default), ('1', lambda: 1)]
        if isinstance(default, str):
            return [(repr(default), lambda: default), ("'x'", lambda: 'x')]
        return [(repr(default)[:30], lambda: default), ('1', lambda: 1), ("'x'", lambda: 'x')]
    return [('0', lambda: 0), ("'a'", lambda: 'a'), ('None', lambda: None), ('recv', lambda: obj), ('[recv]', lambda: [obj]), ('lambda x: x', lambda: (lambda x: x))]


SKIP_MEMBERS = {
    '__init__',          # re-initialising an existing instance is not a use of the public interface (alphabet exclusion)
    '__setstate__', '__class__', '__sizeof__', '__reduce__', '__reduce_ex__', '__init_subclass__', '__subclasshook__', '__new__', '__dir__', '__format__',
    '__getattribute__', '__setattr__', '__delattr__', '__doc__', '__module__', '__slots__', '__hash__' if False else '__weakref__',
    'to_clipboard', 'from_clipboard', 'interface',
}
SKIP_SUFFIX = ('_pool',)     # process pools: covered by C18


def call_plans(R, fn, path, rng, tmp, budget):
    '''Argument tuples for a callable: the canonical combination, each alternative of each parameter, random mixes; valid and failing.'''
    try:
        sig = inspect.signature(fn)
    except (TypeError, ValueError):
        return [((), {}, '()')]
    req, opt, var = [], [], False
    for p in sig.parameters.values():
        if p.kind in (p.VAR_POSITIONAL, p.VAR_KEYWORD):
            var = True
            continue
        (req if p.default is p.empty else opt).append(p)
    pools = {p.name: arg_pool(R, p.name, p.default, path, rng, tmp) for p in req + opt}
    plans = []

    def build(choice):
        args, kwargs, txt = [], {}, []
        for p in req:
            t, th = choice[p.name]
            if p.kind == p.KEYWORD_ONLY:
                kwargs[p.name] = th
                txt.append(f'{p.name}={t}')
            else:
                args.append(th)
                txt.append(t)
        for p in opt:
            if p.name in choice:
                t, th = choice[p.name]
                kwargs[p.name] = th
                txt.append(f'{p.name}={t}')
        return args, kwargs, '(' + ', '.join(txt) + ')'

    canon = {p.name: pools[p.name][0] for p in req}
    plans.append(build(canon))
    alts = []
    for p in req:
        for alt in pools[p.name][1:]:
            c = dict(canon)
            c[p.name] = alt
            alts.append(c)
    for p in opt:
        for alt in pools[p.name]:
            c = dict(canon)
            c[p.name] = alt
            alts.append(c)
    rng.shuffle(alts)
    for c in alts[:max(0, budget - 1)]:
        plans.append(build(c))
    return plans


# ------------------------------------------------------------------ the explorer
def render(path):
    out = ''
    for name, kind in path:
        if kind == 'getitem':
            out += '[]'
        elif kind == 'call':
            out += '()'
        elif name == '__getitem__':
            pass        # rendered by the following getitem step
        else:
            out += ('.' if out else '') + name
    return out


class Explorer:
    '''Applies every public member (recursively through selector / assignment / iterator / accessor nodes) of one receiver, with
    argument pools, in a random order; after every call compares a deep snapshot of every live container of the family and walks the
    result for writeable arrays and for arrays aliasing caller-held writeable arrays.'''

    def __init__(self, R, rng, tmp, budget, members=None, with_constructors=True):
        from static_frame.core.interface import InterfaceSummary
        self.R, self.rng, self.tmp, self.budget = R, rng, tmp, budget
        self.stats = {}          # path string -> {'calls':, 'ok':, 'errors': {cls: n}}
        self.bad = []            # (path string, call text, reason, finding class or None)
        self.family = [('receiver', R.obj)]
        self.with_constructors = with_constructors
        obj = R.obj
        # a bystander sharing memory with the receiver, taken before anything is called
        try:
            if R.kind == 'frame':
                self.family.append(('receiver.iloc[:, ::-1]', obj.iloc[:, ::-1]))
                self.family.append(('receiver.T', obj.transpose()))
            elif R.kind == 'series':
                self.family.append(('receiver.iloc[::-1]', obj.iloc[::-1]))
            elif R.kind in ('index', 'ih'):
                self.family.append(('receiver.copy()', obj.copy()))
            elif R.kind == 'tb':
                self.family.append(('receiver.copy()', obj.copy()))
        except Exception:  # noqa
            pass
        names = [n for n, _, _ in InterfaceSummary.name_obj_iter(type(obj)) if n not in SKIP_MEMBERS and not n.endswith(SKIP_SUFFIX)]
        if members is not None:
            names = [n for n in names if n in members]
        self.names = names
        self.src_digest = [digest(a) for a in R.sources]
        self.base = self.snap()

    def snap(self):
        out = []
        for _, c in self.family:
            try:
                out.append(observe_container(c))
            except Exception as e:  # noqa: an observation that raises is itself a change
                out.append(('RAISES', type(e).__name__))
        return out

    def stat(self, ps, ok, err=None):
        st = self.stats.setdefault(ps, {'calls': 0, 'ok': 0, 'errors': {}})
        st['calls'] += 1
        if ok:
            st['ok'] += 1
        else:
            st['errors'][err] = st['errors'].get(err, 0) + 1

    def perform(self, path, text, thunk, caller_arrays=(), mutator=False):
        '''Run one call; returns (ok, result).'''
        ps = render(path)
        try:
            result = thunk()
            ok, err = True, None
        except Exception as e:  # noqa: failing calls are part of the quantifier
            result, ok, err = None, False, type(e).__name__
        self.stat(ps, ok, err)
        arrays = []
        if ok:
            try:
                arrays = walk_arrays(result)
            except Exception as e:  # noqa
                arrays = []
        after = self.snap()
        if after != self.base:
            if mutator:
                self.base = after
            else:
                which = [self.family[i][0] for i in range(len(after)) if after[i] != self.base[i]]
                self.bad.append((ps, text, f'observable state of {which} changed ({"call raised " + err if not ok else "call returned"})', None))
                self.base = after
        for apath, a in arrays:
            if a.flags.writeable:
                alias = any(np.may_share_memory(a, b) and np.shares_memory(a, b) for _, b in self._family_arrays())
                self.bad.append((ps, text, f'result array at {apath} (dtype {a.dtype}, shape {a.shape}) is writeable' + (' and shares memory with a live container' if alias else ''), None))
                break
        if ok and caller_arrays:
            for apath, a in arrays:
                for ctext, c in caller_arrays:
                    if c.flags.writeable and np.may_share_memory(a, c) and np.shares_memory(a, c):
                        self.bad.append((ps, text, f'result array at {apath} shares memory with the writeable caller array {ctext}', None))
                        break
        return ok, result

    def _family_arrays(self):
        out = []
        for _, c in self.family:
            out.extend(walk_arrays(c))
        return out

    def call(self, path, fn, node_depth):
        name = path[-1][0]
        mut = name in self.R.mutators
        for args_th, kwargs_th, txt in call_plans(self.R, fn, path, self.rng, self.tmp, self.budget):
            try:
                args = [th() for th in args_th]
                kwargs = {k: th() for k, th in kwargs_th.items()}
            except Exception:  # noqa: the pool could not build the argument for this receiver
                continue
            held = [(p, a) for p, a in walk_arrays([args, kwargs], 'arg') if a.flags.writeable]
            ok, result = self.perform(path + [('()', 'call')], f'{render(path)}{txt}', lambda: fn(*args, **kwargs), held, mutator=mut)
            if ok:
                self.after_result(path + [('()', 'call')], result, node_depth)

    def getitem(self, path, node, node_depth):
        pool = arg_pool(self.R, 'key', inspect.Parameter.empty, path, self.rng, self.tmp)
        picks = pool[:1] + self.rng.sample(pool[1:], min(len(pool) - 1, max(0, self.budget)))
        for txt, th in picks:
            try:
                key = th()
            except Exception:  # noqa
                continue
            held = [(p, a) for p, a in walk_arrays(key, 'key') if a.flags.writeable]
            ok, result = self.perform(path + [('[]', 'getitem')], f'{render(path)}[{txt}]', lambda: node[key], held)
            if ok:
                self.after_result(path + [('[]', 'getitem')], result, node_depth)

    def after_result(self, path, result, node_depth):
        if is_node(result) and node_depth < 3:
            self.explore_node(path, result, node_depth + 1)

    def explore_node(self, path, node, node_depth):
        names = [n for n in dir(type(node)) if (not n.startswith('_') or n in ('__getitem__', '__call__', '__iter__')) and not n.endswith(SKIP_SUFFIX)]
        self.rng.shuffle(names)
        for n in names:
            self.member(path, node, n, node_depth)

    def member(self, path, owner, n, node_depth):
        p = path + [(n, 'attr')]
        if n == '__getitem__':
            return self.getitem(path, owner, node_depth)
        if n == '__call__':
            return self.call(path[:-1] + [(path[-1][0], path[-1][1])] if False else path, owner, node_depth)
        try:
            cls_attr = inspect.getattr_static(type(owner), n, None)
        except Exception:  # noqa
            cls_attr = None
        if isinstance(cls_attr, property) or not callable(getattr(type(owner), n, None)) or is_node(getattr(type(owner), n, None)):
            ok, val = self.perform(p, render(p), lambda: getattr(owner, n))
            if ok and is_node(val) and node_depth < 3:
                self.explore_node(p, val, node_depth + 1)
            elif ok and callable(val) and not isinstance(val, type) and not _is_container(val):
                self.call(p, val, node_depth)
            return
        try:
            fn = getattr(owner, n)
        except Exception:  # noqa
            return
        if is_node(fn):
            ok, val = self.perform(p, render(p), lambda: getattr(owner, n))
            return self.explore_node(p, fn, node_depth + 1)
        is_ctor = isinstance(cls_attr, (classmethod, staticmethod))
        if is_ctor and not self.with_constructors:
            return
        self.call(p, fn, node_depth)

    def run(self):
        names = list(self.names)
        self.rng.shuffle(names)
        for n in names:
            self.member([], self.R.obj, n, 0)
        # finally the caller writes into every array the receiver was built from
        for i, a in enumerate(self.R.sources):
            if a.flags.writeable and a.size:
                flat = a.reshape(-1)
                try:
                    flat[0] = flat[-1] if a.dtype.kind != 'b' else (not flat[0])
                    if a.dtype.kind in 'iufc':
                        flat[0] = flat[0] + 1
                except Exception:  # noqa
                    continue
                after = self.snap()
                if after != self.base:
                    self.bad.append(('<caller write>', f'source array {i} of the receiver written after construction', 'the write shows through the container', None))
                    self.base = after
            elif not a.flags.writeable:
                for apath, b in self._family_arrays():
                    pass


def _is_container(v):
    from static_frame.core.container import ContainerBase
    return isinstance(v, ContainerBase)


def interface_records(cls):
    from static_frame.core.interface import InterfaceSummary
    out = set()
    for r in InterfaceSummary.interrogate(cls):
        if r.signature_no_args and r.signature_no_args != 'interface':
            out.add(r.signature_no_args)
    return out


def enumeration_cases(ctx):
    rng = ctx.rng
    tmp = tempfile.mkdtemp(prefix='c01_')
    budget = 2 if ctx.tier == 'quick' else 6
    try:
        seen_cls = set()
        coverage = {}
        for name, text, factory in zoo(ctx.tier):
            obj, sources = factory()
            R = Recv(name, text, obj, sources)
            first = R.cls not in seen_cls
            seen_cls.add(R.cls)
            ex = Explorer(R, rng, tmp, budget, with_constructors=first)
            ex.run()
            cov = coverage.setdefault(R.cls, {})
            for ps, st in ex.stats.items():
                c = cov.setdefault(ps, [0, 0])
                c[0] += st['calls']
                c[1] += st['ok']
            ctx.count(f'zoo:{R.kind}')
            by_path = {}
            for ps, calltxt, reason, fclass in ex.bad:
                by_path.setdefault(ps, []).append((calltxt, reason, fclass))
            for ps, st in sorted(ex.stats.items()):
                bad = by_path.get(ps)
                ctx.count('calls', )
                yield Case(f'api:{R.kind}',
                           {'receiver': text, 'member': ps, 'calls': st['calls'], 'returned': st['ok'], 'raised': st['errors'],
                            'violations': [{'call': c, 'reason': r} for c, r, _ in (bad or [])[:3]]},
                           py_fail=None if not bad else f'{text} ; receiver.{bad[0][0]} : {bad[0][1]}',
                           tags={'cls': R.cls.__name__, 'member': ps, 'zoo': name}, nontrivial=st['ok'] > 0, key=f'{name}|{ps}')
            for ps, items in by_path.items():
                if ps not in ex.stats:
                    yield Case(f'api:{R.kind}', {'receiver': text, 'member': ps, 'violations': [{'call': c, 'reason': r} for c, r, _ in items[:3]]},
                               py_fail=f'{text} ; {items[0][0]} : {items[0][1]}', tags={'cls': R.cls.__name__, 'member': ps, 'zoo': name}, key=f'{name}|{ps}|x')
        # coverage of the library's own interface listing
        for cls, cov in coverage.items():
            recs = interface_records(cls)
            hit = {r for r in recs if r in cov}
            okhit = {r for r in recs if r in cov and cov[r][1] > 0}
            missing = sorted(recs - hit)
            ctx.count(f'interface:{cls.__name__}:records={len(recs)}:exercised={len(hit)}:returned={len(okhit)}')
            yield Case('coverage:interface', {'class': cls.__name__, 'records': len(recs), 'exercised': len(hit), 'returned_at_least_once': len(okhit),
                                               'not_exercised': missing[:60]},
                       tags={'cls': cls.__name__}, nontrivial=True, key=f'coverage|{cls.__name__}')
    finally:
        shutil.rmtree(tmp, ignore_errors=True)


def cases(ctx):
    yield from heap_cases(ctx)
    yield from enumeration_cases(ctx)
