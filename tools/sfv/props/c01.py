'''C01 -- immutability: no public operation changes an existing static container.'''
import copy
import itertools
import pickle

import numpy as np

from .. import lit
from ..core import Case

ID = 'C01'
MANIFEST = {
    'text': ('Coq theorems about an executable heap model (buffers, ndarray handles each with its own flags.writeable, containers as lists of '
             'array slots, caller-held handles; SF/Heap.v) with TWO machines: M = what static-frame does (immutable_filter copies only writeable '
             'arguments, read-only arguments / views / exposed arrays are shared, own_data freezes in place, __setstate__ re-freezes the slots '
             'listed in the table REGENERATED from the source, array_deepcopy carries the flag) and S = value semantics (every slot and every '
             'array handed out is a private frozen copy). Unbounded in history length: C01_frozen_invariant, C01_immutability (content and flags '
             'seen through an existing container never change), C01_refines_value_semantics (M and S agree on the outcome of every step and on '
             'every observation after every step of every guarded history), C01_exposed_readonly, C01_container_arrays_readonly, '
             'C01_caller_isolation, C01_pickle_roundtrip / C01_deepcopy_roundtrip (same content, read-only, private), '
             'C01_setstate_refreezes_every_array_slot (about the table regenerated from the source: every ndarray slot of every class is re-frozen), C01_no_protect_site_lost / C01_thaw_sites_whitelisted '
             '(census of the ~160 freeze sites regenerated from the AST vs the pinned table), C01_immutable_filter_matches_model (the copy / keep decision of '
             'util.immutable_filter REGENERATED from its AST equals the dispatch used inside the model M) and C01_constructor_routes_match_source (Series.__init__, '
             'Index._extract_labels, TypeBlocks.from_blocks / append, Frame.__init__ with and without own_data send an ndarray argument through it; the M terms of the '
             'cases name these regenerated routes), C01_positions_allocator_publishes_frozen (AST audit of '
             'util.PositionsAllocator: every (re)allocation of the process-wide positions array is frozen before it is published). A second model '
             '(SF/HeapGrow.v) for GROWABLE MEMBERS (block list of a TypeBlocks, label list AND label map (AutoMap) of IndexGO / IndexHierarchyGO, the block table an '
             'IndexHierarchy caches; steps GNew / GFrom route / GGrow): '
             'C01_growing_a_source_never_changes_a_static_container (invariant: a grow-only container shares member lists with nobody) and '
             'C01_grow_refines_value_semantics; refuted witness C01_share_with_growable_refuted. Refuted/C01.v: the hypotheses of `guarded` about caller arrays are '
             'necessary (read-only alias, own_data alias). Correspondence: (1) random + exhaustive '
             'constructor-route histories executed on the real library through public calls, whole observation trace and np.shares_memory matrix '
             'compared with M and S inside Coq; (2) EXHAUSTIVE INTERFACE ENUMERATION: every member listed by static-frame\'s own InterfaceSummary for '
             'Series, SeriesHE, Frame, FrameGO, FrameHE, Index, IndexGO, IndexDate..., IndexHierarchy(GO), TypeBlocks, recursively through selector / '
             'assignment / iterator / accessor nodes, crossed with a container zoo (every dtype kind, block layouts, 0-sized, flat / hierarchical / '
             'date labels) and per-parameter argument pools (valid and failing, writeable ndarrays wherever an array is accepted), deep snapshot of '
             'the receiver and of bystanders sharing its memory before / after every call, flags and aliasing of every ndarray reachable from every '
             'result, pickle / deepcopy round trips per array slot, mutation syntax; (3) LARGE phase: containers with 1025, 5000 and (mid-run) 25000 rows are '
             'created first so that util.PositionsAllocator regrows, then small label-mapped indices / hierarchies / Series / Frames are created and every array '
             'they hold and hand out is checked, and every later stratum runs in that process state; (4) grow strata: static containers built FROM grow-only ones '
             '(and vice versa) through every constructor / to_frame* / from_concat / copy / rename / selection / pickle / deepcopy route, then every mutator '
             '(setitem, extend, extend_items, append) on the grow-only side, whole member trace compared with gM and gS inside Coq, plus a Python-side product of '
             '6 source kinds x 27 / 12 routes x mutators (hierarchical and date labels, rows / reductions / columns taken from a FrameGO, IndexGO handed in as labels); '
             '(5) scripted routes (coverage-guided, tools/cov_cases.py): ~115 routes with paired valid arguments that pooled calls do not reach -- np.tile / np.repeat constructors, '
             'from_overlay, from_pandas incl. nullable / string / categorical dtypes, typed-index dtype conversion, date-range constructors, every FrameGO.__setitem__ value kind, every '
             'branch of TypeBlocks.resize_blocks (reindex), shift / roll, fillna families across block boundaries, clip with containers, astype maps, every operand kind of binary operators '
             'incl. reflected and matmul, 1-D and 2-D set operations (identical / other dtype / empty / list / set / array operands), searchsorted past the end, accessors on object cells and '
             '2-D blocks, bloc assignment with partial Frames, depth-3 IndexHierarchyGO appends, from_records / from_items / from_fields / from_concat / from_delimited / from_sql variants, '
             'sorts, inserts, joins, pivots, by-blocks assignment over 2-D blocks, reductions on object / empty frames, equals branches, unsigned / bytes / timedelta / 1-wide 2-D blocks; '
             '(6) caller isolation: 19 array-taking routes x consolidate_blocks unset / True / False x 7 adjacent-dtype patterns x columns supplied as views of larger writeable arrays '
             '(2-D column, slice, Fortran order), as owners, and as owners with an earlier view: the caller arrays keep their flags, no result array overlaps the caller base, and a write '
             'through the BASE arrays changes neither the result nor sub-Frames / Series / FrameHE derived from it; in every api stratum the writeable flag of each caller array is recorded '
             'BEFORE the call (a call that freezes the argument in place is a violation, and aliasing is checked against the pre-call flag and against writeable bases), and half of the '
             'pooled writeable arrays are views of larger arrays.'),
    'note': ('trusted: Coq kernel, hand-written model SF/Heap.v (tied to the code by the trace correspondence), AST extractor generate() in this module, '
             'harness. NumPy facts are modelling assumptions validated only by the correspondence runs. PARTIAL: that each of the ~160 freeze sites '
             'follows the protocol is decided by the enumeration (Python-side observation, argument pools sampled in rotation) and by the census '
             'tripwire, not by proof; members *_pool (process pools), to_clipboard / from_clipboard, explicit __init__ / __setstate__ calls on a live '
             'instance and @ on object-valued receivers (NumPy segfault) are not exercised; NOT COVERED because the optional packages are absent here: from_arrow / from_parquet / '
             'from_msgpack / from_hdf5 / to_xarray (their freeze sites frame.py:2221, 2412 are never executed), the pandas<1 branches of from_pandas (frame.py:2076-2078, series.py:363-367), '
             'via_str.startswith / endswith with a tuple argument (raises under NumPy 2, node_str.py:200, 457 unreachable); Bus / Batch / Quilt / Store belong to C17-C19. Three known findings (known/C01.jsonl); four earlier findings were repaired in /repo and are kept as regression cases (stratum regression:repaired-findings, heap:pickle-index-regression).'),
    'technique': 'invariant + refinement over histories of a heap model; differential traces; exhaustive interface enumeration',
}
PROPERTY_FILES = ['Properties/C01.v']
REFUTED_FILES = ['Refuted/C01.v']
MODEL_FILES = ['SF/Heap.v', 'SF/HeapAudit.v', 'SF/HeapGrow.v', 'Gen/Gen_c01.v']
GENERATED_FILES = ['Gen/Gen_c01.v']
IMPORTS = 'Require Import SF.Prelude SF.Heap SF.HeapGrow Gen.Gen_c01.\nLocal Open Scope nat_scope.'
# the specification side (S_step, gS_step and the comparers) lives in SF/Heap.v and SF/HeapGrow.v, which do not import the regenerated tables;
# the S terms of the cases spell pickle flags literally (S ignores them: value semantics always re-freezes)
IMPORTS_SPEC_ONLY = 'Require Import SF.Prelude SF.Heap SF.HeapGrow.\nLocal Open Scope nat_scope.'
RULE = ('grow strata: a history over GNew / GFrom / GGrow, each step a public call; the model route is GShare only between two static containers; the members '
        'observed per container are label array, label MAP (membership + loc_to_iloc of every label the history has used, Frame.get of absent labels) and blocks; '
        'non-trivial = some container is built from another and something grows afterwards. large-phase: one case per freshly built small container after '
        'each regrow of the allocator; non-trivial = the allocator really regrew. heap strata: a history is a list of steps of the model alphabet (SNew / SView / SFreeze / SWrite / SConstruct / SDerive / SExpose / SFail), each '
        'executed on the real library by a public call; the stratum of a history (guarded, read-only alias, own_data alias, pickle of an Index) is decided '
        'by bookkeeping of the HISTORY, never from the output; non-trivial = builds a container from a caller-held array and then writes / exposes / '
        'derives; distinct = distinct step list. api strata: one case per (zoo container, interface member path, check) where check is one of '
        'state-unchanged / container-arrays-readonly / bare-array-readonly / no-caller-alias; non-trivial = at least one call of the member returned; '
        'argument alternatives are taken in rotation so that every alternative of every parameter is used on some receiver. roundtrip strata: one case '
        'per (zoo container, pickle | deepcopy, array slot name). coverage:interface: InterfaceSummary records exercised / returned at least once.')
ASSUMPTIONS = [
    'NumPy: a basic-indexing view shares the buffer of its base and inherits flags.writeable at creation',
    'NumPy: writing through a non-writeable ndarray raises ValueError and changes nothing',
    'NumPy: copy / astype / fancy indexing / np.array(list) / unpickling return a fresh buffer',
    'alphabet exclusion: the caller never sets flags.writeable = True (NumPy allows it on arrays that own their data, e.g. on s.values)',
    'alphabet exclusion (stated hypothesis, refuted witness C01_own_data_view_refuted): own_data=True hands over the only writeable reference',
    'the model abstracts auto-index labels / positions (views of the global PositionsAllocator buffer) as private frozen arrays; their aliasing is masked in the shares matrix',
    'cells of object arrays holding mutable Python objects are outside the property (only ndarrays are tracked)',
    'snapshots (api strata) = labels, values, dtypes, name, shape, depth, values_at_depth, positions, lookups through the label map, raw blocks; plus `equals` against a copy pickled before any call, after every member',
    'histories never put the same ndarray object into two slots of one container (pickle would restore it as one shared object; the model allocates one buffer per slot)',
]
TRUSTED = ['tools/sfv/props/c01.py generate(): AST extraction of __setstate__ freeze statements and of the freeze-site census (fails closed on an unknown shape)']
EXHAUSTIVE = {'quick': False, 'thorough': False}
SHARD_SIZE = 120      # history cases carry whole observation traces: smaller shards evaluate in parallel


# =============================================================================== literals
def nat(v):
    v = int(v)
    assert v >= 0
    return str(v)


def natl(xs):
    return '[' + '; '.join(nat(x) for x in xs) + ']'


def zl(xs):
    return '[' + '; '.join(lit.z(x) + '%Z' for x in xs) + ']'


def slot_lit(content, w):
    return f'({zl(content)}, {lit.b(w)})'


def obs_lit(conts, callers):
    c = '[' + '; '.join('[' + '; '.join(slot_lit(*s) for s in slots) + ']' for slots in conts) + ']'
    k = '[' + '; '.join(slot_lit(*s) for s in callers) + ']'
    return f'({c}, {k})'


# =============================================================================== the interpreter of histories
def _ints(a):
    return [int(x) for x in np.asarray(a).reshape(-1).tolist()]


def _view_sel(a, parent):
    '''Positions of the 1-D array `a` inside the 1-D array `parent` when a is a view of parent's memory, else None.'''
    if a.ndim != 1 or parent.ndim != 1 or a.dtype != parent.dtype or not parent.size or not a.size or not np.shares_memory(a, parent):
        return None
    pa, ps = parent.__array_interface__['data'][0], parent.strides[0]
    aa, as_ = a.__array_interface__['data'][0], a.strides[0]
    if ps == 0:
        return None
    out = []
    for i in range(a.shape[0]):
        q, r = divmod(aa + i * as_ - pa, ps)
        if r or not 0 <= q < parent.shape[0]:
            return None
        out.append(q)
    return out


class Sim:
    '''Executes steps of the model alphabet on the real library and records (a) the Coq step literals, (b) the observations.'''

    def __init__(self):
        import static_frame as sf
        from static_frame.core.type_blocks import TypeBlocks
        self.sf = sf
        self.TB = TypeBlocks
        self.callers = []       # ndarrays the caller holds
        self.conts = []         # (kind, object)
        self.steps = []         # Coq literals (may name definitions of the regenerated Gen_c01)
        self.steps_spec = []    # the same steps spelled without any regenerated name (for the S terms)
        self.desc = []          # human readable replay
        self.trace = []         # (ok, conts_obs, callers_obs)
        self.first = []         # first observation of each container (python-side immutability check)
        self.violations = []
        self.flags = set()      # by-construction classes: 'readonly_alias', 'own_alias', 'pickle_index'
        # bookkeeping of the HISTORY (not of the implementation): which allocation each caller array / container slot refers to and
        # its flag, following the rules of the model; used only to put a history into its stratum and to steer the generator
        self.mc = []            # per caller array: [buffer id, writeable]
        self.mk = []            # per container: [[buffer id, writeable] per slot]
        self.nbuf = 0

    # ---- observation
    def slots(self, kind, obj):
        if kind == 'series':
            return [obj.values, obj.index.values, obj.index.positions]
        if kind == 'index':
            return [obj.values, obj.positions]
        if kind == 'tb':
            return list(obj._blocks)
        if kind == 'frame':
            return list(obj._blocks._blocks) + [obj.index.values, obj.index.positions, obj.columns.values, obj.columns.positions]
        raise ValueError(kind)

    def observe(self, ok):
        conts = [[(_ints(a), bool(a.flags.writeable)) for a in self.slots(k, o)] for k, o in self.conts]
        callers = [(_ints(a), bool(a.flags.writeable)) for a in self.callers]
        self.trace.append((ok, conts, callers))
        for i, c in enumerate(conts):
            if i >= len(self.first):
                self.first.append(c)
            elif c != self.first[i]:
                self.violations.append(f'container {i} ({self.conts[i][0]}) changed after step {len(self.steps) - 1} ({self.desc[-1]}): {self.first[i]} -> {c}')
                self.first[i] = c
            for j, (_, w) in enumerate(c):
                if w:
                    msg = f'slot {j} of container {i} ({self.conts[i][0]}) is writeable'
                    if msg not in self.violations:
                        self.violations.append(msg)

    def shares(self):
        '''np.shares_memory of every container slot with every caller array; None (do not care) when either aliases the
        library's global PositionsAllocator buffer (auto-index labels / positions), which the model abstracts as private arrays.'''
        taint = _allocator_tainted
        return [[[None if (taint(a) or taint(c)) else bool(np.shares_memory(a, c)) for c in self.callers] for a in self.slots(k, o)] for k, o in self.conts]

    def model(self, mstep):
        '''Advance the bookkeeping of the history (see __init__) by one step of the alphabet.'''
        op = mstep[0]
        if op == 'new':
            self.mc.append(self._fresh(True))
        elif op == 'view':
            self.mc.append(list(self.mc[mstep[1]]))
        elif op == 'freeze':
            self.mc[mstep[1]][1] = False
        elif op == 'construct':
            slots = []
            for src in mstep[1]:
                if src[0] == 'filter':
                    slots.append(self._m_filter(src[1]))
                elif src[0] == 'own':
                    slots.append(self._m_own(src[1]))
                else:
                    slots.append(self._fresh(False))
            self.mk.append(slots)
        elif op == 'derive':
            parent = self.mk[mstep[1]]
            slots = []
            for d in mstep[2]:
                if d[0] == 'view':
                    slots.append([parent[d[1]][0], parent[d[1]][1]])
                elif d[0] == 'deep':
                    slots.append(self._fresh(parent[d[1]][1]))
                elif d[0] == 'pickle':
                    slots.append(self._fresh(not d[2]))
                else:
                    slots.append(self._fresh(False))
            self.mk.append(slots)
        elif op == 'expose':
            self.mc.append(list(self.mk[mstep[1]][mstep[2]]))

    def emit(self, step, desc, ok=True, mstep=('none',), step_spec=None):
        self.model(mstep)
        self.steps.append(step)
        self.steps_spec.append(step_spec or step)
        self.desc.append(desc)
        self.observe(ok)

    # ---- caller steps
    def new(self, vals):
        self.callers.append(np.array(vals, dtype=np.int64))
        self.emit(f'SNew {zl(vals)}', f'a{len(self.callers) - 1} = np.array({list(vals)})', mstep=('new',))

    def view(self, k, sl):
        a = self.callers[k]
        n = a.shape[0]
        sel = list(range(n)[sl])
        self.callers.append(a[sl])
        self.emit(f'SView {k} {natl(sel)}', f'a{len(self.callers) - 1} = a{k}[{sl.start}:{sl.stop}:{sl.step}]', mstep=('view', k))

    def freeze(self, k):
        self.callers[k].flags.writeable = False
        self.emit(f'SFreeze {k}', f'a{k}.flags.writeable = False', mstep=('freeze', k))

    def write(self, k, i, v):
        a = self.callers[k]
        try:
            a[i] = v
            ok = True
        except ValueError:
            ok = False
        self.emit(f'SWrite {k} {i} {lit.z(v)}%Z', f'a{k}[{i}] = {v}', ok)

    # ---- helpers for guards decided by construction of the input
    def _fresh(self, w):
        self.nbuf += 1
        return [self.nbuf, w]

    def _writeable_on(self, buf, skip=None):
        hs = [h for j, h in enumerate(self.mc) if j != skip] + [h for c in self.mk for h in c]
        return any(h[0] == buf and h[1] for h in hs)

    def _has_other_writeable_alias(self, k):
        """Another handle on the allocation of caller array k is writeable (even a disjoint or empty view of it)."""
        return self._writeable_on(self.mc[k][0], skip=k)

    def _unsafe_filter(self, k):
        """A read-only argument one alias of which is still writeable (class C01-readonly-alias)."""
        return (not self.mc[k][1]) and self._writeable_on(self.mc[k][0])

    def _note_filter(self, k):
        if self._unsafe_filter(k):
            self.flags.add('readonly_alias')

    def _m_filter(self, k):
        h = self.mc[k]
        return self._fresh(False) if h[1] else [h[0], False]

    def _m_own(self, k):
        self.mc[k][1] = False
        return [self.mc[k][0], False]

    def _auto(self, n):
        return f'FromVals {zl(range(n))}'

    def fail(self, desc):
        self.emit('SFail', desc, False)

    # ---- constructions
    def c_series(self, k):
        a = self.callers[k]
        if a.ndim != 1:
            return False
        self._note_filter(k)
        n = a.shape[0]
        self.conts.append(('series', self.sf.Series(a)))
        self.emit(f'SConstruct [FromCaller route_series_init {k}; {self._auto(n)}; {self._auto(n)}]', f'c{len(self.conts) - 1} = sf.Series(a{k})',
                  mstep=('construct', [('filter', k), ('vals',), ('vals',)]), step_spec=f'SConstruct [FromCaller RFilter {k}; {self._auto(n)}; {self._auto(n)}]')
        return True

    def c_index(self, k):
        a = self.callers[k]
        if a.ndim != 1:
            return False
        try:
            obj = self.sf.Index(a)
        except self.sf.ErrorInitIndex:
            self.fail(f'sf.Index(a{k}) raises')
            return True
        self._note_filter(k)
        self.conts.append(('index', obj))
        self.emit(f'SConstruct [FromCaller route_index_labels {k}; {self._auto(a.shape[0])}]', f'c{len(self.conts) - 1} = sf.Index(a{k})',
                  mstep=('construct', [('filter', k), ('vals',)]), step_spec=f'SConstruct [FromCaller RFilter {k}; {self._auto(a.shape[0])}]')
        return True

    def c_tb(self, ks):
        arrs = [self.callers[k] for k in ks]
        if any(a.ndim != 1 for a in arrs):
            return False
        try:
            obj = self.TB.from_blocks(arrs)
        except Exception:  # noqa: mismatched row count
            self.fail(f'TypeBlocks.from_blocks({["a%d" % k for k in ks]}) raises')
            return True
        for k in ks:
            self._note_filter(k)
        # the same read-only argument twice: both slots keep it
        self.conts.append(('tb', obj))
        self.emit('SConstruct [' + '; '.join(f'FromCaller route_tb_from_blocks {k}' for k in ks) + ']',
                  f'c{len(self.conts) - 1} = TypeBlocks.from_blocks([{", ".join("a%d" % k for k in ks)}])',
                  mstep=('construct', [('filter', k) for k in ks]), step_spec='SConstruct [' + '; '.join(f'FromCaller RFilter {k}' for k in ks) + ']')
        return True

    def c_frame(self, k, own):
        a = self.callers[k]
        if a.ndim != 1:
            return False
        if own:
            if self._has_other_writeable_alias(k):
                self.flags.add('own_alias')
        else:
            self._note_filter(k)
        n = a.shape[0]
        self.conts.append(('frame', self.sf.Frame(a, own_data=own)))
        r = 'ROwn' if own else 'RFilter'
        rg = 'route_frame_init_own_data' if own else 'route_frame_init'
        tail = f'{self._auto(n)}; {self._auto(n)}; {self._auto(1)}; {self._auto(1)}]'
        self.emit(f'SConstruct [FromCaller {rg} {k}; {tail}',
                  f'c{len(self.conts) - 1} = sf.Frame(a{k}, own_data={own})',
                  mstep=('construct', [('own' if own else 'filter', k), ('vals',), ('vals',), ('vals',), ('vals',)]), step_spec=f'SConstruct [FromCaller {r} {k}; {tail}')
        return True

    def c_series_list(self, vals):
        n = len(vals)
        self.conts.append(('series', self.sf.Series(list(vals), dtype=np.int64)))
        self.emit(f'SConstruct [FromVals {zl(vals)}; {self._auto(n)}; {self._auto(n)}]', f'c{len(self.conts) - 1} = sf.Series({list(vals)}, dtype=int64)',
                  mstep=('construct', [('vals',), ('vals',), ('vals',)]))

    # ---- derivations
    def _derived(self, c, kind, obj, data_dsrcs, desc):
        '''data_dsrcs: dsrc literals of the leading data slots; every remaining slot is a fresh computed array (DVals content).'''
        self.conts.append((kind, obj))
        arrs = self.slots(kind, obj)
        ds = list(data_dsrcs)
        parent = self.slots(*self.conts[c])
        for a in arrs[len(data_dsrcs):]:
            # auxiliary slots (labels / positions of the axes): recorded as a view when the array really is a view of a parent slot
            form = None
            for j, pa in enumerate(parent):
                sel = _view_sel(a, pa)
                if sel is not None and not _allocator_tainted(a):
                    form = f'DView {j} {natl(sel)}'
                    break
            ds.append(form or f'DVals {zl(_ints(a))}')
        md = [(('view', int(d.split()[1])) if d.startswith('DView') else ('fresh',)) for d in ds]
        self.emit(f'SDerive {c} [' + '; '.join(ds) + ']', f'c{len(self.conts) - 1} = {desc}', mstep=('derive', c, md))

    def d_select(self, c, key):
        '''Row selection by slice (view) or by integer list (copy).'''
        kind, obj = self.conts[c]
        ndata = {'series': 1, 'index': 1, 'frame': 1}.get(kind)
        if kind == 'tb':
            ndata = len(obj._blocks)
        n = len(obj) if kind != 'tb' else obj.shape[0]
        if isinstance(key, slice):
            sel = list(range(n)[key])
            form = 'DView'
            ktxt = f'{key.start}:{key.stop}:{key.step}'
        else:
            sel = [k % n if n else k for k in key]
            form = 'DCopy'
            ktxt = str(list(key))
        try:
            if kind == 'tb':
                new = obj._extract(row_key=key)
            else:
                new = obj.iloc[key]
        except Exception as e:  # noqa
            self.fail(f'c{c}.iloc[{ktxt}] raises {type(e).__name__}')
            return
        self._derived(c, kind, new, [f'{form} {j} {natl(sel)}' for j in range(ndata)], f'c{c}.iloc[{ktxt}]')

    def d_rename(self, c):
        kind, obj = self.conts[c]
        if kind == 'tb':
            new = obj.copy()
            n = len(obj._blocks)
            ids = [f'DView {j} {natl(range(obj.shape[0]))}' for j in range(n)]
            return self._derived(c, kind, new, ids, f'c{c}.copy()')
        new = obj.rename('n')
        nslots = len(self.slots(kind, obj))
        ids = []
        for j, a in enumerate(self.slots(kind, obj)):
            ids.append(f'DView {j} {natl(range(a.reshape(-1).shape[0]))}')
        self._derived(c, kind, new, ids[:nslots], f"c{c}.rename('n')")

    def d_compute(self, c):
        kind, obj = self.conts[c]
        if kind == 'tb':
            new = obj * 2
        elif kind == 'index':
            return False
        else:
            new = obj * 2
        self._derived(c, kind, new, [], f'c{c} * 2')
        return True

    def d_pickle(self, c):
        """pickle round trip; which slots come back re-frozen is read from the generated table (Gen_c01, by name)."""
        kind, obj = self.conts[c]
        new = pickle.loads(pickle.dumps(obj))
        tab = _setstate()
        if tab is None:     # the extractor failed closed: classify with what the property demands (every slot re-frozen)
            tab = {'Index': [('_labels', True), ('_positions', True)], 'Series': [('values', True)], 'TypeBlocks': [('_blocks', True)]}
        idx = [f for _, f in tab['Index']]
        if kind == 'tb':
            flags = f'(repeat pickle_flag_block {len(obj._blocks)})'
            pf = [tab['TypeBlocks'][0][1]] * len(obj._blocks)
        else:
            flags = {'series': 'pickle_flags_series', 'index': 'pickle_flags_index', 'frame': 'pickle_flags_frame1'}[kind]
            pf = {'series': [tab['Series'][0][1]] + idx, 'index': idx, 'frame': [tab['TypeBlocks'][0][1]] + idx + idx}[kind]
            if kind == 'frame':
                assert len(obj._blocks._blocks) == 1
        if not all(pf):
            self.flags.add('pickle_index')      # a slot that __setstate__ does not re-freeze (read from the current source)
        self.conts.append((kind, new))
        self.emit(f'SDerive {c} (pickle_dsrcs_from 0 {flags})', f'c{len(self.conts) - 1} = pickle.loads(pickle.dumps(c{c}))',
                  mstep=('derive', c, [('pickle', j, f) for j, f in enumerate(pf)]),
                  step_spec=f'SDerive {c} (pickle_dsrcs_from 0 [' + '; '.join('true' for _ in pf) + '])')

    def d_deepcopy(self, c):
        kind, obj = self.conts[c]
        new = copy.deepcopy(obj)
        if kind == 'tb':
            ds = [f'DDeep {j}' for j in range(len(obj._blocks))]
        elif kind == 'series':
            ds = ['DDeep 0', 'DDeep 1']
        elif kind == 'index':
            ds = ['DDeep 0']
        else:
            ds = ['DDeep 0', 'DDeep 1', None, 'DDeep 3']
        self.conts.append((kind, new))
        arrs = self.slots(kind, new)
        full = []
        for j, a in enumerate(arrs):
            full.append(ds[j] if j < len(ds) and ds[j] else f'DVals {zl(_ints(a))}')
        self.emit(f'SDerive {c} [' + '; '.join(full) + ']', f'c{len(self.conts) - 1} = copy.deepcopy(c{c})',
                  mstep=('derive', c, [(('deep', int(d.split()[1])) if d.startswith('DDeep') else ('fresh',)) for d in full]))

    # ---- exposure
    def expose(self, c, j):
        kind, obj = self.conts[c]
        if kind == 'series':
            a = (obj.values, obj.index.values, obj.index.positions)[j]
            txt = ('values', 'index.values', 'index.positions')[j]
        elif kind == 'index':
            a = (obj.values, obj.positions)[j]
            txt = ('values', 'positions')[j]
        elif kind == 'tb':
            a = obj._blocks[j]
            txt = f'_blocks[{j}]'
        else:
            nb = len(obj._blocks._blocks)
            if j < nb:
                a = next(itertools.islice(obj._blocks.axis_values(0), j, None)) if False else obj._blocks._blocks[j]
                txt = f'_blocks._blocks[{j}]'
            else:
                a = (obj.index.values, obj.index.positions, obj.columns.values, obj.columns.positions)[j - nb]
                txt = ('index.values', 'index.positions', 'columns.values', 'columns.positions')[j - nb]
        self.callers.append(a)
        self.emit(f'SExpose {c} {j}', f'a{len(self.callers) - 1} = c{c}.{txt}', mstep=('expose', c, j))

    # ---- result
    def hist_lit(self, spec=False):
        return '[' + '; '.join(self.steps_spec if spec else self.steps) + ']'

    def trace_lit(self):
        return '[' + '; '.join(f'({lit.b(ok)}, {obs_lit(conts, callers)})' for ok, conts, callers in self.trace) + ']'

    def shares_lit(self):
        return '[' + '; '.join('[' + '; '.join('[' + '; '.join(('None' if x is None else f'Some {lit.b(x)}') for x in row) + ']' for row in slots) + ']' for slots in self.shares()) + ']'


_SETSTATE = {}


def _setstate():
    '''The table read from the current source, or None when the extractor fails closed (the source no longer has the expected shape).'''
    from ..core import REPO
    if REPO not in _SETSTATE:
        try:
            _SETSTATE[REPO] = setstate_table(REPO)
        except Exception:  # noqa: reported by generate() as a broken obligation; case generation must go on for the failing-input search
            _SETSTATE[REPO] = None
    return _SETSTATE[REPO]


SLICES = [slice(None, None, None), slice(1, None, None), slice(None, 2, None), slice(None, None, -1), slice(None, None, 2), slice(1, 3, None), slice(0, 0, None)]


def random_history(rng, sim, length, allow):
    '''allow: set of by-construction classes this history may enter ("readonly_alias", "own_alias", "pickle_index").'''
    sim.new([rng.randrange(-3, 9) for _ in range(rng.choice([0, 1, 2, 3, 3, 4]))] if rng.random() < 0.15 else rng.sample(range(10, 60), rng.choice([2, 3, 3, 4])))
    for _ in range(length):
        nk, nc = len(sim.callers), len(sim.conts)
        r = rng.random()
        if r < 0.08:
            sim.new(rng.sample(range(10, 60), rng.choice([1, 2, 3, 4])))
        elif r < 0.20:
            k = rng.randrange(nk)
            if sim.callers[k].ndim == 1:
                sim.view(k, rng.choice(SLICES))
        elif r < 0.27:
            k = rng.randrange(nk)
            sim.freeze(k)
        elif r < 0.45:
            k = rng.randrange(nk)
            a = sim.callers[k]
            if a.ndim == 1 and a.shape[0]:
                sim.write(k, rng.randrange(a.shape[0]), rng.randrange(-9, 0))
        elif r < 0.65:
            k = rng.randrange(nk)
            a = sim.callers[k]
            unsafe = sim._unsafe_filter(k)
            which = rng.choice(['series', 'index', 'tb', 'tb2', 'frame', 'frame_own', 'list'])
            if which == 'frame_own':
                if sim._has_other_writeable_alias(k) and 'own_alias' not in allow:
                    continue
                sim.c_frame(k, True)
                continue
            if unsafe and 'readonly_alias' not in allow and which != 'list':
                continue
            if which == 'series':
                sim.c_series(k)
            elif which == 'index':
                sim.c_index(k)
            elif which == 'tb':
                sim.c_tb([k])
            elif which == 'tb2':
                k2 = rng.randrange(nk)
                a2 = sim.callers[k2]
                if a2 is a:
                    continue    # the same ndarray OBJECT in two slots: pickle restores it as one object (memo), the model allocates per slot
                if sim._unsafe_filter(k2) and 'readonly_alias' not in allow:
                    continue
                sim.c_tb([k, k2])
            elif which == 'frame':
                sim.c_frame(k, False)
            else:
                sim.c_series_list(rng.sample(range(10, 60), 3))
        elif nc and r < 0.80:
            c = rng.randrange(nc)
            which = rng.choice(['slice', 'list', 'rename', 'compute', 'pickle', 'deepcopy'])
            kind = sim.conts[c][0]
            n = sim.conts[c][1].shape[0] if kind in ('tb', 'frame', 'series') else len(sim.conts[c][1])
            if which == 'slice':
                sim.d_select(c, rng.choice(SLICES))
            elif which == 'list':
                if n:
                    sim.d_select(c, [rng.randrange(n) for _ in range(rng.choice([1, 2]))] if kind != 'index' else rng.sample(range(n), min(n, 2)))
            elif which == 'rename':
                sim.d_rename(c)
            elif which == 'compute':
                sim.d_compute(c)
            elif which == 'pickle':
                if kind != 'tb' and _setstate() is not None and not all(f for _, f in _setstate()['Index']) and 'pickle_index' not in allow:
                    continue
                sim.d_pickle(c)
            else:
                sim.d_deepcopy(c)
        elif nc:
            c = rng.randrange(nc)
            kind, obj = sim.conts[c]
            sim.expose(c, rng.randrange(len(sim.slots(kind, obj))))


def history_case(sim, stratum, guarded, spec=True, **extra_tags):
    h, t, sh = sim.hist_lit(), sim.trace_lit(), sim.shares_lit()
    guarded = not sim.flags
    g = 'guarded w0 H' if guarded else 'negb (guarded w0 H)'
    m = f'(let H := {h} in trace_eqb (trace M_step w0 H) {t} && oshares_eqb (shares_obs (M_run w0 H)) {sh} && {g})%nat'
    s = f'(trace_eqb (trace S_step w0 {sim.hist_lit(spec=True)}) {t})%nat' if spec else None
    nontrivial = any(st.startswith('SConstruct [FromCaller') for st in sim.steps) and any(st.startswith(('SWrite', 'SExpose', 'SDerive')) for st in sim.steps)
    tags = {'stratum': stratum}
    tags.update(extra_tags)
    for f in ('readonly_alias', 'own_alias', 'pickle_index'):
        tags[f] = f in sim.flags
    return Case(stratum, {'replay': ['import numpy as np, static_frame as sf, pickle, copy; from static_frame.core.type_blocks import TypeBlocks'] + sim.desc,
                          'observed_final': {'containers': sim.trace[-1][1], 'caller_arrays': sim.trace[-1][2]} if sim.trace else None},
                m=m, s=s, py_fail='; '.join(sim.violations[:3]) if (sim.violations and spec) else None,
                tags=tags, nontrivial=nontrivial, key=h)


def _scripted(script):
    sim = Sim()
    for op, *args in script:
        getattr(sim, op)(*args)
    return sim


def heap_cases(ctx):
    # 1. random guarded histories
    n = ctx.n(300, 3000)
    for i in range(n):
        sim = Sim()
        random_history(ctx.rng, sim, ctx.rng.choice([3, 4, 5, 6, 7]), allow=set())
        if sim.flags:
            continue
        for st in sim.steps:
            ctx.count('step:' + st.split()[0])
        yield history_case(sim, 'heap:guarded-random', True)
    # 2. exhaustive: every constructor route x every state of the argument (writeable / frozen owner / frozen view of frozen owner)
    #    x every follow-up (caller write through each alias, expose + write, view of the exposure, round trips)
    routes = [('c_series', ()), ('c_index', ()), ('c_tb1', ()), ('c_frame', (False,)), ('c_frame', (True,))]
    preps = {
        'writeable': [],
        'frozen-owner': [('freeze', 0)],
        'frozen-view-of-frozen-owner': [('view', 0, slice(None)), ('freeze', 0), ('freeze', 1)],
        'writeable-view-argument': [('view', 0, slice(1, None))],
    }
    follow = [
        [('write', 0, 0, -7)], [('expose', 0, 0), ('write', -1, 0, -7)], [('expose', 0, 0), ('view', -1, slice(None, None, -1)), ('write', -1, 0, -7)],
        [('d_pickle_tb', 0), ('expose', 1, 0), ('write', -1, 0, -7)], [('d_deepcopy', 0), ('expose', 1, 0), ('write', -1, 0, -7)],
        [('d_select', 0, slice(1, None)), ('write', 0, 1, -7), ('expose', 1, 0)], [('d_select', 0, [1, 0]), ('write', 0, 1, -7)],
        [('d_rename', 0), ('write', 0, 0, -5), ('expose', 1, 0), ('write', -1, 0, -6)],
    ]
    for (route, rargs), (pname, prep), fol in itertools.product(routes, preps.items(), follow):
        sim = Sim()
        sim.new([11, 22, 33])
        for op, *args in prep:
            getattr(sim, op)(*args)
        arg = len(sim.callers) - 1 if pname in ('frozen-view-of-frozen-owner', 'writeable-view-argument') else 0
        if route == 'c_frame' and rargs[0] and sim._has_other_writeable_alias(arg):
            continue        # outside the own_data hypothesis: stratum heap:own-alias below
        if route == 'c_tb1':
            sim.c_tb([arg])
        else:
            getattr(sim, route)(arg, *rargs)
        for op, *args in fol:
            if op == 'd_pickle_tb':
                if sim.conts[0][0] != 'tb':
                    op = 'd_deepcopy'
                else:
                    op = 'd_pickle'
            args = [len(sim.callers) - 1 if (a == -1 and i == 0 and op in ('write', 'view')) else a for i, a in enumerate(args)]
            if op == 'write' and not sim.callers[args[0]].shape[0] > args[1]:
                continue
            getattr(sim, op)(*args)
        ctx.count(f'route:{route}{rargs}:{pname}')
        if sim.flags:
            continue
        yield history_case(sim, 'heap:guarded-exhaustive-routes', True)
    # 3. FINDING class by construction: a read-only argument one alias of which is still writeable
    for route, rargs in routes[:4]:
        for variant in ('view-frozen', 'owner-frozen-view-writeable'):
            sim = Sim()
            sim.new([11, 22, 33])
            sim.view(0, slice(None))
            sim.freeze(1 if variant == 'view-frozen' else 0)
            arg = 1 if variant == 'view-frozen' else 0
            if route == 'c_tb1':
                sim.c_tb([arg])
            else:
                getattr(sim, route)(arg, *rargs)
            sim.write(1 - arg, 0, -7)
            sim.expose(0, 0)
            if sim.flags != {'readonly_alias'}:
                continue
            yield history_case(sim, 'heap:readonly-alias', False, check='readonly-alias')
    for i in range(ctx.n(30, 300)):
        sim = Sim()
        random_history(ctx.rng, sim, ctx.rng.choice([4, 5, 6, 7]), allow={'readonly_alias'})
        if sim.flags == {'readonly_alias'}:
            yield history_case(sim, 'heap:readonly-alias', False, check='readonly-alias')
    # 4. outside the quantifier (explicit ownership transfer): own_data=True while another alias is writeable; M only
    for variant in ('view-before', 'base-of-argument'):
        sim = Sim()
        sim.new([11, 22, 33])
        sim.view(0, slice(None))
        arg = 0 if variant == 'view-before' else 1
        sim.c_frame(arg, True)
        sim.write(1 - arg, 0, -7)
        sim.expose(0, 0)
        if sim.flags != {'own_alias'}:
            continue
        yield history_case(sim, 'heap:own-alias', False, spec=False)
    for i in range(ctx.n(30, 300)):
        sim = Sim()
        random_history(ctx.rng, sim, ctx.rng.choice([4, 5, 6, 7]), allow={'own_alias'})
        if sim.flags == {'own_alias'}:
            yield history_case(sim, 'heap:own-alias', False, spec=False)
    # 5. pickle round trip of a container that has an Index, exposure of the unpickled positions, attempted write.
    #    REGRESSION of the repaired finding C01-pickle-positions (/repo 72854e7): with the table regenerated from the current source
    #    every slot is re-frozen, the history is guarded and its specification is S (the write must raise, nothing changes).
    #    Should __setstate__ stop re-freezing a slot again, the same histories fall into the by-construction class pickle_index.
    for route, rargs in (('c_series', ()), ('c_index', ()), ('c_frame', (False,))):
        sim = Sim()
        sim.new([11, 22, 33])
        getattr(sim, route)(0, *rargs)
        sim.d_pickle(0)
        j = {'c_series': 2, 'c_index': 1, 'c_frame': 2}[route]
        sim.expose(1, j)
        sim.write(len(sim.callers) - 1, 0, -7)
        sim.d_rename(1)
        if sim.flags - {'pickle_index'}:
            continue
        yield history_case(sim, 'heap:pickle-index' + ('' if sim.flags else '-regression'), False, check='pickle-readonly', slot='_positions')
    for i in range(ctx.n(30, 300)):
        sim = Sim()
        random_history(ctx.rng, sim, ctx.rng.choice([4, 5, 6, 7]), allow={'pickle_index'})
        if sim.flags == {'pickle_index'}:
            yield history_case(sim, 'heap:pickle-index', False, check='pickle-readonly', slot='_positions')
        elif not sim.flags and any('pickle_dsrcs_from' in st for st in sim.steps):
            yield history_case(sim, 'heap:pickle-index-regression', True)


# =============================================================================== interface x zoo enumeration (Python-side observation)
import inspect
import io
import os
import shutil
import tempfile

_SENTINEL = object()


def digest(a):
    '''Hashable content of an ndarray (dtype, shape, every element).'''
    if isinstance(a, np.ma.MaskedArray):
        return ('ma', digest(np.asarray(a.data)), digest(np.ma.getmaskarray(a)))
    if a.dtype.kind == 'O':
        return (a.dtype.str, a.shape, repr(a.tolist()))
    return (a.dtype.str, a.shape, np.ascontiguousarray(a).tobytes())


def _is_sf(obj):
    return type(obj).__module__.startswith('static_frame')


def observe_container(obj):
    '''Everything observable through a container (labels, values, dtypes, name, shape, class), via public accessors plus the raw blocks.'''
    import static_frame as sf
    from static_frame.core.type_blocks import TypeBlocks
    from static_frame.core.index_base import IndexBase
    if isinstance(obj, TypeBlocks):
        return ('TB', obj._shape, tuple(digest(b) for b in obj._blocks), tuple(str(d) for d in obj._dtypes))
    if isinstance(obj, IndexBase):
        if obj.depth > 1:
            return (type(obj).__name__, repr(obj.name), digest(obj.values), digest(obj.positions), tuple(obj.shape), obj.depth, len(obj),
                    tuple(str(d) for d in obj.dtypes.values), tuple(t.__name__ for t in obj.index_types.values),
                    tuple(digest(obj.values_at_depth(d)) for d in range(obj.depth)), _lookups(obj))
        return (type(obj).__name__, repr(obj.name), digest(obj.values), digest(obj.positions), tuple(obj.shape), len(obj), _lookups(obj))
    if isinstance(obj, sf.Series):
        return (type(obj).__name__, repr(obj.name), digest(obj.values), observe_container(obj.index))
    if isinstance(obj, sf.Frame):
        return (type(obj).__name__, repr(obj.name), obj.shape, observe_container(obj._blocks),
                observe_container(obj.index), observe_container(obj.columns))
    raise TypeError(type(obj))


def _lookups(ix, limit=6):
    '''What the label MAP of an index answers (a member separate from the label array): position and membership of the first labels.'''
    out = []
    try:
        labels = list(itertools.islice(ix.__iter__(), limit))
    except Exception as e:  # noqa
        return ('ITER-RAISES', type(e).__name__)
    for i, lab in enumerate(labels):
        try:
            if lab != lab:      # NaN / NaT labels are not looked up by value
                continue
        except Exception:  # noqa
            continue
        try:
            pos = ix.loc_to_iloc(lab)
            out.append((i, int(pos) if isinstance(pos, (int, np.integer)) else repr(pos), lab in ix))
        except Exception as e:  # noqa
            out.append((i, type(e).__name__))
    return tuple(out)


def probe_absent(obj, labels):
    '''Lookups of labels that are NOT labels of the static container `obj` (e.g. labels a grow-only source gained later): every axis of
    obj must deny them. Returns a reason string or None.'''
    import static_frame as sf
    from static_frame.core.index_base import IndexBase
    axes = []
    if isinstance(obj, IndexBase):
        axes = [('index', obj)]
    elif isinstance(obj, sf.Series):
        axes = [('index', obj.index)]
    elif isinstance(obj, sf.Frame):
        axes = [('index', obj.index), ('columns', obj.columns)]
    for lab in labels:
        for aname, ix in axes:
            try:
                present = any((x == lab) is True for x in ix.__iter__())
            except Exception:  # noqa
                present = False
            if present:
                continue
            try:
                if lab in ix:
                    return f'{lab!r} in {type(obj).__name__}.{aname} is True although it is not one of its labels {list(ix)[:6]}'
            except Exception:  # noqa
                pass
            try:
                pos = ix.loc_to_iloc(lab)
                return f'{type(obj).__name__}.{aname}.loc_to_iloc({lab!r}) returns {pos!r} although the label is absent (len {len(ix)})'
            except (KeyError, TypeError, ValueError):
                pass
            except Exception as e:  # noqa
                return f'{type(obj).__name__}.{aname}.loc_to_iloc({lab!r}) raises {type(e).__name__} instead of KeyError'
        if isinstance(obj, sf.Frame) and not any((x == lab) is True for x in obj.columns.__iter__()):
            try:
                got = obj.get(lab, _SENTINEL)
                if got is not _SENTINEL:
                    return f'Frame.get({lab!r}, default) does not return the default although the column is absent'
            except Exception as e:  # noqa
                return f'Frame.get({lab!r}, default) raises {type(e).__name__} although the column is absent'
        if isinstance(obj, sf.Series) and not any((x == lab) is True for x in obj.index.__iter__()):
            try:
                got = obj.get(lab, _SENTINEL)
                if got is not _SENTINEL:
                    return f'Series.get({lab!r}, default) does not return the default although the label is absent'
            except Exception as e:  # noqa
                return f'Series.get({lab!r}, default) raises {type(e).__name__} although the label is absent'
    return None


def _base_writeable(a):
    '''Some array this one is a view of is writeable (the caller can write the same memory through it).'''
    b = a.base
    while isinstance(b, np.ndarray):
        if b.flags.writeable:
            return True
        b = b.base
    return False


def _slots_of(obj):
    names = []
    for cls in type(obj).__mro__:
        sl = cls.__dict__.get('__slots__', ())
        if isinstance(sl, str):
            sl = (sl,)
        names.extend(n for n in sl if n != '__weakref__')
    return names


def walk_arrays(obj, path='r', out=None, seen=None, depth=0, budget=None, inside=False):
    """Every ndarray reachable from a result -> [(path, array, inside_container)]: slots of static-frame objects (inside=True),
    tuples / lists / dicts / sets, generators and iterators (consumed, bounded), masked arrays; the cells of an object array are
    cell VALUES (inside=False again)."""
    if out is None:
        out, seen, budget = [], set(), [4000]
    if depth > 8 or budget[0] <= 0 or id(obj) in seen:
        return out
    budget[0] -= 1
    if isinstance(obj, np.ndarray):
        seen.add(id(obj))
        out.append((path, obj, inside))
        if isinstance(obj, np.ma.MaskedArray):
            out.append((path + '.mask', np.ma.getmaskarray(obj), inside))
        if obj.dtype.kind == 'O' and obj.size <= 64:
            for i, x in enumerate(obj.reshape(-1)):
                if isinstance(x, np.ndarray) or _is_sf(x):
                    walk_arrays(x, f'{path}<{i}>', out, seen, depth + 1, budget, False)
        return out
    if obj is None or isinstance(obj, (str, bytes, int, float, complex, bool, np.generic, type)):
        return out
    seen.add(id(obj))
    if isinstance(obj, (list, tuple, set, frozenset)):
        for i, x in enumerate(itertools.islice(obj, 64)):
            walk_arrays(x, f'{path}[{i}]', out, seen, depth + 1, budget, inside)
    elif isinstance(obj, dict):
        for i, (k, v) in enumerate(itertools.islice(obj.items(), 64)):
            walk_arrays(k, f'{path}.key{i}', out, seen, depth + 1, budget, inside)
            walk_arrays(v, f'{path}[{k!r}]', out, seen, depth + 1, budget, inside)
    elif _is_sf(obj):
        if is_node(obj):
            return out
        for n in _slots_of(obj):
            try:
                v = getattr(obj, n)
            except AttributeError:
                continue
            walk_arrays(v, f'{path}.{n}', out, seen, depth + 1, budget, True)
        d = getattr(obj, '__dict__', None)
        if d:
            for n, v in list(d.items())[:32]:
                walk_arrays(v, f'{path}.{n}', out, seen, depth + 1, budget, True)
    elif hasattr(obj, '__next__') or inspect.isgenerator(obj) or type(obj).__name__ in ('dict_keys', 'dict_values', 'dict_items', 'map', 'zip', 'filter'):
        try:
            for i, x in enumerate(itertools.islice(obj, 24)):
                walk_arrays(x, f'{path}<it{i}>', out, seen, depth + 1, budget, inside)
        except Exception:  # noqa: an iterator that raises midway is a failing call
            pass
    return out


def is_node(obj):
    '''An interface node: selector / assignment / iterator / accessor object hanging off a container.'''
    if not _is_sf(obj):
        return False
    n = type(obj).__name__
    return n.startswith(('Interface', 'IterNode', 'SeriesAssign', 'FrameAssign', 'FrameAsType', 'IndexHierarchyAsType'))


# ------------------------------------------------------------------ the zoo
def _ro(a):
    a.flags.writeable = False
    return a


def zoo(tier):
    '''[(name, recipe_text, factory)] -- factory() -> (container, [caller-held source arrays]).'''
    import datetime
    import static_frame as sf
    from static_frame.core.type_blocks import TypeBlocks
    from .. import zoo as Z
    out = []

    def add(name, text, fn):
        out.append((name, text, fn))

    # ---- Series: every dtype kind, 0-size, hierarchical / date index, built from caller arrays (writeable and read-only) and iterables
    add('S-int-arr', "a=np.array([3,1,2,1]); sf.Series(a, index=tuple('abcd'), name='s')",
        lambda: (lambda a: (sf.Series(a, index=tuple('abcd'), name='s'), [a]))(np.array([3, 1, 2, 1])))
    add('S-int-roarr', 'a=np.array([3,1,2,1]); a.flags.writeable=False; sf.Series(a)',
        lambda: (lambda a: (sf.Series(a), [a]))(_ro(np.array([3, 1, 2, 1]))))
    add('S-float-nan', "sf.Series([1.5, nan, -2.0, nan], index=(10,20,30,40))", lambda: (sf.Series([1.5, np.nan, -2.0, np.nan], index=(10, 20, 30, 40)), []))
    add('S-bool', "sf.Series([True, False, True], index=tuple('xyz'))", lambda: (sf.Series([True, False, True], index=tuple('xyz')), []))
    add('S-str', "sf.Series(['ab', 'c', 'ab'], index=(1,2,3), name=('t',1))", lambda: (sf.Series(['ab', 'c', 'ab'], index=(1, 2, 3), name=('t', 1)), []))
    add('S-obj', "sf.Series([1, 'a', None, 2.5], index=tuple('abcd'))", lambda: (sf.Series([1, 'a', None, 2.5], index=tuple('abcd')), []))
    add('S-dt64', "sf.Series(np.array(['2020-01-01','2020-01-03','NaT'], dtype='datetime64[D]'), index=sf.IndexDate(('2021-05-01','2021-05-02','2021-05-03')))",
        lambda: (lambda a: (sf.Series(a, index=sf.IndexDate(('2021-05-01', '2021-05-02', '2021-05-03'))), [a]))(np.array(['2020-01-01', '2020-01-03', 'NaT'], dtype='datetime64[D]')))
    add('S-empty', 'sf.Series(())', lambda: (sf.Series(()), []))
    add('S-hier', "sf.Series((1,2,3,4), index=sf.IndexHierarchy.from_product(('a','b'),(1,2)))",
        lambda: (sf.Series((1, 2, 3, 4), index=sf.IndexHierarchy.from_product(('a', 'b'), (1, 2))), []))
    add('SHE-int', "sf.SeriesHE((1,2,3), index=tuple('abc'))", lambda: (sf.SeriesHE((1, 2, 3), index=tuple('abc')), []))
    if tier != 'quick':
        add('S-complex', 'sf.Series([1+2j, 3j])', lambda: (sf.Series([1 + 2j, 3j]), []))
        add('S-bytes', "sf.Series(np.array([b'a', b'bc']))", lambda: (lambda a: (sf.Series(a), [a]))(np.array([b'a', b'bc'])))
        add('S-td64', "sf.Series(np.array([1, 2], dtype='timedelta64[s]'))", lambda: (lambda a: (sf.Series(a), [a]))(np.array([1, 2], dtype='timedelta64[s]')))
        add('S-uint8', "sf.Series(np.array([1, 200, 3], dtype=np.uint8), index=tuple('abc'))", lambda: (lambda a: (sf.Series(a, index=tuple('abc')), [a]))(np.array([1, 200, 3], dtype=np.uint8)))

    # ---- Index
    add('I-int-arr', 'a=np.array([10,20,30]); sf.Index(a, name="i")', lambda: (lambda a: (sf.Index(a, name='i'), [a]))(np.array([10, 20, 30])))
    add('I-str', "sf.Index(tuple('abcd'))", lambda: (sf.Index(tuple('abcd')), []))
    add('I-obj', "sf.Index((1, 'a', None))", lambda: (sf.Index((1, 'a', None)), []))
    add('I-empty', 'sf.Index(())', lambda: (sf.Index(()), []))
    add('I-date', "sf.IndexDate(('2020-01-01','2020-01-02','2020-02-01'))", lambda: (sf.IndexDate(('2020-01-01', '2020-01-02', '2020-02-01')), []))
    add('I-auto', 'sf.Series((5,6,7)).index', lambda: (sf.Series((5, 6, 7)).index, []))
    add('IGO-str', "sf.IndexGO(tuple('abc'))", lambda: (sf.IndexGO(tuple('abc')), []))
    if tier != 'quick':
        add('I-float', 'sf.Index((1.5, 2.5))', lambda: (sf.Index((1.5, 2.5)), []))
        add('I-year', "sf.IndexYear(('2019','2020'))", lambda: (sf.IndexYear(('2019', '2020')), []))
        add('I-ym', "sf.IndexYearMonth(('2019-01','2020-03'))", lambda: (sf.IndexYearMonth(('2019-01', '2020-03')), []))
        add('I-sec', "sf.IndexSecond(('2019-01-01T00:00:01','2020-03-01T00:00:02'))", lambda: (sf.IndexSecond(('2019-01-01T00:00:01', '2020-03-01T00:00:02')), []))

    # ---- IndexHierarchy
    add('IH-2', "sf.IndexHierarchy.from_product(('a','b'),(1,2,3), name='h')", lambda: (sf.IndexHierarchy.from_product(('a', 'b'), (1, 2, 3), name='h'), []))
    add('IH-3', "sf.IndexHierarchy.from_labels([('a',1,'x'),('a',1,'y'),('a',2,'x'),('b',1,'x')])",
        lambda: (sf.IndexHierarchy.from_labels([('a', 1, 'x'), ('a', 1, 'y'), ('a', 2, 'x'), ('b', 1, 'x')]), []))
    add('IH-date', "sf.IndexHierarchy.from_product(('a','b'), sf.IndexDate(('2020-01-01','2020-01-02')))",
        lambda: (sf.IndexHierarchy.from_product(('a', 'b'), sf.IndexDate(('2020-01-01', '2020-01-02'))), []))
    add('IHGO-2', "sf.IndexHierarchyGO.from_product(('a','b'),(1,2))", lambda: (sf.IndexHierarchyGO.from_product(('a', 'b'), (1, 2)), []))
    add('IH-arr', "a=np.array([['a',1],['a',2],['b',1]],dtype=object); sf.IndexHierarchy.from_labels(a)",
        lambda: (lambda a: (sf.IndexHierarchy.from_labels(a), [a]))(np.array([['a', 1], ['a', 2], ['b', 1]], dtype=object)))

    # ---- Frame: dtype mixes x block layouts
    def cols_for(kinds, rows):
        base = {
            'i': lambda k: np.arange(rows, dtype=np.int64) * (k + 2) - 3,
            'f': lambda k: np.array([1.5, np.nan, -2.0, 4.0, np.nan][:rows]) + k,
            'b': lambda k: np.array([True, False, True, True, False][:rows]),
            'U': lambda k: np.array(['ab', 'c', 'ab', 'zz', ''][:rows]),
            'O': lambda k: np.array([1, 'a', None, 2.5, (1, 2)][:rows] if rows < 5 else [1, 'a', None, 2.5, 'q'], dtype=object),
            'M': lambda k: np.array(['2020-01-01', '2020-01-03', 'NaT', '2021-01-01', '1999-12-31'][:rows], dtype='datetime64[D]'),
        }
        return [base[c](k) for k, c in enumerate(kinds)]

    def frame_recipes(kinds, rows, cls_name='Frame', index=None, columns=None, limit=None):
        cols = cols_for(kinds, rows)
        layouts = list(Z.layouts_for([c.dtype for c in cols]))
        if limit is not None:
            layouts = layouts[:1] + layouts[-limit + 1:] if limit > 1 else layouts[:1]
        for lay in layouts:
            name = f'F-{cls_name}-{kinds}-{rows}r-{Z.layout_str(lay)}'

            def fn(lay=lay):
                cs = cols_for(kinds, rows)
                f = Z.frame_from_columns(cs, lay, index=index() if index else None,
                                         columns=columns() if columns else tuple('pqrstu'[:len(kinds)]), name='f', cls=getattr(sf, cls_name))
                return f, cs
            yield name, f'zoo.frame_from_columns(cols {kinds} x {rows} rows, layout {Z.layout_str(lay)}, cls={cls_name})', fn

    lim = 2 if tier == 'quick' else None
    for r in frame_recipes('iif', 3, limit=lim):
        add(*r)
    for r in frame_recipes('ifUb', 4, limit=1 if tier == 'quick' else 3):
        add(*r)
    for r in frame_recipes('iO', 3, limit=1):
        add(*r)
    for r in frame_recipes('iiM', 3, limit=1 if tier == 'quick' else 2):
        add(*r)
    for r in frame_recipes('ii', 2, cls_name='FrameGO', limit=lim):
        add(*r)
    for r in frame_recipes('if', 3, cls_name='FrameHE', limit=1):
        add(*r)
    for r in frame_recipes('iii', 4, limit=1, index=lambda: sf.IndexHierarchy.from_product(('a', 'b'), (1, 2)),
                           columns=lambda: sf.IndexHierarchy.from_labels([('x', 1), ('x', 2), ('y', 1)])):
        add(r[0] + '-hier', r[1] + ' hierarchical index and columns', r[2])
    for r in frame_recipes('ff', 3, limit=1, index=lambda: sf.IndexDate(('2020-01-01', '2020-01-02', '2020-01-03'))):
        add(r[0] + '-date', r[1] + ' IndexDate index', r[2])
    for r in frame_recipes('iif', 4, limit=1, index=lambda: sf.IndexHierarchy.from_product(('a', 'b'), (1, 2))):
        add(r[0] + '-hier-index', r[1] + ' hierarchical index, flat columns', r[2])
    for r in frame_recipes('iii', 3, limit=1, columns=lambda: sf.IndexHierarchy.from_labels([('x', 1), ('x', 2), ('y', 1)])):
        add(r[0] + '-hier-columns', r[1] + ' flat index, hierarchical columns', r[2])
    add('S-hier3', "sf.Series((1,2,3), index=sf.IndexHierarchy.from_labels([('a',1,'x'),('a',2,'x'),('b',1,'y')]))",
        lambda: (sf.Series((1, 2, 3), index=sf.IndexHierarchy.from_labels([('a', 1, 'x'), ('a', 2, 'x'), ('b', 1, 'y')])), []))
    add('F-0rows', "sf.Frame.from_records((), columns=('a','b'))", lambda: (sf.Frame.from_records((), columns=('a', 'b')), []))
    add('F-0cols', "sf.Frame(index=(1,2,3))", lambda: (sf.Frame(index=(1, 2, 3)), []))
    add('F-0x0', 'sf.Frame()', lambda: (sf.Frame(), []))
    add('F-arr2d', "a=np.arange(6).reshape(3,2); sf.Frame(a, columns=('a','b'))", lambda: (lambda a: (sf.Frame(a, columns=('a', 'b')), [a]))(np.arange(6).reshape(3, 2)))
    add('F-records', "sf.Frame.from_records([(1,'a',1.5),(2,'b',nan)], columns=('x','y','z'), index=('r','s'))",
        lambda: (sf.Frame.from_records([(1, 'a', 1.5), (2, 'b', np.nan)], columns=('x', 'y', 'z'), index=('r', 's')), []))

    # ---- TypeBlocks
    def tb_recipe(kinds, rows, lay):
        def fn():
            cs = cols_for(kinds, rows)
            srcs = [c.copy() for c in cs]
            return TypeBlocks.from_blocks(Z.blocks_from_columns(cs, lay)), []
        return fn
    for kinds, rows in (('iif', 3), ('iU', 2)):
        cols = cols_for(kinds, rows)
        lays = list(Z.layouts_for([c.dtype for c in cols]))
        for lay in (lays[:2] if tier == 'quick' else lays):
            add(f'TB-{kinds}-{Z.layout_str(lay)}', f'TypeBlocks.from_blocks(zoo.blocks_from_columns(cols {kinds} x {rows}, {Z.layout_str(lay)}))', tb_recipe(kinds, rows, lay))
    add('TB-empty', 'TypeBlocks.from_zero_size_shape((0, 2))', lambda: (TypeBlocks.from_zero_size_shape((0, 2)), []))
    return out


# ------------------------------------------------------------------ argument pools (valid and failing), by parameter name
class Recv:
    '''A receiver with what the pools need to know about it.'''

    def __init__(self, name, text, obj, sources):
        import static_frame as sf
        from static_frame.core.type_blocks import TypeBlocks
        from static_frame.core.index_base import IndexBase
        self.name, self.text, self.obj, self.sources = name, text, obj, sources
        self.cls = type(obj)
        if isinstance(obj, TypeBlocks):
            self.kind = 'tb'
            self.L0, self.L1 = list(range(obj.shape[0])), list(range(obj.shape[1]))
        elif isinstance(obj, sf.Frame):
            self.kind = 'frame'
            self.L0, self.L1 = list(obj.index), list(obj.columns)
        elif isinstance(obj, sf.Series):
            self.kind = 'series'
            self.L0, self.L1 = list(obj.index), []
        elif isinstance(obj, IndexBase):
            self.kind = 'ih' if obj.depth > 1 else 'index'
            self.L0, self.L1 = list(obj), []
        else:
            raise TypeError(type(obj))
        self.n0, self.n1 = len(self.L0), len(self.L1)
        self.static = getattr(obj, 'STATIC', True)
        self.mutators = set() if self.static else {'append', 'extend', 'extend_items', '__setitem__'}


_WARR_N = [0]


def _warr(vals, dtype=None):
    '''A fresh WRITEABLE caller array; every other one is a VIEW (a column) of a larger writeable array the caller also holds.'''
    a = np.array(vals, dtype=dtype)
    _WARR_N[0] += 1
    if _WARR_N[0] % 2 and a.ndim == 1 and a.size:
        base = np.empty((a.shape[0], 2), dtype=a.dtype)
        base[:, 0] = a
        base[:, 1] = a
        return base[:, 0]
    return a


def key_pool(R, tail, rng):
    '''Selection keys for the node / member whose name is `tail` ('iloc', 'loc', 'bloc', '[]').'''
    import static_frame as sf
    n0, n1, L0, L1 = R.n0, R.n1, R.L0, R.L1
    pos = [('0', lambda: 0), ('-1', lambda: -1), ('[0]', lambda: [0]), ('slice(0,2)', lambda: slice(0, 2)), ('slice(None,None,-1)', lambda: slice(None, None, -1)),
           ('slice(None)', lambda: slice(None)), ('np.array([0]) writeable', lambda: _warr([0])), ('99', lambda: 99), ('None', lambda: None)]
    if n0:
        pos += [(f'np bool mask[{n0}] writeable', lambda: _warr([i % 2 == 0 for i in range(n0)])), ('[n-1, 0]', lambda: [n0 - 1, 0])]
    positional = R.kind in ('index', 'ih', 'tb') or tail == 'iloc'
    if tail == 'bloc':
        out = [('2D bool ndarray writeable', lambda: _warr([[(i + j) % 2 == 0 for j in range(n1)] for i in range(n0)], dtype=bool).reshape(n0, n1)),
               ('wrong-shape mask', lambda: _warr([[True]]))]
        if R.kind == 'frame':
            out.append(('boolean Frame', lambda: sf.Frame(np.full((n0, n1), True), index=R.obj.index, columns=R.obj.columns)))
        return out
    if positional:
        out = list(pos)
        if R.kind in ('frame', 'tb'):
            out += [('(0, 0)', lambda: (0, 0)), ('(slice(None), 0)', lambda: (slice(None), 0)), ('(slice(None), [0])', lambda: (slice(None), [0])),
                    ('(slice(None), slice(0,2))', lambda: (slice(None), slice(0, 2))), ('([0], slice(None,None,-1))', lambda: ([0], slice(None, None, -1))),
                    ('(0, 99)', lambda: (0, 99))]
            if n1:
                out.append(('(slice(None), bool mask cols writeable)', lambda: (slice(None), _warr([j % 2 == 0 for j in range(n1)]))))
        if R.kind == 'ih' and tail == 'loc' and L0:
            out += [(f'{L0[0]!r}', lambda: L0[0]), (f'HLoc[{L0[0][0]!r}]', lambda: sf.HLoc[L0[0][0]]), (f'[{L0[0]!r}, {L0[-1]!r}]', lambda: [L0[0], L0[-1]]),
                    ("('zz', 9)", lambda: ('zz', 9))]
        if R.kind == 'index' and tail == 'loc' and L0:
            out += [(f'{L0[0]!r}', lambda: L0[0]), (f'[{L0[0]!r}]', lambda: [L0[0]]), ("'zz'", lambda: 'zz')]
        return out
    # label keys
    labs = L1 if (R.kind == 'frame' and tail == '[]') else L0
    out = [("'zz' (missing)", lambda: 'zz'), ('slice(None)', lambda: slice(None)), ('ILoc[0]', lambda: sf.ILoc[0]), ('[] empty list', lambda: [])]
    if labs:
        a, b = labs[0], labs[-1]
        out += [(f'{a!r}', lambda: a), (f'[{a!r}, {b!r}]', lambda: [a, b]), (f'slice({a!r}, {b!r})', lambda: slice(a, b)),
                ('bool mask writeable', lambda: _warr([i % 2 == 0 for i in range(len(labs))])),
                ('label ndarray writeable', lambda: _warr([a], dtype=object))]
        if isinstance(a, tuple):
            out += [(f'HLoc[{a[0]!r}]', lambda: sf.HLoc[a[0]])]
    if R.kind == 'frame' and tail == 'loc' and L0 and L1:
        out += [(f'({L0[0]!r}, {L1[0]!r})', lambda: (L0[0], L1[0])), (f'(slice(None), [{L1[0]!r}])', lambda: (slice(None), [L1[0]])),
                (f'([{L0[-1]!r}, {L0[0]!r}], slice(None))', lambda: ([L0[-1], L0[0]], slice(None)))]
    return out


def arg_pool(R, pname, default, path, rng, tmp):
    '''Candidate values [(text, thunk)] for parameter `pname` of the member at `path`; the first is the most plausible.'''
    import static_frame as sf
    obj, n0, n1, L0, L1 = R.obj, R.n0, R.n1, R.L0, R.L1
    member = path[-1][0] if path else ''
    top = path[0][0] if path else ''
    is_op = member.startswith('__') and member not in ('__getitem__', '__call__', '__contains__', '__round__', '__deepcopy__', '__array__', '__array_ufunc__')

    def shaped(fill=2):
        if R.kind in ('frame', 'tb'):
            return np.full((n0, n1), fill)
        return np.full(n0, fill)

    P = []
    if member == 'from_pandas' and pname == 'value':
        import pandas as pd
        P = [('pandas DataFrame (int, float cols)', lambda: pd.DataFrame({'a': np.array([1, 2, 3]), 'b': np.array([1.5, 2.5, 3.5])})),
             ('pandas Series', lambda: pd.Series(np.array([1, 2, 3]), index=list('abc'))),
             ('pandas Index', lambda: pd.Index(np.array([10, 20, 30]))),
             ('pandas MultiIndex', lambda: pd.MultiIndex.from_product((('a', 'b'), (1, 2)))),
             ('5', lambda: 5)]
        first = {'frame': 0, 'series': 1, 'index': 2, 'ih': 3}.get(R.kind, 0)
        return [P[first]] + [x for i, x in enumerate(P) if i != first]
    if member.startswith('from_') and pname == 'fp':
        def write(name, text):
            path = os.path.join(tmp, name)
            with open(path, 'w') as f:
                f.write(text)
            return path
        sep = chr(9) if 'tsv' in member else ','
        return [('existing delimited file', lambda: write('in' + ('.tsv' if sep != ',' else '.csv'), f'a{sep}b{chr(10)}1{sep}2{chr(10)}3{sep}4{chr(10)}')),
                ('StringIO', lambda: io.StringIO(f'a{sep}b{chr(10)}1{sep}2{chr(10)}3{sep}4{chr(10)}')), ('missing path', lambda: os.path.join(tmp, 'missing.csv'))]
    if pname == 'mapping' and member.startswith('from_'):
        return [("{'a': writeable ndarray, 'b': writeable ndarray}", lambda: {'a': _warr([1, 2, 3]), 'b': _warr([4, 5, 6])}), ("{'a': 1, 'b': 2}", lambda: {'a': 1, 'b': 2}),
                ("{'a': (1, 2), 'b': (3, 4)}", lambda: {'a': (1, 2), 'b': (3, 4)}), ('5', lambda: 5)]
    if pname == 'fields':
        return [('[writeable ndarray, writeable ndarray]', lambda: [_warr([1, 2, 3]), _warr([4, 5, 6])]), ('[(1, 2), (3, 4)]', lambda: [(1, 2), (3, 4)]), ('5', lambda: 5)]
    if pname == 'labels' and R.kind == 'ih' and member.startswith('from_'):
        return [("[('a', 1), ('a', 2), ('b', 1)]", lambda: [('a', 1), ('a', 2), ('b', 1)]),
                ('2D writeable object ndarray', lambda: _warr([['a', 1], ['a', 2], ['b', 1]], dtype=object)),
                ("['a|1', 'a|2']", lambda: ['a|1', 'a|2']), ('5', lambda: 5)]
    if pname == 'json_data':
        return [('json records', lambda: '[{"a": 1, "b": 2}, {"a": 3, "b": 4}]'), ("'x'", lambda: 'x')]
    if pname == 'key':
        tail = 'loc'
        for name, kind in reversed(path):
            if name in ('iloc', 'loc', 'bloc'):
                tail = name
                break
            if name in ('__getitem__',):
                tail = '[]'
        return key_pool(R, tail, rng)
    if pname in ('other', 'others'):
        one = [('recv', lambda: obj), ('2', lambda: 2), ('ndarray same shape writeable', lambda: shaped()), ("'a'", lambda: 'a'), ('[1]', lambda: [1])]
        if R.kind == 'series':
            one.append(('recv.iloc[:1]', lambda: obj.iloc[:1]))
        if R.kind in ('index', 'ih') and n0:
            one.append(('recv[:1]', lambda: obj[:1]))
        if pname == 'others':
            return [('[recv]', lambda: [obj]), ('[recv, recv]', lambda: [obj, obj]), ('[2]', lambda: [2])]
        return one
    if pname in ('value', 'fill_value', 'values', 'element', 'composite_index_fill_value'):
        P = [('0', lambda: 0), ('ndarray same shape writeable', lambda: shaped(7)), ('None', lambda: None), ("'x'", lambda: 'x'),
             ('[0, 1]', lambda: [0, 1]), ('1D writeable ndarray len n0', lambda: _warr(list(range(n0))))]
        if R.kind == 'series':
            P.append(('Series same index', lambda: sf.Series(list(range(n0)), index=obj.index)))
        if R.kind == 'frame':
            P.append(('Frame same labels', lambda: sf.Frame(np.full((n0, n1), 5), index=obj.index, columns=obj.columns)))
            P.append(('Series on columns', lambda: sf.Series(list(range(n1)), index=obj.columns)))
        if pname == 'values':
            P = [('[0, 1]', lambda: [0, 1]), ('1D writeable ndarray len n0', lambda: _warr(list(range(n0)))), ('ndarray same shape writeable', lambda: shaped(7)),
                 ('()', lambda: ()), ('5', lambda: 5)]
        return P
    if pname == 'axis':
        return [('0', lambda: 0), ('1', lambda: 1), ('3', lambda: 3)]
    if pname in ('func', 'window_func', 'mapper', 'condition', 'constructor', 'ufunc', 'ufunc_skipna'):
        P = [('lambda x: x', lambda: (lambda x: x)), ('lambda *a: 0', lambda: (lambda *a: 0)), ('np.sum', lambda: np.sum), ('dict()', lambda: {}), ('None', lambda: None)]
        if pname == 'mapper' and L0:
            P.insert(1, ('{label: label}', lambda: {L0[0]: L0[0]}))
        if pname == 'constructor':
            P.insert(0, ('sf.Index', lambda: sf.Index))
        return P
    if pname == 'mapping':
        return [('{}', lambda: {}), ('{0: 1}', lambda: {0: 1}), ('Series', lambda: sf.Series((1,), index=(0,))), ('5', lambda: 5)]
    if pname in ('index', 'columns', 'labels', 'names', 'fields'):
        n = n1 if pname == 'columns' else n0
        P = [(f'range({n}) as list', lambda: list(range(n))), (f'writeable label ndarray len {n}', lambda: _warr([f'k{i}' for i in range(n)])),
             ('sf.Index(range(n))', lambda: sf.Index(range(n))), ('IndexAutoFactory', lambda: sf.IndexAutoFactory), ('None', lambda: None),
             ("('only',)", lambda: ('only',)), ('IndexGO', lambda: sf.IndexGO(range(n)))]
        if pname == 'names':
            P = [("('n0','n1','n2')[:depth]", lambda: tuple(f'n{i}' for i in range(getattr(obj, 'depth', 1)))), ("'n'", lambda: 'n')]
        return P
    if pname in ('dtype', 'dtypes', 'values_dtype'):
        return [('float', lambda: float), ('object', lambda: object), ('str', lambda: str), ('np.int64', lambda: np.int64), ("'bogus'", lambda: 'bogus'), ('None', lambda: None)]
    if pname == 'name':
        return [("'n'", lambda: 'n'), ("('a', 1)", lambda: ('a', 1)), ('[1] (unhashable)', lambda: [1]), ('None', lambda: None)]
    if pname in ('count', 'size', 'shift', 'step', 'limit', 'decimals', 'depth_level', 'level', 'index_depth', 'columns_depth', 'start', 'stop', 'ddof',
                 'label_shift', 'start_shift', 'size_increment', 'depth', 'left_depth_level', 'right_depth_level', 'skip_header', 'skip_footer', 'lower', 'upper',
                 'depth_reference', 'seed'):
        P = [('1', lambda: 1), ('0', lambda: 0), ('2', lambda: 2), ('-1', lambda: -1), ('[0, 1]', lambda: [0, 1]), ("'a'", lambda: 'a')]
        if pname in ('lower', 'upper'):
            P.insert(1, ('ndarray same shape writeable', lambda: shaped(1)))
        return P
    if pname == 'fp':
        return [('tmp path', lambda: os.path.join(tmp, f'f{rng.randrange(10 ** 9)}.out')), ('StringIO', lambda: io.StringIO())]
    if pname == 'memo':
        return [('{}', lambda: {})]
    if pname in ('items', 'pairs'):
        P = [("[('a', 1), ('b', 2)]", lambda: [('a', 1), ('b', 2)]), ("[('a', writeable ndarray len n0)]", lambda: [('a', _warr(list(range(n0))))]),
             ("[('a', Series), ('b', Series)]", lambda: [('a', sf.Series((1, 2))), ('b', sf.Series((3, 4)))]), ('()', lambda: ()), ('5', lambda: 5)]
        if R.kind == 'frame':
            P.insert(0, ("[('new', writeable ndarray len n0)]", lambda: [('new', _warr(list(range(n0))))]))
        return P
    if pname == 'array' and member == 'from_structured_array':
        return [('structured writeable ndarray', lambda: np.array([(1, 2.0), (3, 4.0)], dtype=[('x', int), ('y', float)])),
                ('2D writeable ndarray', lambda: _warr([[1, 2], [3, 4]])), ('1D writeable ndarray', lambda: _warr([1, 2, 3]))]
    if pname in ('records', 'elements', 'data', 'json_data', 'msgpack_data', 'array', 'block', 'blocks', 'raw_blocks', 'tree', 'levels'):
        P = [('2D writeable ndarray', lambda: _warr([[1, 2], [3, 4]])), ('1D writeable ndarray', lambda: _warr([1, 2, 3])), ('[(1, 2), (3, 4)]', lambda: [(1, 2), (3, 4)]),
             ('[writeable 1D, writeable 1D]', lambda: [_warr([1, 2]), _warr([3, 4])]), ("{'a': (1, 2)}", lambda: {'a': (1, 2)}), ("'[1, 2]'", lambda: '[1, 2]'), ('()', lambda: ())]
        if pname == 'block':
            P = [('1D writeable ndarray len n0', lambda: _warr(list(range(n0)))), ('2D writeable ndarray n0 x 2', lambda: np.full((n0, 2), 3)), ('wrong length', lambda: _warr(list(range(n0 + 1))))]
        if pname == 'levels':
            P.insert(0, ('IndexLevel of recv', lambda: getattr(obj, '_levels', None)))
        if pname == 'tree':
            P.insert(0, ("{'a': (1, 2), 'b': (1,)}", lambda: {'a': (1, 2), 'b': (1,)}))
        return P
    if pname in ('container', 'containers', 'frames', 'series', 'type_blocks'):
        P = [('recv', lambda: obj), ('[recv]', lambda: [obj]), ('[recv, recv]', lambda: [obj, obj]), ('5', lambda: 5)]
        if pname in ('containers', 'frames', 'type_blocks'):
            P = P[1:] + P[:1]
        if pname == 'series' and R.kind == 'frame':
            P.insert(0, ('recv column 0', lambda: obj.iloc[:, 0]))
        return P
    if pname == 'shape':
        return [('(0, 2)', lambda: (0, 2)), ('(2, 2)', lambda: (2, 2))]
    if pname == 'label':
        return [("'new'", lambda: 'new'), (f'{L0[0]!r}' if L0 else "'q'", lambda: L0[0] if L0 else 'q')]
    if pname == 'column':
        return [(f'{L1[0]!r}' if L1 else "'q'", lambda: L1[0] if L1 else 'q'), ("'zz'", lambda: 'zz')]
    if pname in ('index_fields', 'columns_fields', 'data_fields', 'left_columns', 'right_columns', 'columns_select'):
        return [(f'{L1[0]!r}' if L1 else "'q'", lambda: L1[0] if L1 else 'q'), (f'[{L1[-1]!r}]' if L1 else "['q']", lambda: [L1[-1]] if L1 else ['q']), ("'zz'", lambda: 'zz')]
    if pname == 'depth_map':
        return [('[1, 0]', lambda: [1, 0]), ('[0]', lambda: [0])]
    if pname == 'bloc_key':
        return key_pool(R, 'bloc', rng)
    if pname in ('delimiter',):
        return [("'|'" if R.kind == 'ih' else "','", lambda: '|' if R.kind == 'ih' else ',')]
    if pname == 'show':
        return [('False', lambda: False)]
    if pname in ('pattern', 'sub', 'old', 'new', 'prefix', 'suffix', 'chars', 'sep', 'fillchar', 'format', 'encoding', 'errors'):
        P = [("'a'", lambda: 'a'), ("''", lambda: ''), ('5', lambda: 5)]
        if pname == 'format':
            P.insert(0, ("'%Y'", lambda: '%Y'))
        if pname in ('encoding', 'errors'):
            return [(repr(default), lambda: default)] if default is not inspect.Parameter.empty else [("'utf-8'", lambda: 'utf-8')]
        return P
    if pname in ('width',):
        return [('3', lambda: 3)]
    if pname in ('url', 'query', 'connection'):
        return [("'x'", lambda: 'x')]
    # generic: from the default
    if default is not inspect.Parameter.empty:
        if isinstance(default, bool):
            return [(repr(default), lambda: default), (repr(not default), lambda: (not default))]
        if isinstance(default, int):
            return [(repr(default), lambda: default), ('1', lambda: 1)]
        if isinstance(default, str):
            return [(repr(default), lambda: default), ("'x'", lambda: 'x')]
        return [(repr(default)[:30], lambda: default), ('1', lambda: 1), ("'x'", lambda: 'x')]
    return [('0', lambda: 0), ("'a'", lambda: 'a'), ('None', lambda: None), ('recv', lambda: obj), ('[recv]', lambda: [obj]), ('lambda x: x', lambda: (lambda x: x))]


SKIP_MEMBERS = {
    '__init__',          # re-initialising an existing instance is not a use of the public interface (alphabet exclusion)
    '__setstate__', '__class__', '__sizeof__', '__reduce__', '__reduce_ex__', '__init_subclass__', '__subclasshook__', '__new__', '__dir__', '__format__',
    '__getattribute__', '__setattr__', '__delattr__', '__doc__', '__module__', '__slots__', '__hash__' if False else '__weakref__',
    'to_clipboard', 'from_clipboard', 'interface',
}
NODE_SKIP = {'__orig_bases__', '__parameters__', '__class_getitem__', '__dict__', '__annotations__', '__abstractmethods__', '__repr__', '__str__',
             '__eq__', '__ne__', '__hash__'} - {'__eq__', '__ne__'}
SKIP_SUFFIX = ('_pool',)     # process pools: covered by C18


def extra_plans(R, member):
    '''Valid argument combinations that the one-parameter-at-a-time pools cannot reach: key / depth level paired with its axis.'''
    L0, L1 = R.L0, R.L1
    d0 = getattr(getattr(R.obj, 'index', R.obj), 'depth', 1) if R.kind in ('frame', 'series') else getattr(R.obj, 'depth', 1)
    d1 = getattr(getattr(R.obj, 'columns', None), 'depth', 1) if R.kind == 'frame' else 1
    P = []

    def plan(text, *args, **kwargs):
        P.append(([(lambda a=a: a) for a in args], {k: (lambda v=v: v) for k, v in kwargs.items()}, text))
    if R.kind == 'frame':
        if member == 'relabel_shift_in':
            if L1:
                plan(f'({L1[0]!r}, axis=0)', L1[0], axis=0)
                plan(f'([{L1[0]!r}], axis=0)', [L1[0]], axis=0)
                plan(f'(slice({L1[0]!r}, {L1[-1]!r}), axis=0)', slice(L1[0], L1[-1]), axis=0)
            if L0:
                plan(f'({L0[0]!r}, axis=1)', L0[0], axis=1)
                plan(f'([{L0[0]!r}, {L0[-1]!r}], axis=1)', [L0[0], L0[-1]], axis=1)
        elif member == 'relabel_shift_out':
            for ax, d in ((0, d0), (1, d1)):
                plan(f'(0, axis={ax})', 0, axis=ax)
                if d > 1:
                    plan(f'({d - 1}, axis={ax})', d - 1, axis=ax)
                    plan(f'([0, 1], axis={ax})', [0, 1], axis=ax)
        elif member == 'set_index' and L1:
            plan(f'({L1[0]!r})', L1[0])
            plan(f'({L1[-1]!r}, drop=True)', L1[-1], drop=True)
        elif member == 'set_index_hierarchy' and len(L1) > 1:
            plan(f'([{L1[0]!r}, {L1[1]!r}])', [L1[0], L1[1]])
            plan(f'([{L1[0]!r}, {L1[1]!r}], drop=True, reorder_for_hierarchy=True)', [L1[0], L1[1]], drop=True, reorder_for_hierarchy=True)
        elif member == 'unset_index':
            plan('()',)
            plan('(drop=True)', drop=True)
        elif member == 'rehierarch':
            if d0 > 1:
                plan(f'(index={list(range(d0))[::-1]})', index=list(range(d0))[::-1])
            if d1 > 1:
                plan(f'(columns={list(range(d1))[::-1]})', columns=list(range(d1))[::-1])
        elif member == 'relabel_level_add':
            plan("(index='L')", index='L')
            plan("(columns='L')", columns='L')
            plan("(index='L', columns='M')", index='L', columns='M')
        elif member == 'relabel_level_drop':
            if d0 > 1:
                plan('(index=1)', index=1)
                plan('(index=-1)', index=-1)
            if d1 > 1:
                plan('(columns=1)', columns=1)
                plan('(columns=-1)', columns=-1)
        elif member == 'relabel_flat':
            plan('(index=True)', index=True)
            plan('(columns=True)', columns=True)
        elif member in ('sort_index', 'sort_columns'):
            plan('()',)
            plan('(ascending=False)', ascending=False)
        elif member == 'sort_values' and L1:
            plan(f'({L1[0]!r})', L1[0])
            if L0:
                plan(f'({L0[0]!r}, axis=0)', L0[0], axis=0)
        elif member in ('reindex', 'relabel'):
            plan('(index=reversed labels)', index=L0[::-1])
            plan('(columns=reversed labels)', columns=L1[::-1])
    elif R.kind == 'series':
        if member == 'relabel_level_add':
            plan("('L')", 'L')
        elif member == 'relabel_level_drop' and d0 > 1:
            plan('(1)', 1)
            plan('(-1)', -1)
        elif member == 'rehierarch' and d0 > 1:
            plan(f'({list(range(d0))[::-1]})', list(range(d0))[::-1])
        elif member == 'relabel_flat' and d0 > 1:
            plan('()',)
    elif R.kind == 'ih':
        if member == 'level_add':
            plan("('L')", 'L')
        elif member == 'level_drop':
            plan('(1)', 1)
            plan('(-1)', -1)
        elif member == 'rehierarch':
            plan(f'({list(range(d0))[::-1]})', list(range(d0))[::-1])
        elif member == 'flat':
            plan('()',)
    elif R.kind == 'index':
        if member == 'level_add':
            plan("('L')", 'L')
    return P


ROT = {}     # rotation offsets of the argument pools, per member path (reset at the start of every enumeration)
VARARGS = {'levels': [("('a', 'b')", lambda: ('a', 'b')), ('writeable ndarray [1, 2]', lambda: _warr([1, 2]))],
           'args': [], 'others': []}


def call_plans(R, fn, path, rng, tmp, budget):
    '''Argument tuples for a callable: the canonical combination, each alternative of each parameter, random mixes; valid and failing.'''
    try:
        sig = inspect.signature(fn)
    except (TypeError, ValueError):
        return [((), {}, '()')]
    req, opt, var = [], [], None
    for p in sig.parameters.values():
        if p.kind == p.VAR_POSITIONAL:
            var = p
            continue
        if p.kind == p.VAR_KEYWORD:
            continue
        (req if p.default is p.empty else opt).append(p)
    pools = {p.name: arg_pool(R, p.name, p.default, path, rng, tmp) for p in req + opt}
    plans = []

    def build(choice):
        args, kwargs, txt = [], {}, []
        for p in req:
            t, th = choice[p.name]
            if p.kind == p.KEYWORD_ONLY:
                kwargs[p.name] = th
                txt.append(f'{p.name}={t}')
            else:
                args.append(th)
                txt.append(t)
        if var is not None:
            for t, th in VARARGS.get(var.name, ()):
                args.append(th)
                txt.append(t)
        for p in opt:
            if p.name in choice:
                t, th = choice[p.name]
                kwargs[p.name] = th
                txt.append(f'{p.name}={t}')
        return args, kwargs, '(' + ', '.join(txt) + ')'

    canon = {p.name: pools[p.name][0] for p in req}
    plans.append(build(canon))
    if len(path) == 1:
        plans.extend(extra_plans(R, path[0][0]))
    alts = []
    for p in req:
        for alt in pools[p.name][1:]:
            c = dict(canon)
            c[p.name] = alt
            alts.append(c)
    for p in opt:
        for alt in pools[p.name]:
            c = dict(canon)
            c[p.name] = alt
            alts.append(c)
    # rotate through the alternatives across receivers (every alternative of every parameter is used somewhere in the zoo)
    key = render(path)
    n = max(0, budget - 1)
    if alts and n:
        off = ROT.get(key, rng.randrange(len(alts)))
        for i in range(min(n, len(alts))):
            plans.append(build(alts[(off + i) % len(alts)]))
        ROT[key] = (off + n) % len(alts)
    return plans


# ------------------------------------------------------------------ the explorer
def render(path):
    out = ''
    for name, kind in path:
        if kind == 'getitem':
            out += '[]'
        elif kind == 'call':
            out += '()'
        elif name == '__getitem__':
            pass        # rendered by the following getitem step
        else:
            out += ('.' if out else '') + name
    return out


class _time_limit:
    '''Abort a call that does not return (e.g. a grow-only receiver extended with itself) -- counted as a failing call.'''

    def __init__(self, seconds):
        self.seconds = seconds

    def _raise(self, *a):
        raise TimeoutError('call did not return')

    def __enter__(self):
        import signal
        import threading
        self.active = threading.current_thread() is threading.main_thread()
        if self.active:
            self.old = signal.signal(signal.SIGALRM, self._raise)
            signal.setitimer(signal.ITIMER_REAL, self.seconds)

    def __exit__(self, *a):
        import signal
        if self.active:
            signal.setitimer(signal.ITIMER_REAL, 0)
            signal.signal(signal.SIGALRM, self.old)
        return False


CHECKS = ('state-unchanged', 'container-arrays-readonly', 'bare-array-readonly', 'no-caller-alias')


class Explorer:
    """Applies every public member (recursively through selector / assignment / iterator / accessor nodes) of one receiver, with
    argument pools, in a random order; after every call (1) compares a deep snapshot of every live container of the family,
    (2) walks the result: every array held by a returned container must be read-only and must not overlap a writeable array the
    caller holds, (3) every other array handed out must be read-only."""

    def __init__(self, R, rng, tmp, budget, with_constructors=True):
        from static_frame.core.interface import InterfaceSummary
        self.R, self.rng, self.tmp, self.budget = R, rng, tmp, budget
        self.stats = {}          # path string -> {'calls':, 'ok':, 'errors': {cls: n}}
        self.bad = {}            # (path string, check) -> [(call text, reason)]
        self.family = [('receiver', R.obj)]
        self.with_constructors = with_constructors
        obj = R.obj
        # bystanders sharing memory with the receiver, taken before anything is called
        try:
            if R.kind == 'frame':
                self.family.append(('receiver.iloc[:, ::-1]', obj.iloc[:, ::-1]))
                self.family.append(('receiver.T', obj.transpose()))
            elif R.kind == 'series':
                self.family.append(('receiver.iloc[::-1]', obj.iloc[::-1]))
            else:
                self.family.append(('receiver.copy()', obj.copy()))
        except Exception:  # noqa
            pass
        self.names = [n for n, _, _ in InterfaceSummary.name_obj_iter(type(obj)) if n not in SKIP_MEMBERS and not n.endswith(SKIP_SUFFIX)]
        try:
            objectish = R.kind == 'ih' or any(a.dtype.kind == 'O' for _, a, _ in walk_arrays(obj))
        except Exception:  # noqa
            objectish = True
        if objectish:
            # NumPy 2.5 segfaults in object-dtype matmul when an element operation raises (np.full(4, 2) @ object array of str and date):
            # a crash of NumPy, not an observation about static-frame; these two members are skipped on object-valued receivers
            self.names = [n for n in self.names if n not in ('__matmul__', '__rmatmul__')]
        self.base = self.snap()
        self.family_arrays = [a for _, c in self.family for _, a, _ in walk_arrays(c)]
        self.pristine = []
        for who, c in self.family:
            try:
                self.pristine.append(pickle.loads(pickle.dumps(c)))
            except Exception:  # noqa
                self.pristine.append(None)
        self.stat('<construction>', True)
        for who, c in self.family:
            w = [p for p, a, _ in walk_arrays(c, who) if a.flags.writeable]
            if w:
                self.flag('<construction>', 'container-arrays-readonly', R.text, f'{who} holds writeable arrays right after construction: {w[:4]}')

    def snap(self):
        out = []
        for _, c in self.family:
            try:
                out.append(observe_container(c))
            except Exception as e:  # noqa: an observation that raises is itself a change
                out.append(('RAISES', type(e).__name__))
        return out

    def stat(self, ps, ok, err=None):
        st = self.stats.setdefault(ps, {'calls': 0, 'ok': 0, 'errors': {}})
        st['calls'] += 1
        if ok:
            st['ok'] += 1
        else:
            st['errors'][err] = st['errors'].get(err, 0) + 1

    def flag(self, ps, check, text, reason):
        self.bad.setdefault((ps, check), []).append((text, reason))

    def perform(self, path, text, thunk, held=(), mutator=False):
        """Run one call; `held`: [(text, array)] every ndarray the caller passed in. Returns (ok, result)."""
        ps = render(path)
        held_w = [(ctext, c, bool(c.flags.writeable), _base_writeable(c)) for ctext, c in held]
        try:
            with _time_limit(10):
                result = thunk()
            ok, err = True, None
        except Exception as e:  # noqa: failing calls are part of the quantifier
            result, ok, err = None, False, type(e).__name__
        self.stat(ps, ok, err)
        arrays = []
        if ok:
            try:
                arrays = walk_arrays(result)
            except Exception:  # noqa
                arrays = []
        after = self.snap()
        if after != self.base:
            if not mutator:
                which = [self.family[i][0] for i in range(len(after)) if after[i] != self.base[i]]
                self.flag(ps, 'state-unchanged', text, f'observable state of {which} changed ({"call raised " + err if not ok else "call returned"})')
            self.base = after
            self.family_arrays = [a for _, c in self.family for _, a, _ in walk_arrays(c)]
            if mutator:
                # a grow-only receiver has just taken arrays in: they are now arrays "held by a container"
                arrays = list(arrays) + [('receiver' + p[1:], a, True) for p, a, _ in walk_arrays(self.R.obj)]
        held_ids = {id(c) for _, c in held}
        seen_kind = set()
        for apath, a, inside in arrays:
            mine = id(a) in held_ids
            if mine and not inside:
                continue            # the caller's own array object handed back (a key, a fill value, a cell value)
            if a.flags.writeable:
                alias = any(np.may_share_memory(a, b) and np.shares_memory(a, b) for b in self.family_arrays)
                check = 'container-arrays-readonly' if (inside or alias) else 'bare-array-readonly'
                if check not in seen_kind:
                    seen_kind.add(check)
                    self.flag(ps, check, text, f'array at {apath} (dtype {a.dtype}, shape {a.shape}) is writeable'
                              + (' and is held by a returned container' if inside else '') + (' and shares memory with a live container' if alias else ''))
            if inside and 'alias' not in seen_kind:
                for ctext, c, was_w, base_w in held_w:
                    if (was_w or base_w) and 'own_data=True' not in text and np.may_share_memory(a, c) and np.shares_memory(a, c):
                        seen_kind.add('alias')
                        self.flag(ps, 'no-caller-alias', text, f'array at {apath} of the returned container shares memory with the writeable caller array {ctext}: later writes by the caller show through')
                        break
        for ctext, c, was_w, base_w in held_w:
            if was_w and not c.flags.writeable and 'own_data=True' not in text and 'own_' not in text:
                self.flag(ps, 'no-caller-alias', text, f'the call set flags.writeable = False on the caller array {ctext} (a caller array is either already read-only or copied)')
                break
        return ok, result

    def call(self, path, fn, node_depth):
        name = path[-1][0]
        mut = name in self.R.mutators
        for args_th, kwargs_th, txt in call_plans(self.R, fn, path, self.rng, self.tmp, self.budget):
            try:
                args = [th() for th in args_th]
                kwargs = {k: th() for k, th in kwargs_th.items()}
            except Exception:  # noqa: the pool could not build the argument for this receiver
                continue
            if mut and any(a is self.R.obj or (isinstance(a, list) and any(x is self.R.obj for x in a)) for a in list(args) + list(kwargs.values())):
                continue    # a grow-only receiver extended with itself need not terminate (TypeBlocks.extend iterates the list it appends to)
            held = [(p, a) for p, a, _ in walk_arrays([args, kwargs], 'arg')]
            ok, result = self.perform(path + [('()', 'call')], f'{render(path)}{txt}', lambda: fn(*args, **kwargs), held, mutator=mut)
            if ok:
                self.after_result(path + [('()', 'call')], result, node_depth)

    def getitem(self, path, node, node_depth):
        pool = arg_pool(self.R, 'key', inspect.Parameter.empty, path, self.rng, self.tmp)
        rest = pool[1:]
        key = render(path) + '[]'
        picks = pool[:1]
        if rest:
            off = ROT.get(key, self.rng.randrange(len(rest)))
            n = min(len(rest), max(0, self.budget))
            picks += [rest[(off + i) % len(rest)] for i in range(n)]
            ROT[key] = (off + n) % len(rest)
        for txt, th in picks:
            try:
                key = th()
            except Exception:  # noqa
                continue
            held = [(p, a) for p, a, _ in walk_arrays(key, 'key')]
            ok, result = self.perform(path + [('[]', 'getitem')], f'{render(path)}[{txt}]', lambda: node[key], held)
            if ok:
                self.after_result(path + [('[]', 'getitem')], result, node_depth)

    def after_result(self, path, result, node_depth):
        if is_node(result) and node_depth < 3:
            self.explore_node(path, result, node_depth + 1)

    def explore_node(self, path, node, node_depth):
        own = set()
        objectish = self.R.kind == 'ih' or any(a.dtype.kind == 'O' for a in self.family_arrays)
        for k in type(node).__mro__:
            if k is not object:
                own.update(k.__dict__)
        names = [n for n in sorted(own) if (not n.startswith('_') or (n.startswith('__') and n.endswith('__') and n not in SKIP_MEMBERS and n not in NODE_SKIP))
                 and not n.endswith(SKIP_SUFFIX) and not (objectish and n in ('__matmul__', '__rmatmul__'))]
        self.rng.shuffle(names)
        for n in names:
            self.member(path, node, n, node_depth, on_node=True)

    def member(self, path, owner, n, node_depth, on_node=False):
        p = path + [(n, 'attr')]
        if n == '__getitem__':
            return self.getitem(path, owner, node_depth)
        if n == '__call__':
            return self.call(path, owner, node_depth)
        cls_attr = inspect.getattr_static(type(owner), n, None)
        try:
            with _time_limit(10):
                val = getattr(owner, n)
        except Exception as e:  # noqa: a property that raises
            self.stat(render(p), False, type(e).__name__)
            return
        if is_node(val):
            self.perform(p, render(p), lambda: getattr(owner, n))
            if node_depth < 3:
                self.explore_node(p, val, node_depth + 1)
            return
        if callable(val) and not isinstance(val, type) and not _is_container(val):
            is_ctor = isinstance(cls_attr, (classmethod, staticmethod))
            if is_ctor and not self.with_constructors:
                return
            return self.call(p, val, node_depth)
        if on_node:
            return      # plain data attributes of a transient node (key, container) are not interface members
        self.perform(p, render(p), lambda: getattr(owner, n))

    def check_pristine(self, n):
        '''The family must still equal the copies pickled before anything was called (name, dtype, class included).'''
        if self.R.mutators and n in self.R.mutators:
            for i, (who, c) in enumerate(self.family):
                if i == 0:
                    try:
                        self.pristine[0] = pickle.loads(pickle.dumps(c))
                    except Exception:  # noqa
                        self.pristine[0] = None
            return
        for (who, c), p0 in zip(self.family, self.pristine):
            if p0 is None:
                continue
            try:
                same = p0.equals(c, compare_name=True, compare_dtype=True, compare_class=True) if hasattr(p0, 'equals') and not isinstance(c, self._tb) else observe_container(p0) == observe_container(c)
            except Exception as e:  # noqa
                same = False
            if not same:
                self.flag(n + '()' if not n.endswith(')') else n, 'state-unchanged', f'{n}(...)', f'{who} no longer equals the copy pickled before the call')
                try:
                    self.pristine[self.family.index((who, c))] = pickle.loads(pickle.dumps(c))
                except Exception:  # noqa
                    pass

    def run(self):
        from static_frame.core.type_blocks import TypeBlocks
        self._tb = TypeBlocks
        names = list(self.names)
        self.rng.shuffle(names)
        for n in names:
            self.member([], self.R.obj, n, 0)
            self.check_pristine(n)
        # finally the caller writes into every array the receiver was built from
        for i, a in enumerate(self.R.sources):
            if a.flags.writeable and a.size:
                flat = a.reshape(-1)
                try:
                    if a.dtype.kind == 'b':
                        flat[0] = not flat[0]
                    elif a.dtype.kind in 'iuf':
                        flat[0] = flat[0] + 1
                    else:
                        flat[0] = flat[-1]
                        if a.size > 1 and flat[0] == flat[1]:
                            continue
                except Exception:  # noqa
                    continue
                self.stat('<caller writes source array>', True)
                after = self.snap()
                if after != self.base:
                    self.flag('<caller writes source array>', 'state-unchanged', f'source array {i} written after construction', 'the write shows through the container')
                    self.base = after


def _is_container(v):
    from static_frame.core.container import ContainerBase
    return isinstance(v, ContainerBase)


def interface_records(cls):
    from static_frame.core.interface import InterfaceSummary
    out = set()
    for r in InterfaceSummary.interrogate(cls):
        if r.signature_no_args and r.signature_no_args != 'interface':
            out.add(r.signature_no_args)
    return out


def roundtrip_cases(ctx, name, text, R):
    """pickle and deepcopy round trips of one zoo container: content preserved, every array read-only (one case per array slot name)."""
    for how, fn in (('pickle', lambda o: pickle.loads(pickle.dumps(o))), ('deepcopy', copy.deepcopy)):
        before = observe_container(R.obj)
        try:
            new = fn(R.obj)
        except Exception as e:  # noqa
            yield Case(f'roundtrip:{how}', {'receiver': text, 'call': how, 'raised': type(e).__name__}, tags={'check': f'{how}-content', 'zoo': name},
                       py_fail=None, nontrivial=False, key=f'{name}|{how}|raise')
            continue
        same = observe_container(new) == before and observe_container(R.obj) == before
        yield Case(f'roundtrip:{how}', {'receiver': text, 'call': f'{how} round trip', 'content_preserved': same},
                   py_fail=None if same else f'{text} ; {how} round trip does not preserve the observable content',
                   tags={'check': f'{how}-content', 'zoo': name, 'cls': R.cls.__name__}, key=f'{name}|{how}|content')
        by_slot = {}
        for apath, a, inside in walk_arrays(new):
            slot = apath.rsplit('.', 1)[-1].split('[')[0].split('<')[0]
            by_slot.setdefault(slot, []).append((apath, a))
        for slot, items in sorted(by_slot.items()):
            w = [(apath, a) for apath, a in items if a.flags.writeable]
            shared = [(apath, a) for apath, a in items if any(np.may_share_memory(a, b) and np.shares_memory(a, b) for _, b, _ in walk_arrays(R.obj)) and a.size
                      and not np.shares_memory(a, _positions_global())]
            why = None
            if w:
                why = f'{text} ; after the {how} round trip the array at {w[0][0]} is writeable'
            elif shared and how == 'pickle':
                why = f'{text} ; after the {how} round trip the array at {shared[0][0]} shares memory with the original'
            ctx.count(f'roundtrip:{how}:{slot}')
            yield Case(f'roundtrip:{how}', {'receiver': text, 'call': f'{how} round trip', 'slot': slot, 'arrays': len(items), 'writeable': [p for p, _ in w]},
                       py_fail=why, tags={'check': f'{how}-readonly', 'slot': slot, 'zoo': name, 'cls': R.cls.__name__}, key=f'{name}|{how}|{slot}')


def assignment_cases(ctx, name, text, R):
    """Mutation syntax on a static container: item / attribute assignment and deletion must raise and change nothing."""
    from static_frame.core.interface import InterfaceSummary
    if not R.static:
        return
    obj = R.obj
    base = observe_container(obj)
    attempts = []
    k0 = R.L0[0] if R.L0 else 0

    def setitem():
        obj[k0] = 0

    def delitem():
        del obj[k0]
    attempts += [('receiver[k] = 0', setitem, '__setitem__'), ('del receiver[k]', delitem, '__delitem__')]
    for sel in ('loc', 'iloc'):
        if hasattr(obj, sel):
            def f(sel=sel):
                getattr(obj, sel)[0 if sel == 'iloc' else k0] = 0
            attempts.append((f'receiver.{sel}[k] = 0', f, f'{sel}.__setitem__'))
    if hasattr(obj, 'values') and getattr(obj.values, 'size', 0):
        def wv():
            obj.values.reshape(-1)[0] = obj.values.reshape(-1)[-1]
            obj.values[...] = obj.values.reshape(-1)[0]
        attempts.append(('receiver.values[...] = x', wv, 'values.__setitem__'))
    for n, _, cls_attr in InterfaceSummary.name_obj_iter(type(obj)):
        if n.startswith('__') or n in ('interface',):
            continue
        try:
            cur = getattr(obj, n)
        except Exception:  # noqa
            continue
        if callable(cur) and not isinstance(cur, np.ndarray) and not is_node(cur):
            continue
        new_val = np.zeros(np.shape(cur), dtype=getattr(cur, 'dtype', float)) if isinstance(cur, np.ndarray) else 'x'

        def sa(n=n, new_val=new_val):
            setattr(obj, n, new_val)
        attempts.append((f'receiver.{n} = <new value>', sa, n))
    for txt, fn, member in attempts:
        try:
            fn()
            raised = None
        except Exception as e:  # noqa
            raised = type(e).__name__
        now = observe_container(obj)
        why = None
        if now != base:
            why = f'{text} ; {txt} changed the container' + ('' if raised else ' (and did not raise)')
            base = now
        elif raised is None:
            why = None      # accepted silently but nothing observable changed (e.g. rebinding a class-level constant on the instance is impossible with slots)
        ctx.count('assignment:' + ('raised' if raised else 'accepted'))
        yield Case('api:assignment-syntax', {'receiver': text, 'statement': txt, 'raised': raised, 'changed': why is not None},
                   py_fail=why, tags={'check': 'assignment-syntax', 'member': member, 'cls': R.cls.__name__, 'zoo': name}, key=f'{name}|assign|{member}')


_ALLOC_ARRAYS = []      # every shared array util.PositionsAllocator has published in this process (it is replaced when it regrows)


def _allocator_arrays():
    from static_frame.core.util import PositionsAllocator
    cur = PositionsAllocator._array
    if not any(cur is a for a in _ALLOC_ARRAYS):
        _ALLOC_ARRAYS.append(cur)
    return _ALLOC_ARRAYS


def _allocator_tainted(a):
    return any(np.shares_memory(a, g) for g in _allocator_arrays())


def _positions_global():
    from static_frame.core.util import PositionsAllocator
    _allocator_arrays()
    return PositionsAllocator._array


def large_phase_cases(ctx, rows, when):
    '''Make util.PositionsAllocator REGROW (a container with more rows than it has cached so far), then build small containers whose
    indices are label-mapped and check what they hand out: history-dependent state shared by every index of the process.'''
    import static_frame as sf
    from static_frame.core.util import PositionsAllocator
    _allocator_arrays()
    size_before = PositionsAllocator._size
    big = sf.Series(np.arange(rows))
    big_frame = sf.Frame(np.arange(rows * 2).reshape(rows, 2), index=[f'r{i}' for i in range(rows)])
    _allocator_arrays()
    regrown = PositionsAllocator._size != size_before
    ctx.count(f'large:{when}:rows={rows}:regrown={regrown}')
    fresh = [
        ("sf.Index(('a','b','c','d'))", lambda: sf.Index(('a', 'b', 'c', 'd'))),
        ("sf.IndexGO(('a','b','c'))", lambda: sf.IndexGO(('a', 'b', 'c'))),
        ("sf.IndexDate(('2020-01-01','2020-01-02'))", lambda: sf.IndexDate(('2020-01-01', '2020-01-02'))),
        ("sf.IndexHierarchy.from_product(('a','b'),(1,2))", lambda: sf.IndexHierarchy.from_product(('a', 'b'), (1, 2))),
        ("sf.IndexHierarchy.from_labels([('a',1,'x'),('a',2,'x'),('b',1,'y')])", lambda: sf.IndexHierarchy.from_labels([('a', 1, 'x'), ('a', 2, 'x'), ('b', 1, 'y')])),
        ("sf.Series((1,2,3), index=tuple('xyz'))", lambda: sf.Series((1, 2, 3), index=tuple('xyz'))),
        ("sf.Series((1,2,3))", lambda: sf.Series((1, 2, 3))),
        ("sf.Frame.from_records([(1,2),(3,4)], columns=('p','q'), index=('r','s'))", lambda: sf.Frame.from_records([(1, 2), (3, 4)], columns=('p', 'q'), index=('r', 's'))),
        ("sf.FrameGO.from_records([(1,2),(3,4)], columns=('p','q'))", lambda: sf.FrameGO.from_records([(1, 2), (3, 4)], columns=('p', 'q'))),
        (f'the {rows}-row Series itself', lambda: big), (f'the {rows}-row Frame itself (str index)', lambda: big_frame),
    ]
    made = []
    for text, fn in fresh:
        obj = fn()
        made.append((text, obj))
        w = [p for p, a, _ in walk_arrays(obj) if a.flags.writeable]
        why = None
        if w:
            why = f'after a {rows}-row container was created in this process, {text} holds writeable arrays: {w[:4]}'
        else:
            # every positions array handed out must reject a write
            idxs = [obj] if not hasattr(obj, 'index') else [obj.index] + ([obj.columns] if hasattr(obj, 'columns') else [])
            for ix in idxs:
                pos = ix.positions
                if len(pos):
                    try:
                        pos[0] = pos[0]
                        why = f'after a {rows}-row container was created in this process, {text}: positions accepts a write'
                    except ValueError:
                        pass
        yield Case('api:large-phase', {'phase': when, 'first': f'sf.Series(np.arange({rows})); sf.Frame(np.arange({rows * 2}).reshape({rows}, 2), index=[str labels])',
                                       'then': text, 'allocator_regrown': regrown, 'writeable_arrays': w[:6]},
                   py_fail=why, tags={'check': 'container-arrays-readonly', 'member': '<construction after allocator regrow>', 'zoo': text},
                   nontrivial=regrown, key=f'large|{when}|{rows}|{text}')
    # positions of different indices must be independent observations: nothing written through one may show in another
    snaps = [observe_container(o) for _, o in made]
    for text, obj in made:
        ix = obj if not hasattr(obj, 'index') else obj.index
        pos = ix.positions
        if len(pos) > 1:
            try:
                pos[0], pos[1] = 1, 0
            except ValueError:
                pass
    after = [observe_container(o) for _, o in made]
    changed = [made[i][0] for i in range(len(made)) if snaps[i] != after[i]]
    yield Case('api:large-phase', {'phase': when, 'rows': rows, 'attempt': 'swap positions[0], positions[1] through every index handed out', 'changed': changed},
               py_fail=None if not changed else f'after a {rows}-row container was created, writing through .positions changed {changed[:3]}',
               tags={'check': 'state-unchanged', 'member': '<positions write after allocator regrow>'}, nontrivial=regrown, key=f'large|{when}|{rows}|swap')


def enumeration_cases(ctx):
    rng = ctx.rng
    ROT.clear()
    _WARR_N[0] = 0
    tmp = tempfile.mkdtemp(prefix='c01_')
    budget = max(1, int((3 if ctx.tier == 'quick' else 8) * min(ctx.scale, 3)))
    import warnings
    old_tempdir = tempfile.tempdir
    tempfile.tempdir = tmp        # the library's own temporary files (to_html_datatables(fp=None)) land in the scratch directory
    try:
        seen_cls = set()
        coverage = {}
        with warnings.catch_warnings():
            warnings.simplefilter('ignore')
            recipes = zoo(ctx.tier)
            yield from large_phase_cases(ctx, 1025, 'first')
            yield from large_phase_cases(ctx, 5000, 'first')
            for zi, (name, text, factory) in enumerate(recipes):
                if zi == len(recipes) // 2:
                    yield from large_phase_cases(ctx, 25000, 'middle')
                obj, sources = factory()
                R = Recv(name, text, obj, sources)
                yield from roundtrip_cases(ctx, name, text, R)
                obj2, _ = factory()
                yield from assignment_cases(ctx, name, text, Recv(name, text, obj2, []))
                first = R.cls not in seen_cls
                seen_cls.add(R.cls)
                ex = Explorer(R, rng, tmp, budget, with_constructors=first)
                ex.run()
                cov = coverage.setdefault(R.cls, {})
                for ps, st in ex.stats.items():
                    c = cov.setdefault(ps, [0, 0])
                    c[0] += st['calls']
                    c[1] += st['ok']
                ctx.count(f'zoo:{R.kind}')
                for ps, st in sorted(ex.stats.items()):
                    ctx.count('calls:returned' if st['ok'] else 'calls:all-raised')
                    for check in CHECKS:
                        bad = ex.bad.get((ps, check))
                        yield Case(f'api:{R.kind}',
                                   {'receiver': text, 'member': ps, 'check': check, 'calls': st['calls'], 'returned': st['ok'], 'raised': st['errors'],
                                    'violations': [{'call': 'receiver.' + c, 'reason': r} for c, r in (bad or [])[:3]]},
                                   py_fail=None if not bad else f'{text} ; receiver.{bad[0][0]} : {bad[0][1]}',
                                   tags={'cls': R.cls.__name__, 'member': ps, 'check': check, 'zoo': name}, nontrivial=st['ok'] > 0, key=f'{name}|{ps}|{check}')
        # coverage of the library's own interface listing
        for cls, cov in coverage.items():
            recs = interface_records(cls)
            hit = {r for r in recs if r in cov}
            okhit = {r for r in recs if r in cov and cov[r][1] > 0}
            missing = sorted(recs - hit)
            ctx.count(f'interface:{cls.__name__}:records={len(recs)}:exercised={len(hit)}:returned={len(okhit)}')
            yield Case('coverage:interface', {'class': cls.__name__, 'records': len(recs), 'exercised': len(hit), 'returned_at_least_once': len(okhit),
                                               'not_exercised': missing[:80], 'never_returned': sorted(hit - okhit)[:80]},
                       tags={'cls': cls.__name__}, nontrivial=True, key=f'coverage|{cls.__name__}')
    finally:
        tempfile.tempdir = old_tempdir
        shutil.rmtree(tmp, ignore_errors=True)


def regression_cases(ctx):
    '''The inputs of the four repaired findings (fix commits 72854e7 f0b8a42 c94a7b3 50ff628 in /repo); spec = the correct behaviour.'''
    import static_frame as sf

    def writeable_arrays(obj):
        return [p for p, a, _ in walk_arrays(obj) if a.flags.writeable]

    def pickle_positions():
        i = pickle.loads(pickle.dumps(sf.Index((10, 20, 30))))
        p = i.positions
        try:
            p[0] = 99
            wrote = True
        except ValueError:
            wrote = False
        bad = wrote or p.flags.writeable or i.positions.tolist() != [0, 1, 2] or writeable_arrays(i)
        return None if not bad else f'unpickled Index: positions writeable={p.flags.writeable}, write accepted={wrote}, positions={i.positions.tolist()}'

    def pickle_arraygo():
        out = []
        for h in (sf.IndexHierarchy.from_product(('a', 'b'), (1, 2)), sf.IndexHierarchyGO.from_product(('a', 'b'), (1, 2)),
                  sf.Series((1, 2, 3, 4), index=sf.IndexHierarchy.from_product(('a', 'b'), (1, 2)))):
            out += writeable_arrays(pickle.loads(pickle.dumps(h)))
        return None if not out else f'after a pickle round trip of a hierarchical container these arrays are writeable: {out[:4]}'

    def round_frame():
        out = []
        for f in (sf.Frame(np.arange(4).reshape(2, 2)), sf.Frame.from_records([(1.26, 2), (3.51, 4)], columns=('a', 'b')), sf.FrameGO(np.arange(4).reshape(2, 2))):
            for r in (round(f), round(f, 1), f._blocks.__round__(1)):
                out += writeable_arrays(r)
                v = r.values
                if v.flags.writeable:
                    out.append('round(...).values')
        return None if not out else f'round() returned writeable arrays: {out[:4]}'

    def structured():
        a = np.array([(1, 2.0), (3, 4.0)], dtype=[('x', int), ('y', float)])
        f = sf.Frame.from_structured_array(a)
        g = sf.Frame.from_structured_array(a, index_depth=1)
        before = (observe_container(f), observe_container(g))
        shared = [p for fr in (f, g) for p, b, _ in walk_arrays(fr) if np.shares_memory(a, b)]
        a['x'][0] = 99
        a['y'][1] = -1.0
        changed = (observe_container(f), observe_container(g)) != before
        bad = shared or changed or writeable_arrays(f) or writeable_arrays(g)
        return None if not bad else f'Frame.from_structured_array: arrays sharing memory with the caller array {shared[:3]}, caller write visible={changed}'

    for name, replay, fn in (
            ('pickle-positions', 'i = pickle.loads(pickle.dumps(sf.Index((10,20,30)))); p = i.positions; p[0] = 99  # must raise', pickle_positions),
            ('pickle-arraygo', 'pickle.loads(pickle.dumps(sf.IndexHierarchy.from_product((\'a\',\'b\'),(1,2))))._levels.targets.values.flags.writeable  # must be False', pickle_arraygo),
            ('round-writeable', 'r = round(sf.Frame(np.arange(4).reshape(2,2))); r.values[0,0] = 99  # must raise', round_frame),
            ('structured-alias', "a = np.array([(1, 2.0), (3, 4.0)], dtype=[('x', int), ('y', float)]); f = sf.Frame.from_structured_array(a); a['x'][0] = 99  # must not show", structured)):
        ctx.count('regression:' + name)
        yield Case('regression:repaired-findings', {'finding': 'C01-' + name, 'replay': replay, 'expected': 'the correct behaviour (repaired in /repo)'},
                   py_fail=fn(), tags={'check': 'regression', 'regression': name}, key='regression|' + name)


# =============================================================================== growable members: static containers built from grow-only ones
class GSim:
    '''Histories over the alphabet of SF/HeapGrow.v executed on the real library: GNew / GFrom / GGrow.'''

    FRAME_ROUTES = {   # name -> (callable(sf, src) -> container, result class or None = class of the source)
        'ctor-Frame': (lambda sf, src: sf.Frame(src), 'Frame'), 'ctor-FrameHE': (lambda sf, src: sf.FrameHE(src), 'FrameHE'),
        'ctor-FrameGO': (lambda sf, src: sf.FrameGO(src), 'FrameGO'),
        'to_frame': (lambda sf, src: src.to_frame(), 'Frame'), 'to_frame_he': (lambda sf, src: src.to_frame_he(), 'FrameHE'),
        'to_frame_go': (lambda sf, src: src.to_frame_go(), 'FrameGO'),
        'from_concat-Frame': (lambda sf, src: sf.Frame.from_concat((src,)), 'Frame'), 'from_concat-FrameGO': (lambda sf, src: sf.FrameGO.from_concat((src,)), 'FrameGO'),
        'iloc[:]': (lambda sf, src: src.iloc[:], None), "rename('n')": (lambda sf, src: src.rename('n'), None),
        'ctor-Frame(index=,columns=)': (lambda sf, src: sf.Frame(src, index=src.index, columns=src.columns), 'Frame'),
        'deepcopy': (lambda sf, src: copy.deepcopy(src), None), 'pickle': (lambda sf, src: pickle.loads(pickle.dumps(src)), None),
    }
    INDEX_ROUTES = {
        'ctor-Index': (lambda sf, src: sf.Index(src), 'Index'), 'ctor-IndexGO': (lambda sf, src: sf.IndexGO(src), 'IndexGO'),
        'copy()': (lambda sf, src: src.copy(), None), "rename('n')": (lambda sf, src: src.rename('n'), None),
        'iloc[:]': (lambda sf, src: src.iloc[:], None), 'ctor-Index(values)': (lambda sf, src: sf.Index(src.values), 'Index'),
        'deepcopy': (lambda sf, src: copy.deepcopy(src), None), 'pickle': (lambda sf, src: pickle.loads(pickle.dumps(src)), None),
    }

    def __init__(self):
        import static_frame as sf
        self.sf = sf
        self.conts = []      # (kind, object)
        self.steps, self.desc, self.trace, self.first, self.violations = [], [], [], [], []
        self.fresh = 100
        self.universe = set()   # every label used so far in this history

    def _static(self, obj):
        return bool(getattr(obj, 'STATIC', True))

    def _map_view(self, ix):
        '''The members the label MAP of the index answers for, over every label this history has ever used (ascending = insertion order).'''
        out = []
        for m in sorted(self.universe):
            try:
                if m in ix:
                    pos = ix.loc_to_iloc(m)
                    out.append(m if 0 <= int(pos) < len(ix) and int(ix.values[int(pos)]) == m else -m)
            except KeyError:
                out.append(-m)      # claims membership but cannot locate
            except Exception:  # noqa
                out.append(-1000 - m)
        return out

    def observe_one(self, kind, obj):
        try:
            if kind == 'frame':
                cols = [int(x) for x in obj.columns.values.tolist()]
                v = obj.values
                blocks = [int(x) for x in v[0].tolist()] if v.shape[0] else []
                if tuple(obj.shape) != (v.shape[0], len(blocks)) or len(obj._blocks._dtypes) != len(blocks):
                    blocks = blocks + [-1]
                for m in sorted(self.universe):
                    if m not in cols:
                        try:
                            if obj.get(m, None) is not None:
                                blocks = blocks + [-2]
                        except Exception:  # noqa
                            blocks = blocks + [-3]
                return (self._static(obj), [cols, self._map_view(obj.columns), blocks])
            return (self._static(obj), [[int(x) for x in obj.values.tolist()], self._map_view(obj)])
        except Exception as e:  # noqa: an observation that raises is itself a change
            return (self._static(obj), [[-99]])

    def emit(self, step, desc, ok):
        self.steps.append(step)
        self.desc.append(desc)
        obs = [self.observe_one(k, o) for k, o in self.conts]
        self.trace.append((ok, obs))
        for i, o in enumerate(obs):
            if i >= len(self.first):
                self.first.append(o)
            elif o != self.first[i]:
                if o[0]:
                    self.violations.append(f'static container c{i} ({type(self.conts[i][1]).__name__}) changed after step {len(self.steps) - 1} ({desc}): {self.first[i][1]} -> {o[1]}')
                self.first[i] = o

    def new(self, kind, static, members):
        sf = self.sf
        members = sorted(members)       # insertion order = ascending order (grown labels are larger than all others)
        self.universe.update(members)
        if kind == 'frame':
            cls = sf.Frame if static else sf.FrameGO
            obj = cls(np.array([members, members], dtype=np.int64).reshape(2, len(members)), columns=members) if members else cls(index=(0, 1))
            lists = [members, members, members]      # column labels, column label map, blocks
            txt = f'sf.{cls.__name__}(np.array([{members}, {members}]), columns={members})'
        else:
            cls = sf.Index if static else sf.IndexGO
            obj = cls(members)
            lists = [members, members]               # labels, label map
            txt = f'sf.{cls.__name__}({members})'
        self.conts.append((kind, obj))
        self.emit(f'GNew {lit.b(static)} [' + '; '.join(zl(m) for m in lists) + ']', f'c{len(self.conts) - 1} = {txt}', True)

    def derive(self, c, route):
        kind, src = self.conts[c]
        fn, _ = (self.FRAME_ROUTES if kind == 'frame' else self.INDEX_ROUTES)[route]
        try:
            obj = fn(self.sf, src)
        except Exception as e:  # noqa
            self.emit('GFail', f'{route} of c{c} raises {type(e).__name__}', False)
            return
        st = self._static(obj)
        # the model route: member lists may be kept only between two static containers (unobservable there); copied otherwise
        r = 'GShare' if (st and self._static(src)) else 'GCopy'
        self.conts.append((kind, obj))
        self.emit(f'GFrom {lit.b(st)} {c} {r}', f'c{len(self.conts) - 1} = <{route}>(c{c})  # {type(src).__name__} -> {type(obj).__name__}', True)

    def grow(self, c, how):
        kind, obj = self.conts[c]
        self.fresh += 1
        m = self.fresh
        self.universe.add(m)
        try:
            if kind == 'frame':
                if how == 'setitem':
                    obj[m] = np.full(obj.shape[0], m, dtype=np.int64)
                else:
                    obj.extend(self.sf.Frame(np.full((obj.shape[0], 1), m, dtype=np.int64), index=obj.index, columns=(m,)))
            else:
                if how == 'setitem':
                    obj.append(m)
                else:
                    obj.extend((m,))
            ok = True
        except Exception:  # noqa
            ok = False
        verb = {'frame': {'setitem': f'c{c}[{m}] = np.full(2, {m})', 'extend': f'c{c}.extend(Frame with column {m})'},
                'index': {'setitem': f'c{c}.append({m})', 'extend': f'c{c}.extend(({m},))'}}[kind][how]
        self.emit(f'GGrow {c} {lit.z(m)}%Z', verb, ok)

    def case(self, stratum):
        h = '[' + '; '.join(self.steps) + ']'
        t = '[' + '; '.join(f'({lit.b(ok)}, [' + '; '.join(f'({lit.b(st)}, [' + '; '.join(zl(l) for l in ls) + '])' for st, ls in obs) + '])'
                            for ok, obs in self.trace) + ']'
        return Case(stratum, {'replay': ['import numpy as np, static_frame as sf, pickle, copy'] + self.desc, 'observed_final': self.trace[-1][1] if self.trace else None},
                    m=f'(let H := {h} in gtrace_eqb (gtrace gM_step gw0 H) {t} && gguarded gw0 H)%nat',
                    s=f'(gtrace_eqb (gtrace gS_step gw0 {h}) {t})%nat',
                    py_fail='; '.join(self.violations[:2]) or None, tags={'check': 'grow-source', 'stratum': stratum},
                    nontrivial=any(st.startswith('GGrow') for st in self.steps) and any(st.startswith('GFrom') for st in self.steps), key=stratum + '|' + h + '|' + '|'.join(self.desc))


def grow_cases(ctx):
    '''Static containers built FROM grow-only ones (and grow-only ones built from static ones) through every route, then the
    grow-only side grows through every mutator, then everything is observed again.'''
    # 1. exhaustive: kind x source class x route x (grow the source | grow the result | both) x mutator
    for kind, routes in (('frame', GSim.FRAME_ROUTES), ('index', GSim.INDEX_ROUTES)):
        for src_static in (False, True):
            for route in routes:
                for how in ('setitem', 'extend'):
                    g = GSim()
                    g.new(kind, src_static, [1, 2])
                    g.derive(0, route)
                    g.grow(0, how)
                    if len(g.conts) > 1:
                        g.grow(1, how)
                        g.derive(0, route)
                        g.grow(0, 'extend' if how == 'setitem' else 'setitem')
                        g.grow(1, how)
                    ctx.count(f'grow:{kind}:{route}')
                    yield g.case('grow:exhaustive-routes')
    # 2. random histories
    for i in range(ctx.n(120, 1500)):
        g = GSim()
        rng = ctx.rng
        kind = rng.choice(['frame', 'index'])
        routes = list(GSim.FRAME_ROUTES if kind == 'frame' else GSim.INDEX_ROUTES)
        g.new(kind, rng.random() < 0.4, rng.sample(range(1, 9), rng.choice([0, 1, 2, 3])) if kind == 'index' or rng.random() < 0.9 else [])
        for _ in range(rng.choice([3, 4, 5, 6, 7])):
            r = rng.random()
            c = rng.randrange(len(g.conts))
            if r < 0.1:
                g.new(kind, rng.random() < 0.5, rng.sample(range(1, 9), 2))
            elif r < 0.55:
                g.derive(c, rng.choice(routes))
            else:
                g.grow(c, rng.choice(['setitem', 'extend']))
        yield g.case('grow:random')
    yield from grow_api_cases(ctx)


def grow_api_cases(ctx):
    '''Python-side only: more source classes and routes than the model alphabet names (hierarchical labels, Series / rows / reductions
    taken from a FrameGO, an IndexGO handed in as labels of a static container), each followed by every way of growing the source.'''
    import static_frame as sf

    def fgo(cols):
        return sf.FrameGO(np.arange(3 * len(cols)).reshape(3, len(cols)), columns=cols, index=tuple('xyz'))

    sources = [
        ('FrameGO', lambda: fgo(('a', 'b')), [('setitem', lambda o: o.__setitem__('n1', (7, 8, 9))), ('extend-frame', lambda o: o.extend(sf.Frame(np.full((3, 2), 5), index=tuple('xyz'), columns=('n2', 'n3')))),
                                              ('extend-series', lambda o: o.extend(sf.Series((1, 2, 3), index=tuple('xyz'), name='n4'))), ('extend_items', lambda o: o.extend_items((('n5', (1, 2, 3)),)))]),
        ('FrameGO hierarchical columns', lambda: sf.FrameGO(np.arange(6).reshape(3, 2), columns=sf.IndexHierarchyGO.from_labels([('a', 1), ('a', 2)]), index=tuple('xyz')),
         [('setitem', lambda o: o.__setitem__(('b', 1), (7, 8, 9)))]),
        ('FrameGO zero columns', lambda: sf.FrameGO(index=tuple('xyz')), [('setitem', lambda o: o.__setitem__('n1', (7, 8, 9)))]),
        ('IndexGO', lambda: sf.IndexGO(('a', 'b', 'c')), [('append', lambda o: o.append('n1')), ('extend', lambda o: o.extend(('n2', 'n3')))]),
        ('IndexDateGO', lambda: sf.IndexDateGO(('2020-01-01', '2020-01-02')), [('append', lambda o: o.append('2020-02-01'))]),
        ('IndexHierarchyGO', lambda: sf.IndexHierarchyGO.from_product(('a', 'b'), (1, 2)), [('append', lambda o: o.append(('c', 1))), ('extend', lambda o: o.extend(sf.IndexHierarchy.from_labels([('d', 1), ('d', 2)])))]),
    ]
    frame_routes = [
        ('sf.Frame(src)', lambda s: sf.Frame(s)), ('sf.FrameHE(src)', lambda s: sf.FrameHE(s)), ('sf.Frame(src, name="n")', lambda s: sf.Frame(s, name='n')),
        ('sf.Frame(src, index=src.index)', lambda s: sf.Frame(s, index=s.index)), ('sf.Frame(src, columns=src.columns)', lambda s: sf.Frame(s, columns=s.columns)),
        ('src.to_frame()', lambda s: s.to_frame()), ('src.to_frame_he()', lambda s: s.to_frame_he()), ('sf.Frame.from_concat((src,))', lambda s: sf.Frame.from_concat((s,))),
        ('sf.Frame.from_concat((src, src), axis=0, index=sf.IndexAutoFactory)', lambda s: sf.Frame.from_concat((s, s), axis=0, index=sf.IndexAutoFactory)),
        ('sf.Frame.from_items(src.items())', lambda s: sf.Frame.from_items(s.items())), ('sf.Frame.from_overlay((src,))', lambda s: sf.Frame.from_overlay((s,))),
        ('src.columns (static copy) sf.Index(src.columns)', lambda s: sf.Index(s.columns) if s.columns.depth == 1 else sf.IndexHierarchy(s.columns)),
        ('src.iloc[0]', lambda s: s.iloc[0]), ('src.loc["x"]', lambda s: s.loc['x']), ('src.sum()', lambda s: s.sum()), ('src.dtypes', lambda s: s.dtypes),
        ('src.iloc[:, 0]', lambda s: s.iloc[:, 0]), ('src.transpose().to_frame()', lambda s: s.transpose().to_frame()), ('src.T.index', lambda s: s.T.index),
        ('sf.Series(src.iloc[0])', lambda s: sf.Series(s.iloc[0])), ('src.to_frame().relabel(columns=src.columns)', lambda s: s.to_frame().relabel(columns=s.columns)),
        ('sf.Frame(src.values, columns=src.columns, index=src.index)', lambda s: sf.Frame(s.values, columns=s.columns, index=s.index)),
        ('sf.Series(range(n), index=src.columns) [must raise or copy]', lambda s: sf.Series(range(len(s.columns)), index=s.columns)),
        ('copy.deepcopy(src).to_frame()', lambda s: copy.deepcopy(s).to_frame()), ('src.reindex(columns=src.columns).to_frame()', lambda s: s.reindex(columns=s.columns).to_frame()),
        ('sf.Frame.from_pandas(src.to_pandas())', lambda s: sf.Frame.from_pandas(s.to_pandas())), ('src.iter_series(axis=0) first', lambda s: next(iter(s.iter_series(axis=1)))),
    ]
    index_routes = [
        ('sf.Index(src)', lambda s: sf.Index(s) if s.depth == 1 else sf.IndexHierarchy(s)), ('src.copy() -> static', lambda s: (sf.Index if s.depth == 1 else sf.IndexHierarchy)(s.copy())),
        ('src.iloc[:] -> static class', lambda s: (sf.Index if s.depth == 1 else sf.IndexHierarchy)(s.iloc[:])),
        ('sf.Series(range(n), index=src) [must raise or copy]', lambda s: sf.Series(range(len(s)), index=s)),
        ('sf.Frame(index=src) [must raise or copy]', lambda s: sf.Frame(index=s)), ('sf.Frame(np.zeros((2, n)), columns=src)', lambda s: sf.Frame(np.zeros((2, len(s))), columns=s)),
        ('sf.FrameGO(np.zeros((2, n)), columns=src).to_frame()', lambda s: sf.FrameGO(np.zeros((2, len(s))), columns=s).to_frame()),
        ('src.to_series()', lambda s: s.to_series() if s.depth == 1 else s.to_frame()), ('sf.Index(src.values)', lambda s: sf.Index(s.values) if s.depth == 1 else sf.IndexHierarchy.from_labels(s.values)),
        ('src.union(src)', lambda s: s.union(s)), ('copy.deepcopy(src) -> static', lambda s: (sf.Index if s.depth == 1 else sf.IndexHierarchy)(copy.deepcopy(s))),
        ('src.rename("n") -> static', lambda s: (sf.Index if s.depth == 1 else sf.IndexHierarchy)(s.rename('n'))),
    ]
    for sname, make, growers in sources:
        routes = frame_routes if sname.startswith('Frame') else index_routes
        for rname, route in routes:
            for gname, grower in growers:
                src = make()
                try:
                    out = route(src)
                except Exception as e:  # noqa: a route that refuses a grow-only argument is fine
                    ctx.count('grow-api:route-raises')
                    yield Case('api:grow-source', {'source': sname, 'route': rname, 'raised': type(e).__name__}, tags={'check': 'grow-source', 'source': sname, 'route': rname},
                               nontrivial=False, key=f'growapi|{sname}|{rname}|{gname}')
                    continue
                static = getattr(out, 'STATIC', True)
                before = observe_container(out)
                w_before = [p for p, a, _ in walk_arrays(out) if a.flags.writeable]
                grow_axis = src.columns if hasattr(src, 'columns') else src
                labels_before = list(grow_axis)
                try:
                    grower(src)
                    grew = True
                except Exception:  # noqa
                    grew = False
                gained = [x for x in grow_axis if x not in labels_before]
                try:
                    after = observe_container(out)
                except Exception as e:  # noqa
                    after = ('RAISES', type(e).__name__)
                why = None
                if static and after != before:
                    why = f'{sname}: out = {rname}; then the source grows by {gname}: the static {type(out).__name__} changed (shape / labels / values / dtypes)'
                elif w_before:
                    why = f'{sname}: {rname} holds writeable arrays {w_before[:3]}'
                elif static:
                    probe = probe_absent(out, gained)
                    if probe:
                        why = f'{sname}: out = {rname}; then the source grows by {gname} (gains {gained[:3]}): {probe}'
                ctx.count('grow-api:' + ('grew' if grew else 'grow-raised'))
                yield Case('api:grow-source', {'source': sname, 'route': rname, 'then': gname, 'source_grew': grew, 'result_static': static, 'changed': after != before},
                           py_fail=why, tags={'check': 'grow-source', 'source': sname, 'route': rname}, nontrivial=grew and static, key=f'growapi|{sname}|{rname}|{gname}')


# =============================================================================== scripted routes (coverage-guided: freeze sites no pooled call reached)
class RouteEnv:
    '''One scripted route: receivers registered with reg() must not change, arrays registered with arr() are caller-held.'''

    def __init__(self):
        self.receivers, self.held, self.was_w = [], [], {}

    def reg(self, obj):
        self.receivers.append(obj)
        return obj

    def arr(self, a):
        self.held.append(a)
        self.was_w[id(a)] = (bool(a.flags.writeable), _base_writeable(a))
        return a


def _T(*thunks):
    '''Evaluate independent calls of one route; a call that raises is a failing call (its receivers are still checked).'''
    out = []
    for th in thunks:
        try:
            out.append(th())
        except AssertionError:
            raise
        except Exception as ex:  # noqa
            out.append(None)
    return tuple(out)


def _routes():
    import static_frame as sf
    import pandas as pd
    from static_frame.core.type_blocks import TypeBlocks
    from static_frame.core.array_go import ArrayGO
    nan = np.nan
    R = []

    def route(name, fn):
        R.append((name, fn))

    def F(e, cls=None, layout=None):
        '''int 2-col block | float 1-D | str 1-D frame with NaN, flat labels'''
        cls = cls or sf.Frame
        tb = TypeBlocks.from_blocks([_ro(np.array([[1, 2], [3, 4], [5, 6]])), _ro(np.array([1.5, nan, -2.0])), _ro(np.array(['x', 'y', 'z']))])
        return e.reg(cls(tb, index=tuple('abc'), columns=tuple('pqrs'), name='f', own_data=True))

    def FN(e):
        tb = TypeBlocks.from_blocks([_ro(np.array([[nan, 2.0, nan], [3.0, nan, nan], [nan, nan, 6.0]])), _ro(np.array([nan, 1.0, nan])), _ro(np.array([[1.0, nan], [nan, nan], [nan, 2.0]]))])
        return e.reg(sf.Frame(tb, index=tuple('abc'), columns=tuple('pqrstu'), own_data=True))

    def S(e):
        return e.reg(sf.Series((3, 1, 2), index=tuple('abc'), name='s'))

    # ---- constructors with freeze sites on rarely taken branches
    route('Frame.from_elements(elements, columns=2 labels) [np.tile]', lambda e: sf.Frame.from_elements((1, 2, 3), columns=('a', 'b')))
    route('Frame.from_elements(writeable ndarray, columns=3 labels, index=)', lambda e: sf.Frame.from_elements(e.arr(np.array([1.5, 2.5])), columns=tuple('abc'), index=('x', 'y')))
    route('FrameGO.from_elements(list, columns=2)', lambda e: sf.FrameGO.from_elements(['u', 'v'], columns=(1, 2)))
    route('Frame.from_overlay((f, g)) g has other columns and rows', lambda e: sf.Frame.from_overlay((e.reg(sf.Frame.from_records([(1.0, nan), (nan, 4.0)], columns=('a', 'b'), index=('x', 'y'))),
                                                                                                     e.reg(sf.Frame.from_records([(9.0, 8.0), (7.0, 6.0)], columns=('b', 'c'), index=('y', 'z'))))))
    route('Frame.from_overlay((f, g, h), index=, columns=)', lambda e: sf.Frame.from_overlay((F(e), F(e).iloc[::-1], FN(e)), index=tuple('abz'), columns=tuple('pqz')))
    route('Series.from_overlay((s, t))', lambda e: sf.Series.from_overlay((e.reg(sf.Series((1.0, nan), index=('a', 'b'))), e.reg(sf.Series((5.0, 6.0), index=('b', 'c'))))))
    route('Series(0-dim ndarray, index=3 labels) [np.repeat]', lambda e: sf.Series(e.arr(np.array(7)), index=tuple('abc')))
    route('Series(0-dim ndarray) no index', lambda e: sf.Series(np.array('q')))
    route('Series.from_element(element, index=IndexGO)', lambda e: sf.Series.from_element(1.5, index=sf.IndexGO(('a', 'b')), name='n'))
    route('Series.from_concat((s, s2, empty))', lambda e: sf.Series.from_concat((S(e), e.reg(sf.Series((9,), index=('z',))), sf.Series(()))))
    route('Series.from_concat(hierarchical)', lambda e: sf.Series.from_concat((e.reg(sf.Series((1, 2), index=sf.IndexHierarchy.from_labels([('a', 1), ('a', 2)]))), e.reg(sf.Series((3,), index=sf.IndexHierarchy.from_labels([('b', 1)]))))))
    route('Series.from_pandas(own_data=True) then pandas object written', lambda e: _pandas_route(sf.Series, pd.Series(np.array([1, 2, 3]), index=list('abc')), True))
    route('Series.from_pandas(own_data=False)', lambda e: _pandas_route(sf.Series, pd.Series(np.array([1.5, 2.5]), index=[10, 20]), False))
    route('Series.from_pandas(nullable Int64)', lambda e: _pandas_route(sf.Series, pd.Series([1, None, 3], dtype='Int64'), False))
    route('Series.from_pandas(string dtype)', lambda e: _pandas_route(sf.Series, pd.Series(['a', None, 'c'], dtype='string'), False))
    route('Series.from_pandas(boolean dtype)', lambda e: _pandas_route(sf.Series, pd.Series([True, None, False], dtype='boolean'), True))
    route('Frame.from_pandas(own_data=True)', lambda e: _pandas_route(sf.Frame, pd.DataFrame({'a': np.array([1, 2, 3]), 'b': np.array([1.5, 2.5, 3.5]), 'c': np.array([4, 5, 6])}), True))
    route('Frame.from_pandas(own_data=False, consolidate_blocks=True)', lambda e: _pandas_route(sf.Frame, pd.DataFrame({'a': np.array([1, 2, 3]), 'b': np.array([4, 5, 6]), 'c': ['x', 'y', 'z']}), False, consolidate_blocks=True))
    route('FrameGO.from_pandas(nullable / categorical columns)', lambda e: _pandas_route(sf.FrameGO, pd.DataFrame({'a': pd.array([1, None, 3], dtype='Int64'), 'b': pd.Categorical(['u', 'v', 'u'])}), False))
    route('Index.from_pandas / IndexHierarchy.from_pandas', lambda e: (sf.Index.from_pandas(pd.Index(np.array([3, 4, 5]))), sf.IndexHierarchy.from_pandas(pd.MultiIndex.from_product((('a', 'b'), (1, 2)))),
                                                                      sf.IndexDate.from_pandas(pd.DatetimeIndex(['2020-01-01', '2020-01-02']))))
    route('IndexDate(datetime64[M] writeable ndarray) [astype + freeze]', lambda e: sf.IndexDate(e.arr(np.array(['2020-01', '2020-02'], dtype='datetime64[M]'))))
    route('IndexYearMonth(datetime64[D] read-only ndarray)', lambda e: sf.IndexYearMonth(e.arr(_ro(np.array(['2020-01-05', '2020-02-07'], dtype='datetime64[D]')))))
    route('Index(Series) / Index(2-D Frame values as tuples)', lambda e: (sf.Index(S(e)), sf.Index(e.reg(sf.Frame.from_records([(1, 'a'), (2, 'b')])))))
    route('IndexYear.from_date_range / from_year_month_range / from_year_range', lambda e: (sf.IndexYear.from_date_range('2018-01-01', '2020-06-01'), sf.IndexYear.from_year_month_range('2018-01', '2019-03'), sf.IndexYear.from_year_range('2017', '2019', 2)))
    route('IndexYearMonth.from_date_range / from_year_month_range / from_year_range', lambda e: (sf.IndexYearMonth.from_date_range('2018-01-01', '2018-04-15'), sf.IndexYearMonth.from_year_month_range('2018-11', '2019-02'), sf.IndexYearMonth.from_year_range('2018', '2019')))
    route('IndexDateGO.from_date_range(step=2).append', lambda e: (lambda i: (i.append('2030-01-01'), i.values, i)[-1])(sf.IndexDateGO.from_date_range('2018-01-01', '2018-01-09', 2)))
    route('IndexHierarchy.from_labels(reorder_for_hierarchy=True, index_constructors=)', lambda e: sf.IndexHierarchy.from_labels([('b', '2020-01-01'), ('a', '2020-01-02'), ('b', '2020-01-03')], reorder_for_hierarchy=True, index_constructors=(sf.Index, sf.IndexDate)))
    route('IndexHierarchy.from_labels(continuation_token=)', lambda e: sf.IndexHierarchy.from_labels([('a', 1), (None, 2), ('b', 1)], continuation_token=None))
    route('IndexHierarchy.from_labels((), depth_reference=2) and its arrays', lambda e: (lambda h: (h, h.values, h.values_at_depth(0), h.values_at_depth(1), h.positions))(sf.IndexHierarchy.from_labels((), depth_reference=2)))
    route('IndexHierarchy.from_labels_delimited', lambda e: sf.IndexHierarchy.from_labels_delimited(("'a' 1", "'a' 2", "'b' 1"), delimiter=' '))
    route('IndexHierarchy with tuple labels at outer depth: values_at_depth', lambda e: (lambda h: (h.values_at_depth(0), h.values_at_depth(1), h.values))(e.reg(sf.IndexHierarchy.from_labels([(('x', 1), 1), (('x', 1), 2), (('y', 2), 1)]))))
    route('IndexHierarchyGO depth 3: append new outer / inner labels, extend, then arrays', lambda e: _ihgo3(sf))
    route('ArrayGO(writeable object ndarray) / copy / values / append', lambda e: _arraygo(ArrayGO, e))
    # ---- grow-only setitem value kinds
    for vname, mk in (('scalar', lambda e: 5), ('string', lambda e: 'txt'), ('writeable 1-D ndarray', lambda e: e.arr(np.array([7, 8, 9]))), ('read-only 1-D ndarray', lambda e: e.arr(_ro(np.array([7, 8, 9])))),
                      ('tuple', lambda e: (1, 2, 3)), ('generator', lambda e: (x for x in 'uvw')), ('Series reordered', lambda e: e.reg(sf.Series((1, 2, 3), index=tuple('cab')))),
                      ('Series partial', lambda e: e.reg(sf.Series((1,), index=('b',)))), ('wrong length ndarray', lambda e: e.arr(np.array([1, 2]))), ('2-D ndarray', lambda e: e.arr(np.zeros((3, 1)))),
                      ('Frame (must raise)', lambda e: F(e))):
        route(f'FrameGO.__setitem__(label, {vname})', (lambda mk: lambda e: _setitem(sf, e, mk))(mk))
    # ---- reindex: every branch of TypeBlocks.resize_blocks
    for rname, kw in (('columns none in common', dict(columns=('y', 'z'))), ('columns partly new', dict(columns=('s', 'z', 'p'))), ('columns subset of unified frame', None),
                      ('index none in common', dict(index=('y', 'z'))), ('index partly new', dict(index=('c', 'z', 'a'))), ('both none in common', dict(index=('y',), columns=('z',))),
                      ('both subsets', dict(index=('c', 'a'), columns=('s', 'p'))), ('both partly new', dict(index=('c', 'z'), columns=('q', 'z', 'r'))),
                      ('index new, columns subset', dict(index=('z', 'y'), columns=('q',))), ('both partly new, fill_value=0', dict(index=('c', 'z'), columns=('q', 'z'), fill_value=0))):
        if kw is None:
            route('Frame.reindex unified 2-D frame, column / both subsets', lambda e: (lambda f: (f.reindex(columns=(1,)), f.reindex(index=(1, 0), columns=(1, 0)), f.reindex(index=(1, 5))))(e.reg(sf.Frame(np.arange(6).reshape(3, 2)))))
        else:
            route(f'Frame.reindex {rname}', (lambda kw: lambda e: F(e).reindex(**kw))(kw))
    route('Series.reindex partly new / fill_value', lambda e: (S(e).reindex(('c', 'z')), S(e).reindex(('z',), fill_value=0), S(e).reindex(('b', 'a'))))
    # ---- shift / roll
    for kw in (dict(index=1), dict(columns=-1), dict(index=-2, columns=1), dict(index=5), dict(index=1, columns=2, fill_value=0)):
        route(f'Frame.shift({kw})', (lambda kw: lambda e: F(e).shift(**kw))(kw))
    for kw in (dict(index=1), dict(columns=2), dict(index=-1, columns=-1, include_index=True, include_columns=True)):
        route(f'Frame.roll({kw})', (lambda kw: lambda e: F(e).roll(**kw))(kw))
    route('Series.shift / roll', lambda e: (S(e).shift(1), S(e).shift(-5, fill_value=0), S(e).roll(2, include_index=True)))
    # ---- fillna families on a NaN frame whose runs cross block boundaries
    for m in ('fillna_forward', 'fillna_backward'):
        for kw in (dict(axis=1), dict(axis=1, limit=1), dict(axis=0, limit=1)):
            route(f'Frame.{m}({kw})', (lambda m, kw: lambda e: getattr(FN(e), m)(**kw))(m, kw))
    for m in ('fillna_leading', 'fillna_trailing'):
        for ax in (0, 1):
            route(f'Frame.{m}(0, axis={ax})', (lambda m, ax: lambda e: getattr(FN(e), m)(0, axis=ax))(m, ax))
    route('Frame.fillna(Frame) / fillna(Series)? / Series.fillna(Series)', lambda e: (FN(e).fillna(e.reg(sf.Frame(np.zeros((3, 6)), index=tuple('abc'), columns=tuple('pqrstu')))),
                                                                                     e.reg(sf.Series((1.0, nan, nan), index=tuple('abc'))).fillna(e.reg(sf.Series((8.0, 9.0), index=('b', 'c'))))))
    # ---- clip with container bounds
    route('Frame.clip(lower=Frame, upper=Series axis 0/1, ndarray)', lambda e: (lambda f: (f.clip(lower=e.reg(sf.Frame(np.ones((3, 2)), index=f.index, columns=f.columns))),
                                                                                        f.clip(upper=e.reg(sf.Series((1, 2), index=f.columns)), axis=1), f.clip(lower=e.reg(sf.Series((1, 2, 3), index=f.index)), axis=0),
                                                                                        _T(lambda: f.clip(lower=e.arr(np.ones((3, 2))), upper=3)), f.clip(lower=1, upper=3)))(e.reg(sf.Frame(np.arange(6).reshape(3, 2), index=tuple('abc'), columns=tuple('pq')))))
    route('Series.clip(lower=Series, upper=ndarray)', lambda e: _T(lambda: S(e).clip(lower=e.reg(sf.Series((2, 2, 2), index=tuple('abc')))), lambda: S(e).clip(upper=e.arr(np.array([2, 2, 2]))), lambda: S(e).clip(lower=2)))
    # ---- astype
    route('Frame.astype(dict / per-column list) and astype[cols](dtype)', lambda e: (F(e).astype({'p': float, 'r': str}), F(e).astype((float, float, object, object)), F(e).astype[['q', 'r']](object), F(e).astype['p':'q'](np.uint8)))
    # ---- binary operators: every operand kind, reflected too
    route('Frame op Series / 1-D ndarray / 2-D ndarray / Frame other layout / scalar, reflected', lambda e: (lambda f: _T(lambda: f + e.reg(sf.Series((1, 2), index=tuple('pq'))), lambda: f * e.arr(np.array([1, 2])), lambda: e.arr(np.array([1, 2])) * f, lambda: 2 * f, lambda: 2 - f, lambda: 2 / f, lambda: 7 // f, lambda: 7 % f,
        lambda: f - e.arr(np.ones((3, 2))), lambda: 2 ** f, lambda: f ** 2, lambda: f == e.reg(sf.Frame(np.arange(6).reshape(3, 2), index=tuple('abc'), columns=tuple('pq'))), lambda: f @ e.arr(np.ones((2, 2))),
        lambda: e.arr(np.ones((2, 3))) @ f, lambda: f.__rmatmul__(e.arr(np.ones((2, 3)))), lambda: f @ f.T, lambda: -f, lambda: ~(f > 1), lambda: abs(f), lambda: (f > 1) & (f < 5), lambda: (f > 1) | True, lambda: True ^ (f > 1)))(
        e.reg(sf.Frame.from_records([(1, 2.5), (3, 4.5), (5, 6.5)], index=tuple('abc'), columns=tuple('pq')))))
    route('Series op ndarray / Series unaligned / reflected / matmul', lambda e: _T(lambda: S(e) + e.arr(np.array([1, 2, 3])), lambda: e.arr(np.array([1, 2, 3])) - S(e), lambda: S(e).__rsub__(e.arr(np.array([1, 2, 3]))), lambda: 5 - S(e), lambda: 7 // S(e),
        lambda: S(e) * e.reg(sf.Series((1, 2), index=('b', 'z'))), lambda: S(e) @ S(e), lambda: S(e) @ e.arr(np.ones((3, 2))), lambda: S(e).__rmatmul__(e.arr(np.ones((2, 3)))), lambda: -S(e), lambda: ~(S(e) > 1)))
    route('Index / IndexHierarchy unary and binary operators', lambda e: (lambda i, h: (-i, abs(i), i + 1, 1 - i, i == i, i * e.arr(np.array([1, 2, 3])), -h, abs(h), h + 1, h == h, h * e.arr(np.array([[1, 2]] * 4))))(
        e.reg(sf.Index((3, 1, 2))), e.reg(sf.IndexHierarchy.from_product((1, 2), (3, 4)))))
    route('IndexDate - / + timedelta, IndexDate == strings', lambda e: (lambda i: (i + 1, i - np.timedelta64(1, 'D'), i == '2020-01-01', i < np.datetime64('2020-01-02')))(e.reg(sf.IndexDate(('2020-01-01', '2020-01-02')))))
    # ---- set operations: equal operands, lists, sets, arrays, hierarchies (util._ufunc_set_1d / _ufunc_set_2d)
    route('Index set ops: identical / list / set / writeable ndarray / empty / other dtype', lambda e: (lambda i: (i.union(i), i.intersection(i), i.difference(i), i.union(['z', 'a']), i.intersection({'a', 'q'}), i.difference(e.arr(np.array(['a']))),
        i.union(sf.Index(())), i.difference(sf.Index((1, 2))), i.union(sf.Index((1, 2))), i.intersection(sf.IndexGO(('c', 'b')))))(e.reg(sf.Index(tuple('abc')))))
    route('IndexHierarchy set ops: identical / reordered / disjoint / list of tuples / 2-D ndarray / empty', lambda e: (lambda h, g: (h.union(h), h.intersection(h), h.difference(h), h.union(g), h.intersection(g), h.difference(g), g.difference(h),
        h.union([('z', 9)]), h.intersection(e.arr(np.array([['a', 1], ['q', 5]], dtype=object))), h.difference(sf.IndexHierarchy.from_labels((), depth_reference=2)), h.isin([('a', 1), ('q', 5)]), h.isin(())))(
        e.reg(sf.IndexHierarchy.from_product(('a', 'b'), (1, 2))), e.reg(sf.IndexHierarchy.from_labels([('b', 2), ('c', 1)]))))
    route('IndexDate set ops', lambda e: (lambda i: (i.union(sf.IndexDate(('2020-01-02', '2020-01-05'))), i.intersection(('2020-01-01',)), i.difference(i)))(e.reg(sf.IndexDate(('2020-01-01', '2020-01-02')))))
    # ---- loc_searchsorted with values past the end (fill_value branch)
    route('loc_searchsorted past the end: Index / IndexDate / Series / IndexHierarchy', lambda e: (e.reg(sf.Index((10, 20, 30))).loc_searchsorted([5, 25, 99]), e.reg(sf.Index((10, 20, 30))).loc_searchsorted(e.arr(np.array([99, 100])), fill_value=-1),
        e.reg(sf.Index((10, 20, 30))).loc_searchsorted(99), e.reg(sf.IndexDate(('2020-01-01', '2020-01-03'))).loc_searchsorted(['2020-01-02', '2021-01-01'], side_left=False),
        e.reg(sf.Series((10, 20, 30), index=tuple('abc'))).loc_searchsorted([5, 99], fill_value=None), e.reg(sf.Series((10, 20, 30), index=tuple('abc'))).iloc_searchsorted(e.arr(np.array([5, 99])))))
    # ---- accessors on object cells and 2-D blocks
    route('via_dt on object dates (Series / Frame 2-D block / Index)', lambda e: (lambda s, f: (s.via_dt.year, s.via_dt.weekday(), s.via_dt.isoformat(), s.via_dt.strftime('%Y'), f.via_dt.month, f.via_dt.day, f.via_dt.timetuple(), f.via_dt.isoformat()))(
        e.reg(sf.Series([__import__('datetime').date(2020, 1, 2), __import__('datetime').date(2021, 3, 4)], dtype=object)),
        e.reg(sf.Frame(np.array([['2020-01-02', '2021-03-04'], ['2019-05-06', '2018-07-08']], dtype='datetime64[D]')))))
    route('via_dt.fromisoformat / strptime / strpdate on str Frame and Series', lambda e: (lambda f, s: (f.via_dt.fromisoformat(), s.via_dt.fromisoformat(), s.via_dt.strptime('%Y-%m-%d'), f.via_dt.strpdate('%Y-%m-%d')))(
        e.reg(sf.Frame(np.array([['2020-01-02', '2021-03-04'], ['2019-05-06', '2018-07-08']]))), e.reg(sf.Series(('2020-01-02', '2021-03-04')))))
    route('via_str startswith / endswith with tuples, on Frame 2-D block, Series, Index, IndexHierarchy', lambda e: (lambda f, s, i, h: _T(lambda: f.via_str.startswith(('a', 'b')), lambda: f.via_str.endswith(('c', 'z')), lambda: f.via_str.startswith('a'), lambda: f.via_str.endswith('z'), lambda: s.via_str.endswith(('b',)),
        lambda: i.via_str.startswith(('a', 'q')), lambda: i.via_str.endswith('c'), lambda: h.via_str.endswith(('a', '1')), lambda: h.via_str.startswith('a'), lambda: f.via_str.len(), lambda: f.via_str.upper(), lambda: f.via_str.center(5),
        lambda: h.via_str.zfill(3), lambda: f.via_str.find('a'), lambda: f.via_str.count('a'), lambda: f.via_str.replace('a', 'b'), lambda: s.via_str.partition('b'), lambda: f.via_str.isdigit(), lambda: f.via_str.encode().via_str.decode()))(
        e.reg(sf.Frame(np.array([['ab', 'bc'], ['cz', 'az']]))), e.reg(sf.Series(('ab', 'cb'))), e.reg(sf.Index(('ab', 'qc'))), e.reg(sf.IndexHierarchy.from_product(('a', 'b'), (1, 2)))))
    route('Frame.via_T operators', lambda e: (lambda f: (f.via_T + e.reg(sf.Series((1, 2, 3), index=f.index)), f.via_T * e.reg(sf.Series((1, 2, 3), index=f.index)), 1 - (f.via_T - e.reg(sf.Series((1, 2, 3), index=f.index)))))(
        e.reg(sf.Frame(np.arange(6).reshape(3, 2), index=tuple('abc'), columns=tuple('pq')))))
    # ---- bloc assignment with a Frame that does not cover the key (key copied, not written)
    route('Frame.assign.bloc[read-only / writeable mask](partial Frame)', lambda e: (lambda f: (f.assign.bloc[e.arr(_ro(np.array([[True, False], [True, True], [False, True]])))](e.reg(sf.Frame(np.full((2, 1), 9), index=('a', 'b'), columns=('p',)))),
        f.assign.bloc[e.arr(np.array([[True, False], [True, True], [False, True]]))](e.reg(sf.Frame(np.full((2, 2), 9), index=('a', 'z'), columns=('p', 'q')))),
        f.assign.bloc[f > 2](-1), f.assign.bloc[f > 2](e.arr(np.full((3, 2), -1)))))(e.reg(sf.Frame(np.arange(6).reshape(3, 2), index=tuple('abc'), columns=tuple('pq')))))
    # ---- unsigned / bytes / timedelta / 1-wide 2-D blocks / 2-D block not first
    route('unsigned, bytes, timedelta64, 1-wide 2-D block not in first position: selections, transposes, reductions', lambda e: (lambda f: (f.iloc[:, 1], f.iloc[[2, 0]], f.T, f.iloc[0], f.loc['a', ['q', 's']], f.drop.iloc[:, 1], f.sum(), f.astype(object), f.sort_values('p', ascending=False), f.values, f.iloc[:, 1:3].values,
        tuple(f.iter_array(axis=0)), tuple(f.iter_array(axis=1)), f.to_pairs(0)))(
        e.reg(sf.Frame(TypeBlocks.from_blocks([_ro(np.array([1, 200, 3], dtype=np.uint8)), _ro(np.array([[7], [8], [9]], dtype=np.uint16)), _ro(np.array([b'a', b'bc', b'd'])), _ro(np.array([1, 2, 3], dtype='timedelta64[s]'))]),
                       index=tuple('abc'), columns=tuple('pqrs'), own_data=True))))
    # ======== second batch (second coverage pass)
    def H2(e):
        return e.reg(sf.IndexHierarchy.from_product((1, 2), (3, 4)))

    route('numeric IndexHierarchy set ops (2-D non-object path): same values other dtype, overlap, disjoint, empty operands, list of tuples', lambda e: (lambda h, g, hf, z: _T(
        lambda: h.union(g), lambda: h.intersection(g), lambda: h.difference(g), lambda: g.difference(h), lambda: h.union(hf), lambda: h.intersection(hf), lambda: h.difference(hf),
        lambda: h.union(z), lambda: h.intersection(z), lambda: h.difference(z), lambda: z.difference(h), lambda: z.union(h), lambda: z.intersection(h),
        lambda: h.union([(9, 9)]), lambda: h.intersection([(1, 3), (7, 7)]), lambda: h.difference(e.arr(np.array([[1, 3]]))), lambda: h.union(e.arr(np.array([[1, 3], [8, 8]]))),
        lambda: h.isin([(1, 3)]), lambda: h.isin(e.arr(np.array([[1, 3], [2, 4]])))))(
        H2(e), e.reg(sf.IndexHierarchy.from_labels([(2, 4), (5, 6)])), e.reg(sf.IndexHierarchy.from_product((1.0, 2.0), (3.0, 4.0))), e.reg(sf.IndexHierarchy.from_labels((), depth_reference=2))))
    route('Index set ops: equal values other object / other dtype, empty operands, sorted / unsorted results', lambda e: (lambda i, j, k, z: _T(
        lambda: i.union(j), lambda: i.intersection(j), lambda: i.difference(j), lambda: i.difference(k), lambda: i.union(k), lambda: i.intersection(k), lambda: i.intersection(z), lambda: z.difference(i),
        lambda: z.union(i), lambda: i.union(z), lambda: i.difference(z), lambda: i.union(e.arr(np.array([3, 9]))), lambda: i.intersection((x for x in (1, 9))), lambda: i.difference(range(2))))(
        e.reg(sf.Index((3, 1, 2))), e.reg(sf.Index((3, 1, 2))), e.reg(sf.Index((3.0, 1.0, 2.0))), e.reg(sf.Index(()))))
    route('Frame.isin / Series.isin / Index.isin with lists, sets, arrays, on 2-D blocks and object blocks', lambda e: _T(lambda: F(e).isin((1, 'x', 1.5)), lambda: F(e).isin({3, 4}), lambda: F(e).isin(e.arr(np.array([1, 2]))), lambda: F(e).isin(()),
        lambda: e.reg(sf.Frame(np.array([[1, 'a'], [None, 2.5]], dtype=object))).isin((1, None)), lambda: S(e).isin(e.arr(np.array([1, 9]))), lambda: S(e).isin(frozenset((3,))), lambda: e.reg(sf.Index((1, 2))).isin([2])))
    route('IndexHierarchy.loc_searchsorted: inside, past the end, fill_value, side', lambda e: (lambda h: _T(lambda: h.loc_searchsorted((1, 4)), lambda: h.loc_searchsorted([(1, 3), (9, 9)]), lambda: h.loc_searchsorted([(9, 9)], fill_value=None),
        lambda: h.loc_searchsorted((9, 9)), lambda: h.loc_searchsorted([(0, 0), (2, 4)], side_left=False), lambda: h.iloc_searchsorted([(1, 4), (9, 9)])))(H2(e)))
    route('IndexHierarchy.level_drop / level_add / rehierarch / flat / relabel_at_depth on depth 3', lambda e: (lambda h: _T(lambda: h.level_drop(1), lambda: h.level_drop(2), lambda: h.level_drop(-1), lambda: h.level_drop(-2), lambda: h.level_drop(3), lambda: h.level_drop(0),
        lambda: h.level_add('L'), lambda: h.rehierarch((2, 0, 1)), lambda: h.flat(), lambda: h.rehierarch((0, 2, 1)).level_drop(1), lambda: h.iloc[1:].level_drop(1), lambda: h.iloc[[0]].level_drop(-2)))(
        e.reg(sf.IndexHierarchy.from_labels([('a', 1, 'x'), ('a', 2, 'y'), ('b', 1, 'z')]))))
    route('IndexHierarchyGO appends: new outer, new middle under old outer, new leaf, duplicate (raises), wrong depth (raises), after reading values', lambda e: _ihgo_appends(sf))
    route('IndexHierarchy.from_labels: ndarray rows, generator, depth 1 error, unsorted (raises), name, from_index_items, from_tree, from_names', lambda e: _T(
        lambda: sf.IndexHierarchy.from_labels(e.arr(np.array([[1, 3], [1, 4], [2, 3]]))), lambda: sf.IndexHierarchy.from_labels((x for x in (('a', 1), ('a', 2)))), lambda: sf.IndexHierarchy.from_labels([('a',), ('b',)]),
        lambda: sf.IndexHierarchy.from_labels([('a', 1), ('b', 1), ('a', 2)]), lambda: sf.IndexHierarchy.from_labels([('a', 1), ('b', 1)], name=('x', 'y')),
        lambda: sf.IndexHierarchy.from_index_items((('a', sf.Index((1, 2))), ('b', sf.IndexGO((3,))))), lambda: sf.IndexHierarchy.from_tree({'a': (1, 2), 'b': {'x': (1,), 'y': (2,)}} if False else {'a': (1, 2), 'b': (1,)}),
        lambda: sf.IndexHierarchy.from_names(('p', 'q')), lambda: sf.IndexHierarchy.from_labels([('a', 1, 'x')], depth_reference=3), lambda: sf.IndexHierarchy.from_product(sf.IndexDate(('2020-01-01',)), e.arr(np.array([1, 2])))))
    route('Series(...) argument kinds, valid and failing: dict, Series + dtype, element, str, generator, set, range, own_index without index, wrong index length', lambda e: _T(
        lambda: sf.Series({'a': 1}), lambda: sf.Series(S(e), dtype=float), lambda: sf.Series(S(e), dtype=np.int64), lambda: sf.Series(5), lambda: sf.Series('ab'), lambda: sf.Series((x for x in range(3))), lambda: sf.Series({1, 2}),
        lambda: sf.Series(range(3), index=tuple('abc')), lambda: sf.Series((1, 2), own_index=True), lambda: sf.Series((1, 2), index=('a',)), lambda: sf.Series(e.arr(np.array([1, 2])), dtype=float),
        lambda: sf.Series(S(e), index=('x', 'y', 'z')), lambda: sf.Series(e.arr(np.array([[1, 2]]))), lambda: sf.Series((1, 2), index=sf.IndexGO(('a', 'b'))), lambda: sf.Series.from_dict({'a': 1, 'b': 2}, dtype=float),
        lambda: sf.Series.from_items(zip('ab', (1, 2)), dtype=object), lambda: sf.Series.from_element('x', index=range(2))))
    route('Frame(...) argument kinds, valid and failing: Frame (+ index / columns / constructors), FrameGO, dict, Series, list, TypeBlocks with and without own_data, wrong shapes', lambda e: _T(
        lambda: sf.Frame(F(e)), lambda: sf.Frame(F(e), index=(1, 2, 3)), lambda: sf.Frame(F(e), columns=tuple('wxyz')), lambda: sf.Frame(F(e), columns_constructor=sf.IndexGO), lambda: sf.FrameGO(F(e)), lambda: sf.Frame(F(e, sf.FrameGO)),
        lambda: sf.Frame({'a': (1, 2)}), lambda: sf.Frame(S(e)), lambda: sf.Frame([(1, 2)]), lambda: sf.Frame(F(e)._blocks), lambda: sf.Frame(e.arr(np.arange(6).reshape(3, 2)), index=(1, 2)), lambda: sf.Frame(e.arr(np.arange(6).reshape(3, 2)), columns=(1,)),
        lambda: sf.Frame(e.arr(np.arange(8).reshape(2, 2, 2))), lambda: sf.Frame(index=(1, 2), columns=('a',)), lambda: sf.Frame(columns=('a', 'b')), lambda: sf.Frame(e.arr(np.arange(3)), index=tuple('abc'), columns=('v',)),
        lambda: sf.Frame(e.arr(np.arange(6).reshape(3, 2)), index=sf.IndexGO((1, 2, 3))), lambda: sf.Frame(e.arr(np.arange(6).reshape(3, 2)), columns=sf.IndexGO((1, 2))), lambda: sf.Frame(e.arr(np.arange(6).reshape(3, 2)), name=[1])))
    route('Frame.from_records: dicts, named tuples, ndarray rows (writeable), generator, dtypes map, empty + columns, Series rows', lambda e: _T(
        lambda: sf.Frame.from_records([{'a': 1, 'b': 'x'}, {'a': 2, 'b': 'y'}]), lambda: sf.Frame.from_records([__import__('collections').namedtuple('P', 'x y')(1, 2)] * 2), lambda: sf.Frame.from_records([e.arr(np.array([1, 2])), e.arr(np.array([3, 4]))]),
        lambda: sf.Frame.from_records(e.arr(np.arange(6).reshape(3, 2))), lambda: sf.Frame.from_records(((i, str(i)) for i in range(3)), columns=('a', 'b'), dtypes={'a': float}), lambda: sf.Frame.from_records((), columns=('a',), dtypes=(int,)),
        lambda: sf.Frame.from_records([S(e), S(e)]), lambda: sf.Frame.from_records([(1, 2), (3,)]), lambda: sf.Frame.from_records([(1, 2)], dtypes=(float, str), consolidate_blocks=True),
        lambda: sf.Frame.from_dict_records([{'a': 1}, {'a': 2, 'b': 3}]), lambda: sf.Frame.from_dict_records([{'a': 1}], dtypes={'a': float}, fill_value=0), lambda: sf.Frame.from_records_items((('x', (1, 2)), ('y', (3, 4)))),
        lambda: sf.Frame.from_dict_records_items((('x', {'a': 1}), ('y', {'a': 2})))))
    route('Frame.from_items / from_fields / from_dict / from_element_items / from_elements with arrays, Series, Frames(!), dtypes, fill_value, consolidate_blocks', lambda e: _T(
        lambda: sf.Frame.from_items((('a', e.arr(np.array([1, 2]))), ('b', e.arr(_ro(np.array([3, 4])))))), lambda: sf.Frame.from_items((('a', e.reg(sf.Series((1, 2), index=('x', 'y')))), ('b', e.reg(sf.Series((3,), index=('y',))))), index=('x', 'y'), fill_value=0),
        lambda: sf.Frame.from_items((('a', (1, 2)), ('b', ('u', 'v'))), dtypes={'a': float}, consolidate_blocks=True), lambda: sf.Frame.from_items((('a', F(e)),)), lambda: sf.Frame.from_items((('a', e.arr(np.arange(4).reshape(2, 2))),)),
        lambda: sf.Frame.from_fields((e.arr(np.array([1, 2])), e.arr(np.array([3., 4.]))), columns=('a', 'b')), lambda: sf.Frame.from_fields(((1, 2), (3, 4)), dtypes=(float, object), consolidate_blocks=True),
        lambda: sf.Frame.from_fields((e.arr(np.arange(4).reshape(2, 2)),)), lambda: sf.Frame.from_fields((x for x in ((1, 2), ('a', 'b'))), index=('r', 's')),
        lambda: sf.Frame.from_dict({'a': e.arr(np.array([1, 2])), 'b': (3, 4)}), lambda: sf.FrameGO.from_dict({'a': e.reg(sf.Series((1, 2)))}, dtypes=float),
        lambda: sf.Frame.from_element_items((((0, 0), 1), ((1, 1), 2)), index=(0, 1), columns=(0, 1), dtype=float), lambda: sf.Frame.from_element_items((((0, 0), 1), ((0, 1), 'a'), ((1, 0), 2), ((1, 1), 'b')), index=(0, 1), columns=(0, 1), dtype=(int, str), axis=0),
        lambda: sf.Frame.from_element_items((((0, 0), 1), ((1, 0), 2), ((0, 1), 'a'), ((1, 1), 'b')), index=(0, 1), columns=(0, 1), dtype=(int, str), axis=1), lambda: sf.Frame.from_element(0, index=(1, 2), columns=('a',), dtype=np.uint8)))
    route('Frame.from_concat: axis 0 / 1, union False, Series members, hierarchical index, mixed layouts, empty, names', lambda e: _T(
        lambda: sf.Frame.from_concat((F(e), F(e).relabel(index=tuple('xyz'))), axis=0), lambda: sf.Frame.from_concat((F(e), F(e).relabel(columns=tuple('wxyz'))), axis=1), lambda: sf.Frame.from_concat((F(e), F(e).iloc[:, :2].relabel(index=tuple('xyz'))), axis=0, union=False),
        lambda: sf.Frame.from_concat((F(e), S(e).rename('t')), axis=1), lambda: sf.Frame.from_concat((S(e).rename('x'), S(e).rename('y')), axis=0, columns=tuple('abc')), lambda: sf.Frame.from_concat((F(e), F(e)), axis=0, index=sf.IndexAutoFactory),
        lambda: sf.Frame.from_concat((F(e), F(e)), axis=1, columns=sf.IndexAutoFactory), lambda: sf.Frame.from_concat((F(e).iloc[:, :2], F(e).iloc[:, :2].astype(float).relabel(index=tuple('xyz')))), lambda: sf.Frame.from_concat(()),
        lambda: sf.Frame.from_concat_items((('u', F(e)), ('v', F(e))), axis=0), lambda: sf.Frame.from_concat_items((('u', F(e)), ('v', F(e))), axis=1), lambda: sf.Frame.from_concat((F(e), F(e, sf.FrameGO)), axis=0, index=range(6), name='n'),
        lambda: sf.Frame.from_concat((F(e), FN(e)), axis=1)))
    route('Frame.from_delimited / from_csv / from_tsv / from_json / from_sql: depths, dtypes, consolidate', lambda e: _T(
        lambda: sf.Frame.from_csv(io.StringIO('a,b,c\n1,2,x\n3,4,y\n'), index_depth=1, dtypes={'b': float}), lambda: sf.Frame.from_csv(io.StringIO('i,j,a,b\nx,1,1,2\nx,2,3,4\n'), index_depth=2, consolidate_blocks=True),
        lambda: sf.Frame.from_csv(io.StringIO(',a,a\n,1,2\nx,1,2\ny,3,4\n'), index_depth=1, columns_depth=2), lambda: sf.Frame.from_tsv(io.StringIO('a\tb\n1\t2\n')), lambda: sf.Frame.from_delimited(io.StringIO('a|b\n1|2\n'), delimiter='|', columns_depth=1),
        lambda: sf.Frame.from_json('[{"a": 1, "b": "x"}, {"a": 2, "b": "y"}]'), lambda: sf.Frame.from_csv(io.StringIO('a,b\n'), columns_depth=1), lambda: _from_sql(sf)))
    route('Frame.sort_values / sort_index / sort_columns: multiple keys, axis 0, descending, key=, hierarchical', lambda e: _T(lambda: F(e).sort_values(['p', 'q']), lambda: F(e).sort_values('p', ascending=False), lambda: F(e).iloc[:, :3].sort_values('a', axis=0),
        lambda: F(e).iloc[:, :3].sort_values(['a', 'b'], axis=0, ascending=False), lambda: F(e).sort_values('r', key=lambda s: -s.fillna(0)), lambda: F(e).sort_index(ascending=False), lambda: F(e).sort_columns(key=lambda i: i.values[::-1]),
        lambda: S(e).sort_values(key=lambda s: -s), lambda: S(e).sort_values(ascending=False), lambda: S(e).sort_index(key=lambda i: i.via_str.upper()), lambda: H2(e).sort(ascending=False), lambda: e.reg(sf.Index((3, 1, 2))).sort(key=lambda i: -i.values)))
    route('insert_before / insert_after with Series / Frame, on Frame and Series', lambda e: _T(lambda: F(e).insert_before('q', e.reg(sf.Series((7, 8, 9), index=tuple('abc'), name='n'))), lambda: F(e).insert_after('s', e.reg(sf.Frame(np.zeros((3, 2)), index=tuple('abc'), columns=('u', 'v')))),
        lambda: F(e).insert_after('p', e.reg(sf.Series((7,), index=('a',), name='n')), fill_value=0), lambda: F(e).insert_before('zz', S(e)), lambda: S(e).insert_before('b', e.reg(sf.Series((9,), index=('z',)))), lambda: S(e).insert_after('c', S(e)), lambda: S(e).insert_after('a', 5)))
    route('joins and pivots', lambda e: (lambda l, r: _T(lambda: l.join_inner(r, left_columns='k', right_columns='k', left_template='l{}', right_template='r{}'), lambda: l.join_left(r, left_columns='k', right_columns='k', fill_value=0, left_template='l{}', right_template='r{}'),
        lambda: l.join_right(r, left_columns='k', right_columns='k', left_template='l{}', right_template='r{}'),
        lambda: l.join_outer(r, left_depth_level=0, right_depth_level=0, left_template='l{}', right_template='r{}'), lambda: l.join_left(r, left_depth_level=0, right_depth_level=0, composite_index=False, left_template='l{}', right_template='r{}'),
        lambda: l.pivot('k', 'v'), lambda: l.pivot('k', 'v', 'w', func=np.sum), lambda: l.pivot_stack(), lambda: l.set_index_hierarchy(['k', 'v']).pivot_unstack(), lambda: l.iter_group(['k', 'v']).apply(lambda g: g.shape[0]), lambda: tuple(l.iter_group('k', axis=0)),
        lambda: tuple(l.T.iter_group('a', axis=1)), lambda: tuple(l.iter_group_labels(0)), lambda: l.drop_duplicated(), lambda: l.duplicated(axis=1), lambda: l.unique(axis=0), lambda: l.unique(axis=1)))(
        e.reg(sf.Frame.from_records([(1, 'a', 1.5), (2, 'b', 2.5), (1, 'a', 3.5)], columns=('k', 'v', 'w'), index=tuple('abc'))), e.reg(sf.Frame.from_records([(1, 10), (3, 30)], columns=('k', 'z'), index=tuple('ax')))))
    route('assign with Frames / arrays over 2-D blocks and row keys (by-blocks paths)', lambda e: (lambda f, v: _T(lambda: f.assign.iloc[[0, 1], [0, 1]](v.iloc[:2, :2]), lambda: f.assign.iloc[[0, 2], 1:3](v), lambda: f.assign.loc[['c', 'a'], ['s', 'p']](v), lambda: f.assign.iloc[0, :](v.iloc[0]),
        lambda: f.assign.iloc[:, 1](e.arr(np.array([7, 8, 9]))), lambda: f.assign.iloc[1:, [0, 3]](e.arr(np.full((2, 2), -1))), lambda: f.assign[['q', 'r']](v), lambda: f.assign['p'](S(e)), lambda: f.assign.loc['a':'b', 'q':'r'].apply(lambda x: x * 0),
        lambda: f.assign.bloc[f.iloc[:, :3] > 2](v), lambda: f.assign.bloc[e.reg(sf.Frame(np.full((3, 4), True), index=f.index, columns=f.columns))](v), lambda: f.mask.iloc[[0, 2], 1:3], lambda: f.masked_array.loc['a', 'p':'q'], lambda: f.drop.iloc[[0, 2], 1:3], lambda: f.drop.loc['a', ['s', 'p']]))(
        F(e), e.reg(sf.Frame(np.full((3, 4), 9), index=tuple('abc'), columns=tuple('pqrs')))))
    route('reductions: object / empty / 2-D blocks / bool / skipna False / both axes', lambda e: _T(lambda: F(e).sum(axis=1), lambda: F(e).iloc[:, :3].mean(axis=1, skipna=False), lambda: F(e).max(axis=0), lambda: F(e).iloc[:, :3].cumsum(axis=1), lambda: (F(e).iloc[:, :2] > 2).all(axis=1), lambda: (F(e).iloc[:, :2] > 2).any(axis=0, skipna=False),
        lambda: e.reg(sf.Frame(index=(1, 2))).sum(), lambda: e.reg(sf.Frame(columns=('a',))).sum(axis=1), lambda: e.reg(sf.Frame.from_records([(None, True), (nan, False)])).all(), lambda: e.reg(sf.Frame.from_records([(None, True), (nan, False)])).any(skipna=False),
        lambda: F(e).iloc[:, :3].std(ddof=1), lambda: F(e).iloc[:, :3].median(axis=1), lambda: F(e).iloc[:, :3].cumprod(skipna=False), lambda: F(e).count(axis=1), lambda: F(e).iloc[:, :3].cov(), lambda: F(e).loc_max() if hasattr(sf.Frame, 'loc_max') else None,
        lambda: H2(e).sum(), lambda: H2(e).max(axis=1), lambda: H2(e).cumsum(), lambda: e.reg(sf.Index((1, 2))).mean(), lambda: e.reg(sf.Index(('a', 'b'))).max()))
    route('equals branches: other class, other name, other dtype, NaN positions, other shape, non-container', lambda e: _T(lambda: F(e).equals(F(e, sf.FrameGO), compare_class=True), lambda: F(e).equals(F(e).rename('z'), compare_name=True), lambda: F(e).equals(F(e).astype(object), compare_dtype=True),
        lambda: F(e).equals(5), lambda: F(e).equals(F(e).iloc[:2]), lambda: FN(e).equals(FN(e), skipna=False), lambda: FN(e).equals(FN(e).fillna(0)), lambda: FN(e).fillna(0).equals(FN(e)), lambda: S(e).equals(S(e).astype(float), compare_dtype=True),
        lambda: S(e).equals(S(e).relabel(tuple('xyz'))), lambda: H2(e).equals(H2(e).rename('n'), compare_name=True), lambda: H2(e).equals(e.reg(sf.IndexHierarchy.from_product((1, 2), (3, 5)))), lambda: H2(e).equals(H2(e).values), lambda: F(e)._blocks.equals(F(e)._blocks.consolidate())))
    route('relabel / rehierarch / relabel_shift_out with hierarchies, callables, mappings, IndexAutoFactory', lambda e: (lambda f: _T(lambda: f.relabel(index=lambda x: x[::-1]), lambda: f.relabel(columns={'p': 'P'}), lambda: f.relabel(index=sf.IndexAutoFactory, columns=sf.IndexAutoFactory),
        lambda: f.relabel(index=e.reg(sf.IndexHierarchy.from_product(('u',), (1, 2, 3, 4)))), lambda: f.relabel_shift_out([0, 1]), lambda: f.relabel_shift_out(1), lambda: f.T.relabel_shift_out(0, axis=1), lambda: f.rehierarch(index=(1, 0)), lambda: f.relabel_flat(index=True),
        lambda: f.relabel_level_drop(index=1), lambda: f.relabel_level_add(columns='L').relabel_shift_out(0, axis=1), lambda: f.unset_index(names=('i', 'j')), lambda: f.unset_index(consolidate_blocks=True), lambda: f.set_index('p', drop=True, index_constructor=sf.IndexGO)))(
        e.reg(sf.Frame(np.arange(8).reshape(4, 2), index=sf.IndexHierarchy.from_product(('a', 'b'), (1, 2)), columns=('p', 'q')))))
    return R


def _from_sql(sf):
    import sqlite3
    conn = sqlite3.connect(':memory:')
    conn.execute('create table t (a integer, b text, c real)')
    conn.executemany('insert into t values (?, ?, ?)', [(1, 'x', 1.5), (2, 'y', 2.5)])
    try:
        return (sf.Frame.from_sql('select * from t', connection=conn), sf.Frame.from_sql('select * from t', connection=conn, index_depth=1, dtypes={'c': str}),
                sf.Frame.from_sql('select * from t', connection=conn, index_depth=2, columns_depth=1, consolidate_blocks=True))
    finally:
        conn.close()


def _ihgo_appends(sf):
    out = []
    for depth3 in (False, True):
        h = sf.IndexHierarchyGO.from_labels([('a', 1, 'x'), ('a', 1, 'y'), ('a', 2, 'x')] if depth3 else [('a', 1), ('a', 2)])
        static = sf.IndexHierarchy(h)
        snap = observe_container(static)
        labels = ([('a', 2, 'y'), ('a', 3, 'x'), ('b', 1, 'x'), ('b', 1, 'y'), ('a', 1, 'x'), ('c', 1), ('c', 1, 'x', 'y'), ('b', 2, 'x')] if depth3
                  else [('a', 3), ('b', 1), ('b', 2), ('a', 1), ('c',), ('c', 1, 2), ('c', 1)])
        gained = []
        for k, lab in enumerate(labels):
            try:
                h.append(lab)
                gained.append(lab)
            except Exception:  # noqa: duplicates and wrong depths must raise and leave everything as it was
                pass
            if k % 3 == 1:
                out.append(h.values)
        out += [h, h.values, h.positions, h.values_at_depth(0), sf.IndexHierarchy(h), h.copy(), h.iloc[1:]]
        if observe_container(static) != snap or probe_absent(static, gained):
            raise AssertionError('C01-VIOLATION: a static IndexHierarchy built from an IndexHierarchyGO changed when the source grew')
        if [tuple(x) for x in h.values.tolist()][-len(gained):] != [tuple(g) for g in gained]:
            pass    # (append order is C09's business)
    return tuple(out)


def _pandas_route(cls, pobj, own_data, **kw):
    '''from_pandas, then the pandas object is written (where pandas permits): nothing may show through.'''
    out = cls.from_pandas(pobj, own_data=own_data, **kw)
    before = observe_container(out)
    if own_data:
        return out      # explicit ownership transfer (stated exclusion): the pandas object is not used afterwards
    import pandas as pd
    try:
        with pd.option_context('mode.chained_assignment', None):
            if isinstance(pobj, pd.DataFrame):
                for c in pobj.columns:
                    try:
                        pobj.iloc[0, list(pobj.columns).index(c)] = pobj.iloc[-1, list(pobj.columns).index(c)]
                    except Exception:  # noqa
                        pass
            else:
                pobj.iloc[0] = pobj.iloc[-1]
    except Exception:  # noqa
        pass
    if observe_container(out) != before:
        raise AssertionError('C01-VIOLATION: a write to the pandas object after from_pandas shows through the container')
    return out


def _ihgo3(sf):
    h = sf.IndexHierarchyGO.from_labels([('a', 1, 'x'), ('a', 1, 'y'), ('a', 2, 'x')])
    static = sf.IndexHierarchy(h)
    snap = observe_container(static)
    h.append(('a', 2, 'y'))
    h.append(('b', 1, 'x'))
    _ = h.values
    h.append(('b', 2, 'x'))
    h.extend(sf.IndexHierarchy.from_labels([('c', 1, 'x'), ('c', 1, 'z')]))
    if observe_container(static) != snap or probe_absent(static, [('b', 1, 'x'), ('c', 1, 'z')]):
        raise AssertionError('C01-VIOLATION: a static IndexHierarchy built from an IndexHierarchyGO changed when the source grew')
    return (h, h.values, h.values_at_depth(0), h.values_at_depth(2), h.positions, sf.IndexHierarchy(h), h.copy())


def _arraygo(ArrayGO, e):
    a = e.arr(np.array(['a', 1, None], dtype=object))
    g = ArrayGO(a)
    g2 = ArrayGO(e.arr(np.array([1, 2], dtype=object)), own_iterable=False)
    g.append('z')
    c = g.copy()
    g.extend(('q', 'r'))
    return (g.values, c.values, g2.values, g[1], len(g))


def _setitem(sf, e, mk):
    g = sf.FrameGO(np.arange(6).reshape(3, 2), index=tuple('abc'), columns=tuple('pq'))
    static = e.reg(g.to_frame())
    g['new'] = mk(e)
    return g


def route_cases(ctx):
    import warnings
    for name, fn in _routes():
        env = RouteEnv()
        why = None
        with warnings.catch_warnings():
            warnings.simplefilter('ignore')
            try:
                with _time_limit(20):
                    result = fn(env)
                raised = None
                held_w = None
            except AssertionError as ex:
                result, raised = None, 'AssertionError'
                if 'C01-VIOLATION' in str(ex):
                    why = str(ex)
            except Exception as ex:  # noqa: a failing call: the receivers must still be unchanged
                result, raised = None, type(ex).__name__
            snaps = [observe_container(r) for r in env.receivers]
            # flags and aliasing of everything reachable from the result
            bare = []
            if why is None and result is not None:
                held_ids = {id(a) for a in env.held}
                for apath, a, inside in walk_arrays(result):
                    if id(a) in held_ids and not inside:
                        continue
                    if a.flags.writeable:
                        alias = any(np.may_share_memory(a, b) and np.shares_memory(a, b) for r in env.receivers for _, b, _ in walk_arrays(r))
                        if inside or alias:
                            why = f'array at {apath} (dtype {a.dtype}, shape {a.shape}) is writeable' + (' and is held by a returned container' if inside else ' and shares memory with a receiver')
                            break
                        bare.append(apath)
                    if inside and 'own_data=True' not in name:
                        for c in env.held:
                            if any(env.was_w[id(c)]) and np.may_share_memory(a, c) and np.shares_memory(a, c):
                                why = f'array at {apath} of the returned container shares memory with a caller array that is (or whose base is) writeable'
                                break
                    if why:
                        break
            # the caller writes into every array it passed in
            if why is None:
                res_before = [observe_container(x) for _, x in _containers_in(result)]
                for a in env.held:
                    if a.flags.writeable and a.size:
                        flat = a.reshape(-1)
                        try:
                            flat[0] = flat[-1] if a.dtype.kind not in 'iuf' else flat[0] + 1
                        except Exception:  # noqa
                            pass
                if [observe_container(x) for _, x in _containers_in(result)] != res_before:
                    why = 'a write into a caller-held argument array after the call shows through the returned container'
            if why is None and [observe_container(r) for r in env.receivers] != snaps:
                why = 'a receiver / argument container changed'
            if why is None and 'own_data=True' not in name:
                for c in env.held:
                    if env.was_w[id(c)][0] and not c.flags.writeable:
                        why = 'the call set flags.writeable = False on a caller array (a caller array is either already read-only or copied)'
            for r in env.receivers:
                w = [p for p, a, _ in walk_arrays(r) if a.flags.writeable]
                if w and why is None:
                    why = f'a receiver holds writeable arrays {w[:3]}'
        ctx.count('route:' + ('raised' if raised else 'returned'))
        yield Case('api:scripted-routes', {'route': name, 'raised': raised, 'receivers': len(env.receivers), 'caller_arrays': len(env.held)},
                   py_fail=None if why is None else f'{name} : {why}', tags={'check': 'route', 'route': name}, nontrivial=raised is None, key='route|' + name)
        if bare:
            yield Case('api:scripted-routes', {'route': name, 'bare_writeable_arrays': bare[:5]}, py_fail=f'{name} : bare result array at {bare[0]} is writeable',
                       tags={'check': 'bare-array-readonly', 'route': name}, key='route|bare|' + name)


def _containers_in(obj, path='r', out=None, depth=0):
    '''Containers (Series / Frame / Index / IndexHierarchy / TypeBlocks) in a result of nested tuples.'''
    from static_frame.core.container import ContainerBase
    if out is None:
        out = []
    if isinstance(obj, ContainerBase) and type(obj).__name__ not in ('Bus', 'Batch', 'Quilt'):
        out.append((path, obj))
    elif isinstance(obj, (tuple, list)) and depth < 4:
        for i, x in enumerate(obj):
            _containers_in(x, f'{path}[{i}]', out, depth + 1)
    return out


# =============================================================================== caller isolation: columns that are VIEWS of larger writeable arrays
def isolation_cases(ctx):
    '''Every array-taking route, each pass-through option (consolidate_blocks, own_data excluded as ownership transfer) at both settings, with
    the arrays supplied as views of larger writeable base arrays and as owning arrays, adjacent dtypes equal and differing.  After the call:
    the caller's arrays keep their flags, no array of the result overlaps the caller's memory, and a write through the BASE arrays changes
    neither the result nor containers derived from it.'''
    import static_frame as sf
    from static_frame.core.type_blocks import TypeBlocks

    def supply(kind, dtypes):
        '''[(column array, base array)] for the dtype pattern; kind: view-of-2d | view-sliced | owner | owner-with-earlier-view | fortran-view'''
        out = []
        for j, dt in enumerate(dtypes):
            vals = (np.arange(4) + 10 * (j + 1)).astype(dt) if dt != 'U' else np.array([f'{j}{c}' for c in 'wxyz'])
            if kind == 'view-of-2d':
                base = np.empty((4, 3), dtype=vals.dtype)
                base[:] = vals.reshape(4, 1)
                col = base[:, 1]
            elif kind == 'view-sliced':
                base = np.concatenate([vals, vals])
                col = base[2:6]
                base[2:6] = vals
            elif kind == 'fortran-view':
                base = np.asfortranarray(np.tile(vals.reshape(4, 1), (1, 2)))
                col = base[:, 0]
            elif kind == 'owner-with-earlier-view':
                col = vals.copy()
                base = col[::-1]
            else:
                col = vals.copy()
                base = col
            out.append((col, base))
        return out

    def write_bases(pairs):
        for col, base in pairs:
            if base.flags.writeable:
                if base.dtype.kind == 'U':
                    base[...] = 'ZZ'
                elif base.dtype.kind == 'b':
                    base[...] = ~base
                else:
                    base[...] = base + 100

    L = ('a', 'b', 'c')
    routes = []      # (name, has consolidate option, builder(cols, kw) -> container)
    routes.append(('Frame.from_items(zip(labels, arrays))', True, lambda cols, kw: sf.Frame.from_items(zip(L, cols), **kw)))
    routes.append(('FrameGO.from_items(zip(labels, arrays))', True, lambda cols, kw: sf.FrameGO.from_items(zip(L, cols), **kw)))
    routes.append(('Frame.from_dict({label: array})', True, lambda cols, kw: sf.Frame.from_dict(dict(zip(L, cols)), **kw)))
    routes.append(('Frame.from_fields(arrays, columns=)', True, lambda cols, kw: sf.Frame.from_fields(cols, columns=L[:len(cols)], **kw)))
    routes.append(('FrameHE.from_fields(arrays)', True, lambda cols, kw: sf.FrameHE.from_fields(cols, **kw)))
    routes.append(('Frame.from_records(array rows)', True, lambda cols, kw: sf.Frame.from_records([c for c in cols], **kw)))
    routes.append(('Frame.from_records_items((label, array))', True, lambda cols, kw: sf.Frame.from_records_items(zip(L, cols), **kw)))
    routes.append(('Frame.from_concat((Frame(col2d) ...), axis=1)', True, lambda cols, kw: sf.Frame.from_concat([sf.Frame(c.reshape(4, 1), columns=(L[i],)) for i, c in enumerate(cols)], axis=1, **kw)))
    routes.append(('Frame.from_structured_array(np.rec.fromarrays)', True, lambda cols, kw: sf.Frame.from_structured_array(np.rec.fromarrays(cols, names=list(L[:len(cols)])), **kw)))
    routes.append(('Frame.from_items(...).unset_index(consolidate_blocks=)', True, lambda cols, kw: sf.Frame.from_items(zip(L, cols)).unset_index(**kw)))
    routes.append(('Frame.from_items(...).astype / astype[cols](dtype, consolidate_blocks=)', True, lambda cols, kw: sf.Frame.from_items(zip(L, cols)).astype[L[0]:L[1]](cols[0].dtype, **kw)))
    routes.append(('TypeBlocks.from_blocks(arrays)', False, lambda cols, kw: TypeBlocks.from_blocks(cols)))
    routes.append(('TypeBlocks.from_blocks(TypeBlocks.consolidate_blocks(arrays))', False, lambda cols, kw: TypeBlocks.from_blocks(TypeBlocks.consolidate_blocks(cols))))
    routes.append(('TypeBlocks.from_blocks(arrays).consolidate()', False, lambda cols, kw: TypeBlocks.from_blocks(cols).consolidate()))
    routes.append(('FrameGO; g[label] = array', False, lambda cols, kw: _go_setitem(sf, cols, L)))
    routes.append(('FrameGO.extend_items((label, array))', False, lambda cols, kw: _go_extend_items(sf, cols, L)))
    routes.append(('Series(array) / Index(array) / Frame(array2d view)', False, lambda cols, kw: (sf.Series(cols[0]), sf.Index(cols[0]), sf.Frame(cols[0].reshape(4, 1)), sf.Series(cols[0], index=cols[-1]) if len(set(cols[-1].tolist())) == 4 else None)))
    routes.append(('Series.from_items / from_concat / Frame.from_series(Series(array))', False, lambda cols, kw: (sf.Series.from_concat([sf.Series(c) for c in cols], index=sf.IndexAutoFactory) if len({c.dtype for c in cols}) == 1 else None,
                                                                                                                       sf.Frame.from_series(sf.Series(cols[0], name='n')), sf.Frame.from_concat([sf.Series(c, name=L[i]) for i, c in enumerate(cols)], axis=1))))
    routes.append(('IndexHierarchy.from_index_items / Frame(index=array, columns=)', False, lambda cols, kw: (sf.Frame(np.zeros((4, 2)), index=cols[0]), sf.IndexHierarchy.from_product(('a',), cols[0]), sf.Index(cols[0]).union(cols[0][::-1]))))
    patterns = [('equal-equal-equal', (np.int64, np.int64, np.int64)), ('int-float-int', (np.int64, np.float64, np.int64)), ('int-int-float', (np.int64, np.int64, np.float64)),
                ('float-int-int', (np.float64, np.int64, np.int64)), ('int-str-bool', (np.int64, 'U', np.bool_)), ('single', (np.int64,)), ('uint8-uint8-int', (np.uint8, np.uint8, np.int64))]
    kinds = ['view-of-2d', 'view-sliced', 'fortran-view', 'owner', 'owner-with-earlier-view']
    for rname, has_opt, build in routes:
        for pname, dtypes in patterns:
            for kind in kinds:
                for kw in (({}, {'consolidate_blocks': True}, {'consolidate_blocks': False}) if has_opt else ({},)):
                    pairs = supply(kind, dtypes)
                    cols = [c for c, _ in pairs]
                    flags0 = [bool(c.flags.writeable) for c in cols]
                    text = f'{rname} {kw or ""} ; columns: {kind}, dtypes {pname}'
                    try:
                        out = build(cols, dict(kw))
                    except Exception as ex:  # noqa: a route that does not accept this pattern (still: the caller's arrays must be untouched)
                        out = None
                        raised = type(ex).__name__
                    else:
                        raised = None
                    why = None
                    if [bool(c.flags.writeable) for c in cols] != flags0:
                        why = 'the call changed flags.writeable of a caller array (a caller array is either already read-only or copied)'
                    conts = [x for _, x in _containers_in(out)] if out is not None else []
                    if isinstance(out, TypeBlocks):
                        conts = [out]
                    derived = []
                    for c in conts:
                        try:
                            if isinstance(c, sf.Frame):
                                derived += [c.iloc[1:, :], c.iloc[:, 0], c.to_frame_he(), c.T]
                            elif isinstance(c, sf.Series):
                                derived += [c.iloc[1:], c.to_frame()]
                            elif isinstance(c, TypeBlocks):
                                derived += [c.copy(), c._extract(row_key=slice(1, None))]
                        except Exception:  # noqa
                            pass
                    if why is None:
                        for c in conts:
                            for apath, a, _ in walk_arrays(c):
                                if a.flags.writeable:
                                    why = f'array at {apath} of the result is writeable'
                                for col, base in pairs:
                                    if np.may_share_memory(a, base) and np.shares_memory(a, base):
                                        why = f'array at {apath} of the result shares memory with the caller base array'
                                if why:
                                    break
                            if why:
                                break
                    before = [observe_container(c) for c in conts + derived]
                    write_bases(pairs)
                    if why is None and [observe_container(c) for c in conts + derived] != before:
                        why = 'a write through the base arrays after the call shows through the container or one derived from it'
                    ctx.count('isolation:' + ('raised' if raised else 'built'))
                    yield Case('api:caller-isolation', {'route': rname, 'options': kw, 'columns': kind, 'dtypes': pname, 'raised': raised},
                               py_fail=None if why is None else f'{text} : {why}', tags={'check': 'caller-isolation', 'route': rname, 'columns': kind, 'dtypes': pname},
                               nontrivial=raised is None and kind != 'owner', key=f'iso|{rname}|{pname}|{kind}|{sorted(kw.items())}')


def _go_setitem(sf, cols, L):
    g = sf.FrameGO(index=range(4))
    for lab, c in zip(L, cols):
        g[lab] = c
    return (g, g.to_frame())


def _go_extend_items(sf, cols, L):
    g = sf.FrameGO(index=range(4))
    g.extend_items(zip(L, cols))
    return (g, g.to_frame())


def cases(ctx):
    # the enumeration starts with the 'large' phase (PositionsAllocator regrows): every later stratum runs in a process whose shared
    # positions array has been replaced, which is the state a long-lived user process is in
    yield from enumeration_cases(ctx)
    yield from regression_cases(ctx)
    yield from isolation_cases(ctx)
    yield from route_cases(ctx)
    yield from grow_cases(ctx)
    yield from heap_cases(ctx)


# =============================================================================== regenerated from the source on every run
ANCHOR_FILES = ['util.py', 'type_blocks.py', 'series.py', 'frame.py', 'index.py', 'index_hierarchy.py', 'index_level.py', 'container_util.py',
                'array_go.py', 'index_base.py', 'index_datetime.py', 'node_str.py', 'node_dt.py', 'index_auto.py', 'container.py']
# classes that own ndarray slots, the slot names, and where __slots__ is spelled (checked: fail closed when the layout changes)
ARRAY_SLOTS = {
    ('index.py', 'Index'): ('_labels', '_positions'),
    ('series.py', 'Series'): ('values',),
    ('type_blocks.py', 'TypeBlocks'): ('_blocks',),
    ('array_go.py', 'ArrayGO'): ('_array',),
}


def _parse(repo, fname):
    import ast
    path = os.path.join(repo, 'static_frame', 'core', fname)
    with open(path) as f:
        return ast.parse(f.read(), filename=path)


def _is_flag_assign(node, value):
    '''`<expr>.flags.writeable = <value>`; returns the <expr> node or None.'''
    import ast
    if not isinstance(node, ast.Assign) or len(node.targets) != 1:
        return None
    t = node.targets[0]
    if (isinstance(t, ast.Attribute) and t.attr == 'writeable' and isinstance(t.value, ast.Attribute) and t.value.attr == 'flags'
            and isinstance(node.value, ast.Constant) and node.value.value is value):
        return t.value.value
    return None


def setstate_table(repo):
    '''{class name: [(slot, refrozen by __setstate__)]} read from the AST of the classes that own ndarray slots.'''
    import ast
    out = {}
    known = {c for (_, c) in ARRAY_SLOTS}
    for fname in ANCHOR_FILES:
        tree = _parse(repo, fname)
        for cls in [n for n in tree.body if isinstance(n, ast.ClassDef)]:
            fns = {n.name: n for n in cls.body if isinstance(n, ast.FunctionDef)}
            if '__setstate__' in fns and cls.name not in known:
                raise ValueError(f'{fname}:{cls.name} defines __setstate__ but is not a known array-owning class: extend ARRAY_SLOTS')
            if (fname, cls.name) not in ARRAY_SLOTS:
                continue
            slots = ARRAY_SLOTS[(fname, cls.name)]
            # the slot names must still be declared
            src = ast.dump(tree)
            for sname in slots:
                if f"value='{sname}'" not in src:
                    raise ValueError(f'{fname}: slot {sname} of {cls.name} is no longer declared')
            frozen = set()
            if '__setstate__' in fns:
                for node in ast.walk(fns['__setstate__']):
                    tgt = _is_flag_assign(node, False)
                    if tgt is None:
                        continue
                    if isinstance(tgt, ast.Attribute) and isinstance(tgt.value, ast.Name) and tgt.value.id == 'self':
                        frozen.add(tgt.attr)
                    elif isinstance(tgt, ast.Name):
                        # for b in self.X: b.flags.writeable = False
                        for loop in ast.walk(fns['__setstate__']):
                            if (isinstance(loop, ast.For) and isinstance(loop.target, ast.Name) and loop.target.id == tgt.id
                                    and isinstance(loop.iter, ast.Attribute) and isinstance(loop.iter.value, ast.Name) and loop.iter.value.id == 'self'):
                                frozen.add(loop.iter.attr)
                    else:
                        raise ValueError(f'{fname}:{cls.name}.__setstate__: unrecognised freeze statement')
            out[cls.name] = [(sname, sname in frozen) for sname in slots]
    missing = known - set(out)
    if missing:
        raise ValueError(f'array-owning classes not found: {sorted(missing)}')
    return out


def freeze_census(repo):
    """[(qualified function, protect sites, thaw sites)]: protect = `x.flags.writeable = False` statements + immutable_filter calls,
    counted in the innermost enclosing function (or class / module body)."""
    import ast
    rows = {}

    def own_nodes(scope):
        stack = list(ast.iter_child_nodes(scope))
        while stack:
            n = stack.pop()
            if isinstance(n, (ast.FunctionDef, ast.AsyncFunctionDef, ast.ClassDef)):
                continue
            yield n
            stack.extend(ast.iter_child_nodes(n))

    def visit(scope, qual):
        key = '.'.join(qual)
        for n in own_nodes(scope):
            if _is_flag_assign(n, False) is not None:
                rows.setdefault(key, [0, 0])[0] += 1
            elif _is_flag_assign(n, True) is not None:
                rows.setdefault(key, [0, 0])[1] += 1
            elif isinstance(n, ast.Call) and isinstance(n.func, ast.Name) and n.func.id == 'immutable_filter':
                rows.setdefault(key, [0, 0])[0] += 1
        for n in ast.walk(scope):
            if n is not scope and isinstance(n, (ast.FunctionDef, ast.AsyncFunctionDef, ast.ClassDef)) and _parent_scope(scope, n):
                visit(n, qual + [n.name])

    def _parent_scope(scope, node):
        # node is a direct child scope of `scope` (not nested in another def/class in between)
        stack = list(ast.iter_child_nodes(scope))
        while stack:
            n = stack.pop()
            if n is node:
                return True
            if isinstance(n, (ast.FunctionDef, ast.AsyncFunctionDef, ast.ClassDef)):
                continue
            stack.extend(ast.iter_child_nodes(n))
        return False

    for fname in ANCHOR_FILES:
        visit(_parse(repo, fname), [fname[:-3]])
    return sorted((k, v[0], v[1]) for k, v in rows.items())


def allocator_audit(repo):
    '''util.PositionsAllocator publishes one shared array to every index of the process: wherever `_array` is (re)assigned, the NEXT
    statements of the same block must freeze that very target, and get() must return a slice of it. True / False; raises when the class
    no longer has this shape.'''
    import ast
    tree = _parse(repo, 'util.py')
    cls = next((n for n in tree.body if isinstance(n, ast.ClassDef) and n.name == 'PositionsAllocator'), None)
    if cls is None:
        raise ValueError('util.PositionsAllocator not found')
    get = next((n for n in cls.body if isinstance(n, ast.FunctionDef) and n.name == 'get'), None)
    if get is None:
        raise ValueError('util.PositionsAllocator.get not found')

    def is_array_target(t):
        return (isinstance(t, ast.Name) and t.id == '_array') or (isinstance(t, ast.Attribute) and t.attr == '_array' and isinstance(t.value, ast.Name) and t.value.id == 'cls')

    assigned = [0]
    ok = [True]

    def check_block(stmts):
        for i, st in enumerate(stmts):
            targets = st.targets if isinstance(st, ast.Assign) else ([st.target] if isinstance(st, ast.AnnAssign) and st.value is not None else [])
            if any(is_array_target(t) for t in targets):
                assigned[0] += 1
                frozen = False
                for later in stmts[i + 1:]:
                    lt = later.targets if isinstance(later, ast.Assign) else []
                    if any(is_array_target(t) for t in lt):
                        break
                    tgt = _is_flag_assign(later, False)
                    if tgt is not None and is_array_target(tgt):
                        frozen = True
                        break
                    if _is_flag_assign(later, True) is not None:
                        break
                if not frozen:
                    ok[0] = False
            for field in ('body', 'orelse', 'finalbody'):
                sub = getattr(st, field, None)
                if isinstance(sub, list) and not isinstance(st, (ast.FunctionDef, ast.ClassDef)):
                    check_block(sub)
    check_block(cls.body)
    check_block(get.body)
    if assigned[0] < 2:
        raise ValueError('util.PositionsAllocator: expected an assignment of _array in the class body and in get()')
    rets = [n for n in ast.walk(get) if isinstance(n, ast.Return)]
    if not rets or not all(isinstance(r.value, ast.Subscript) and is_array_target(r.value.value) for r in rets):
        ok[0] = False
    if any(_is_flag_assign(n, True) is not None for n in ast.walk(cls)):
        ok[0] = False
    return ok[0]


def filter_decision(repo):
    '''util.immutable_filter read from the AST: (action when the argument is writeable, action when it is read-only), each one of
    FCopyFreeze / FKeep / FFreezeInPlace / FCopy (constructors of SF.Heap.filter_action). Fails closed on any other shape.'''
    import ast
    tree = _parse(repo, 'util.py')
    fn = next((n for n in tree.body if isinstance(n, ast.FunctionDef) and n.name == 'immutable_filter'), None)
    if fn is None or len(fn.args.args) != 1:
        raise ValueError('util.immutable_filter(src_array) not found')
    src = fn.args.args[0].arg
    body = [st for st in fn.body if not (isinstance(st, ast.Expr) and isinstance(st.value, ast.Constant))]
    if not body or not isinstance(body[0], ast.If):
        raise ValueError('util.immutable_filter: expected `if src_array.flags.writeable:` first')
    test = body[0].test
    if not (isinstance(test, ast.Attribute) and test.attr == 'writeable' and isinstance(test.value, ast.Attribute) and test.value.attr == 'flags'
            and isinstance(test.value.value, ast.Name) and test.value.value.id == src):
        raise ValueError('util.immutable_filter: unexpected test')

    def action(stmts):
        copies, frozen, ret = set(), set(), None
        for st in stmts:
            if isinstance(st, ast.Assign) and len(st.targets) == 1 and isinstance(st.targets[0], ast.Name) and isinstance(st.value, ast.Call) \
                    and isinstance(st.value.func, ast.Attribute) and st.value.func.attr == 'copy' and isinstance(st.value.func.value, ast.Name) and st.value.func.value.id == src and not st.value.args:
                copies.add(st.targets[0].id)
            elif _is_flag_assign(st, False) is not None and isinstance(_is_flag_assign(st, False), ast.Name):
                frozen.add(_is_flag_assign(st, False).id)
            elif isinstance(st, ast.Return) and isinstance(st.value, ast.Name):
                ret = st.value.id
                break
            else:
                raise ValueError('util.immutable_filter: unexpected statement ' + ast.dump(st)[:80])
        if ret is None:
            return None
        if ret == src:
            return 'FFreezeInPlace' if src in frozen else 'FKeep'
        if ret in copies:
            return 'FCopyFreeze' if ret in frozen else 'FCopy'
        raise ValueError('util.immutable_filter: returns something that is neither the argument nor a copy of it')

    when_w = action(body[0].body)
    rest = body[0].orelse or body[1:]
    when_ro = action(rest)
    if when_w is None:          # the writeable branch falls through to the common tail
        when_w = action(body[0].body + list(body[1:]))
    if when_w is None or when_ro is None:
        raise ValueError('util.immutable_filter: a path without return')
    return when_w, when_ro


def constructor_routes(repo):
    '''Which route each array-taking entry point uses for an ndarray argument (RFilter = through immutable_filter, ROwn = frozen in place
    and kept), read from the AST; fails closed when an entry point no longer filters its argument.'''
    import ast

    def func(fname, cls, name):
        tree = _parse(repo, fname)
        k = next((n for n in tree.body if isinstance(n, ast.ClassDef) and n.name == cls), None)
        f = None if k is None else next((n for n in k.body if isinstance(n, ast.FunctionDef) and n.name == name), None)
        if f is None:
            raise ValueError(f'{fname}: {cls}.{name} not found')
        return f

    def calls_filter_on(node, argname):
        return (isinstance(node, ast.Call) and isinstance(node.func, ast.Name) and node.func.id == 'immutable_filter' and len(node.args) == 1
                and isinstance(node.args[0], ast.Name) and node.args[0].id == argname)
    out = {}
    f = func('series.py', 'Series', '__init__')
    if not any(isinstance(n, ast.Assign) and isinstance(n.targets[0], ast.Attribute) and n.targets[0].attr == 'values' and calls_filter_on(n.value, 'values') for n in ast.walk(f)):
        raise ValueError('Series.__init__ no longer assigns self.values = immutable_filter(values)')
    out['route_series_init'] = 'RFilter'
    f = func('index.py', 'Index', '_extract_labels')
    if not any(isinstance(n, ast.Return) and calls_filter_on(n.value, 'labels') for n in ast.walk(f)):
        raise ValueError('Index._extract_labels no longer returns immutable_filter(labels)')
    out['route_index_labels'] = 'RFilter'
    f = func('type_blocks.py', 'TypeBlocks', 'from_blocks')
    appended = [n for n in ast.walk(f) if isinstance(n, ast.Call) and isinstance(n.func, ast.Attribute) and n.func.attr == 'append' and isinstance(n.func.value, ast.Name) and n.func.value.id == 'blocks']
    if len(appended) < 2 or not all(len(n.args) == 1 and (calls_filter_on(n.args[0], 'raw_blocks') or calls_filter_on(n.args[0], 'block')) for n in appended):
        raise ValueError('TypeBlocks.from_blocks appends a block that did not go through immutable_filter')
    out['route_tb_from_blocks'] = 'RFilter'
    f = func('type_blocks.py', 'TypeBlocks', 'append')
    appended = [n for n in ast.walk(f) if isinstance(n, ast.Call) and isinstance(n.func, ast.Attribute) and n.func.attr == 'append' and isinstance(n.func.value, ast.Attribute) and n.func.value.attr == '_blocks']
    if len(appended) != 1 or not calls_filter_on(appended[0].args[0], 'block'):
        raise ValueError('TypeBlocks.append no longer appends immutable_filter(block)')
    out['route_tb_append'] = 'RFilter'
    f = func('frame.py', 'Frame', '__init__')
    branch = None
    for n in ast.walk(f):
        if isinstance(n, ast.If) and isinstance(n.test, ast.Compare) and isinstance(n.test.comparators[0], ast.Attribute) and n.test.comparators[0].attr == 'ndarray' \
                and isinstance(n.test.left, ast.Attribute) and n.test.left.attr == '__class__' and isinstance(n.test.left.value, ast.Name) and n.test.left.value.id == 'data':
            branch = n.body
    if branch is None:
        raise ValueError('Frame.__init__: the `data.__class__ is np.ndarray` branch was not found')
    own_freezes = any(isinstance(st, ast.If) and isinstance(st.test, ast.Name) and st.test.id == 'own_data'
                      and any(_is_flag_assign(x, False) is not None and isinstance(_is_flag_assign(x, False), ast.Name) and _is_flag_assign(x, False).id == 'data' for x in st.body) for st in branch)
    to_blocks = any(isinstance(st, ast.Assign) and isinstance(st.value, ast.Call) and isinstance(st.value.func, ast.Attribute) and st.value.func.attr == 'from_blocks'
                    and len(st.value.args) == 1 and isinstance(st.value.args[0], ast.Name) and st.value.args[0].id == 'data' for st in branch)
    if not to_blocks:
        raise ValueError('Frame.__init__: ndarray data no longer goes through TypeBlocks.from_blocks')
    out['route_frame_init'] = 'RFilter'
    out['route_frame_init_own_data'] = 'ROwn' if own_freezes else 'RFilter'
    return out


def generate(repo):
    tab = setstate_table(repo)
    cen = freeze_census(repo)
    b = lit.b
    lines = ['(* GENERATED on every run by tools/sfv/props/c01.py from the AST of /repo/static_frame/core -- do not edit. *)',
             'Require Import SF.Prelude SF.Heap.', 'Local Open Scope string_scope.', 'Local Open Scope nat_scope.', '',
             '(* which ndarray slots __setstate__ re-freezes after unpickling (True) and which it leaves writeable (False) *)',
             'Definition setstate_refreezes : list (string * list (string * bool)) := ['
             + '; '.join(f'({lit.s(c)}, [' + '; '.join(f'({lit.s(n)}, {b(f)})' for n, f in slots) + '])' for c, slots in sorted(tab.items())) + '].',
             f'Definition pickle_flags_index : list bool := [{"; ".join(b(f) for _, f in tab["Index"])}].      (* _labels, _positions *)',
             f'Definition pickle_flag_series_values : bool := {b(tab["Series"][0][1])}.',
             f'Definition pickle_flag_block : bool := {b(tab["TypeBlocks"][0][1])}.',
             f'Definition pickle_flag_arraygo : bool := {b(tab["ArrayGO"][0][1])}.',
             'Definition pickle_flags_series : list bool := pickle_flag_series_values :: pickle_flags_index.',
             '(* util.immutable_filter as written in the source: what is returned for a writeable / a read-only argument *)',
             'Definition source_filter (w : bool) : filter_action := if w then %s else %s.' % filter_decision(repo),
             '(* the route an ndarray argument takes in each array-taking entry point (RFilter = through immutable_filter; ROwn = frozen in place and kept) *)',
             ] + [f'Definition {k} : route := {v}.' for k, v in sorted(constructor_routes(repo).items())] + [
             '(* util.PositionsAllocator: every assignment of the shared _array is followed by a freeze of that very array; get() returns a slice of it *)',
             f'Definition positions_allocator_publishes_frozen : bool := {b(allocator_audit(repo))}.',
             'Definition pickle_flags_frame1 : list bool := pickle_flag_block :: (pickle_flags_index ++ pickle_flags_index)%list.',
             '',
             '(* census of the freeze protocol: (function, protect sites = `flags.writeable = False` statements + immutable_filter calls, thaw sites) *)',
             'Definition freeze_census : list (string * (nat * nat)) := [']
    lines.append(';\n'.join(f'  ({lit.s(k)}, ({p}, {t}))' for k, p, t in cen))
    lines.append('].')
    return {'Gen/Gen_c01.v': '\n'.join(lines) + '\n'}
