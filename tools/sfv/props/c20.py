'''C20 -- reshaping and relational operations follow their relational definitions.'''
import itertools

import numpy as np

from .. import lit
from .. import zoo
from ..core import Case

ID = 'C20'
MANIFEST = {
    'text': ('Coq theorems (Properties/C20.v, all unbounded, closed under the global context). JOINS: C20_join_rows_pairs/left/right/nodup/pairs_count characterise the '
             'specification S_join (nested loop + unmatched rows of the preserved side) by membership, multiplicity and cardinality for the four join types and all '
             'cardinalities; C20_join_many_refines / C20_join_composite_refines: the implementation model of the composite path of Frame._join (match discovery by position, '
             'Pair/PairLeft/PairRight labels, rows fetched back BY LABEL through both indices, reindex for PairRight rows, template renaming) equals the frame of S_join for '
             'every table with unique labels; C20_join_single_inner / _left / _left_rows / C20_join_noncomposite_dispatch: the non-composite path is the definition for inner '
             'joins and, under an explicit guard, for left joins. SHIFTS: C20_shift_in_preserves, C20_shift_in_out_roundtrip, C20_set_unset_roundtrip, C20_set_index_keeps_data '
             '(whole named columns move between index depths and data; in-and-out restores the index and returns a permutation of the columns). STACK: C20_stack_cells, '
             'C20_unstack_cells, C20_stack_unstack_roundtrip (original cells back at their labels, fill exactly where the column set is ragged), C20_stack_refines / '
             'C20_unstack_refines (the dictionary-and-position algorithms equal the label-keyed cell maps). PIVOT: C20_pivot_cell_refines, C20_pivot_refines, C20_pivot_shape, '
             'C20_pivot_cell_sources. Refuted/C20.v holds the witnesses of the two modelled findings whose faithful model misses the specification. '
             'Correspondence: API-level differential runs of join_inner/left/right/outer, set_index, set_index_hierarchy, unset_index, relabel_shift_in/out (both axes), '
             'pivot_stack, pivot_unstack, pivot through the public interface over enumerated block layouts, with the implementation model M and the specification S both '
             'evaluated inside Coq on the same inputs; kernel-level runs of pivot_index_map and extrapolate_column_fields.'),
    'note': ('Trusted: Coq kernel; the hand-written models coq/SF/Rel*.v (tied to /repo by the differential runs of this check and, for four decisions, by constants regenerated '
             'from the source on every run: composite_index defaults + join-type dispatch, the pivot_unstack dtype rule, the two pivot shortcuts that keep a one-row group '
             'away from func); the harness plumbing that turns a Frame into rows / named columns / labels split by the depth mask and that normalises slice / Boolean / '
             'ndarray / negative-depth arguments for the model; the NumPy cast oracle np.array([fill], dtype=column dtype) of the pivot_unstack model. Partial: the '
             'non-composite join path is proved only for inner and guarded left joins (right/outer: model + correspondence + refuted witness only); the M = S theorems '
             'speak about rows/columns as lists, block layouts / FrameGO / FrameHE receivers / unsigned, datetime64, bytes, object-with-None dtypes are covered by the '
             'correspondence strata, not by a theorem; dtypes of results are not compared (cells are compared as Python values); np.unique / iter_group sort order is a '
             'model parameter (Permutation hypothesis); Frame.rehierarch and set_index_hierarchy(reorder_for_hierarchy=True) are checked against the specification only '
             '(cells stay at their reordered labels / rows stay whole), not modelled; join keys of different datetime64 units, label equality of 1 / 1.0 / True, '
             'index_constructor(s) arguments, and requests whose result labels are not tree-ordered (IndexHierarchy limitation, skipped by construction of the input) are '
             'outside the oracle. Five known findings are listed in known/C20.jsonl; a sixth (pivot_unstack cast the fill into the source dtype) is repaired in /repo '
             '8198989 and kept as a regression stratum.'),
    'technique': 'refinement of an implementation model to a relational specification (Coq) + differential runs of both inside Coq',
}
PROPERTY_FILES = ['Properties/C20.v']
REFUTED_FILES = ['Refuted/C20.v']
MODEL_FILES = ['Gen/Gen_c20.v', 'SF/RelJoin.v', 'SF/RelJoinVal.v', 'SF/RelShift.v', 'SF/RelShiftVal.v', 'SF/RelStack.v', 'SF/RelStackVal.v', 'SF/RelStackGenVal.v', 'SF/RelPivot.v', 'SF/RelPivotVal.v', 'SF/RelPivotGenVal.v', 'Proofs/RelExamples.v']
IMPORTS = 'Require Import SF.Prelude SF.Dtype SF.Value Gen.Gen_c20 SF.RelJoin SF.RelJoinVal SF.RelShift SF.RelShiftVal SF.RelStack SF.RelStackVal SF.RelStackGenVal SF.RelPivot SF.RelPivotVal SF.RelPivotGenVal.'
# the specification checkers (every `s=` term) live in files that do NOT depend on Gen/Gen_c20.v: used when the model / generation is broken
IMPORTS_SPEC_ONLY = 'Require Import SF.Prelude SF.Dtype SF.Value SF.RelJoin SF.RelJoinVal SF.RelShift SF.RelShiftVal SF.RelStack SF.RelStackVal SF.RelPivot SF.RelPivotVal.'
RULE = ('exhaustive strata: every key assignment of <=2 (quick) / <=3 (thorough) rows per side over two key values x 4 join types x composite on/off; one many-to-many '
        'and one inner join through every block layout of both sides; every (index key, column key) assignment over {a,b}x{x,y} for <=3/4 rows x sum/len/first through '
        'pivot; relabel_shift_in for every ordered key selection of <=2 of 4 columns on auto / named / hierarchical indices in every layout (thorough), each followed by '
        'relabel_shift_out of the new depths (round trip) and of other depth selections; set_index / set_index_hierarchy / unset_index on every column incl. repeated values '
        '(refusal); pivot_stack over flat / rectangular / ragged / depth-3 columns x every depth selection x 6 fill values, each followed by pivot_unstack of the new depths '
        '(round trip); pivot_unstack over rectangular and ragged indices; joins on 2 and 3 key fields with the columns stored in a permuted order and left_columns / right_columns named in permuted orders, independently per side, key columns over one shared domain (pairing is by NAME order, not position); random streams for joins (1-2 key fields from columns and/or index depths, auto / disjoint / '
        'overlapping / equal / hierarchical labels, fills of other types, 4 template pairs, composite_index_fill_value) and pivots (1-2 index / 0-2 column / 1-2 data fields, '
        'function maps). Routes added from coverage: FrameGO / FrameHE receivers and arguments; unsigned, datetime64, bytes, object-None, NaN, int-vs-float, bool-vs-int, str-vs-int join keys; slice / Boolean / ndarray / Index selections for relabel_shift_in, set_index_hierarchy and join key columns; negative depth levels; hierarchical OPPOSITE axis and grow-only columns with a pending append for the shifts; unset_index(consolidate_blocks=True); pivot with data_fields omitted and typed fields; Frame.rehierarch on both axes. Malformed stream: joins without a key or with keys of different widths, pivot on absent fields or with nothing left for data, invalid axis, rehierarch of a flat axis, absent keys, depth out of range, colliding output names, non-unique / non tree-ordered index requests. A case is non-trivial when '
        'both join sides have rows / a pivot pair repeats / a frame has >1 column; distinct = distinct JSON of the case description.')
ASSUMPTIONS = ['labels of one index are unique and compared by hash/== (C02); generators never mix 1 / 1.0 / True as labels',
               'key cells are compared as Python values (numpy == on the coerced key arrays agrees with Python == on ints, exact floats, bools, strs, None)',
               'np.unique / iter_group_items order = ascending ints, code-point order of ASCII strings, lexicographic tuples (model val_cmp)',
               'np.array([fill], dtype=d)[0] is what np.array(values, dtype=d) stores for a fill cell (NumPy cast oracle, evaluated by NumPy per case)',
               'float cells are exact dyadic rationals; aggregation functions are modelled over integer cells only']
TRUSTED = []
EXHAUSTIVE = {'quick': False, 'thorough': False}
TRANSLATED = []

F_JOIN = 'C20-join-noncomposite-label-lookup'
F_JOIN_BYTES = 'C20-join-fill-coerced-into-bytes-column'
F_SHIFT_NEG = 'C20-shift-out-negative-depth-index-names'

NAN = float('nan')


# ----------------------------------------------------------------------------- generated constants
GENERATED_FILES = ['Gen/Gen_c20.v']
SHARD_SIZE = 150       # 16 shards are elaborated at a time; keep each coqc small
JOIN_ENTRY = ('join_inner', 'join_left', 'join_right', 'join_outer')


def generate(repo):
    '''Keyword defaults and the join-type dispatch of the public join / stack entry points, read from the AST of
    static_frame/core/frame.py on every run (fail closed).  Properties/C20.v proves from the regenerated text that
    every join entry point defaults to the composite path (the one proved equal to the relational definition) and
    hands its own join type to Frame._join.'''
    import ast
    import os
    path = os.path.join(repo, 'static_frame/core/frame.py')
    with open(path) as fh:
        tree = ast.parse(fh.read())
    frame = next(n for n in tree.body if isinstance(n, ast.ClassDef) and n.name == 'Frame')
    funcs = {n.name: n for n in frame.body if isinstance(n, ast.FunctionDef)}

    def kwdefault(fn, name):
        node = funcs[fn]
        for a, d in zip(node.args.kwonlyargs, node.args.kw_defaults):
            if a.arg == name:
                return d
        for a, d in zip(reversed(node.args.args), reversed(node.args.defaults)):
            if a.arg == name:
                return d
        raise ValueError(f'{fn} has no keyword {name}')

    def const(fn, name, types):
        d = kwdefault(fn, name)
        if isinstance(d, ast.UnaryOp) and isinstance(d.op, ast.USub) and isinstance(d.operand, ast.Constant):
            v = -d.operand.value
        elif isinstance(d, ast.Constant):
            v = d.value
        else:
            raise ValueError(f'default of {fn}({name}) is not a constant: {ast.dump(d)[:80]}')
        if not isinstance(v, types) or (types is int and isinstance(v, bool)):
            raise ValueError(f'default of {fn}({name}) has an unexpected type: {v!r}')
        return v

    def is_np_nan(fn, name):
        d = kwdefault(fn, name)
        return isinstance(d, ast.Attribute) and d.attr == 'nan' and isinstance(d.value, ast.Name) and d.value.id == 'np'

    composite = [(fn, const(fn, 'composite_index', bool)) for fn in ('_join',) + JOIN_ENTRY]
    templates = [(fn, const(fn, 'left_template', str), const(fn, 'right_template', str)) for fn in ('_join',) + JOIN_ENTRY]
    nanfill = [(fn, is_np_nan(fn, 'fill_value')) for fn in ('_join',) + JOIN_ENTRY + ('pivot', 'pivot_stack', 'pivot_unstack')]
    cifv_none = [(fn, const(fn, 'composite_index_fill_value', type(None)) is None) for fn in ('_join',) + JOIN_ENTRY]
    depth = [(fn, const(fn, 'depth_level', int)) for fn in ('pivot_stack', 'pivot_unstack')]
    dispatch = []
    for fn in JOIN_ENTRY:
        rets = [n for n in ast.walk(funcs[fn]) if isinstance(n, ast.Return)]
        if len(rets) != 1 or not isinstance(rets[0].value, ast.Call):
            raise ValueError(f'{fn}: expected a single `return self._join(...)`')
        call = rets[0].value
        if not (isinstance(call.func, ast.Attribute) and call.func.attr == '_join'):
            raise ValueError(f'{fn} does not return self._join(...)')
        kws = {k.arg: k.value for k in call.keywords}
        jt = kws.get('join_type')
        if not (isinstance(jt, ast.Attribute) and isinstance(jt.value, ast.Name) and jt.value.id == 'Join'):
            raise ValueError(f'{fn}: join_type is not Join.<X>')
        # every other keyword must be passed through unchanged
        for k, v in kws.items():
            if k in ('join_type',):
                continue
            if k == 'other':
                if not (isinstance(v, ast.Name) and v.id == 'other'):
                    raise ValueError(f'{fn}: other is not passed through')
            elif not (isinstance(v, ast.Name) and v.id == k):
                raise ValueError(f'{fn}: keyword {k} is not passed through unchanged')
        dispatch.append((fn, jt.attr))
    # pivot_unstack: is `dtype` (re)assigned from the source column inside the branch that found a value?
    items = next((n for n in ast.walk(funcs['pivot_unstack']) if isinstance(n, ast.FunctionDef) and n.name == 'items'), None)
    if items is None:
        raise ValueError('pivot_unstack has no inner generator items()')
    found_branches = [n for n in ast.walk(items) if isinstance(n, ast.If) and isinstance(n.test, ast.Compare)
                      and isinstance(n.test.ops[0], ast.In) and isinstance(n.test.left, ast.Name) and n.test.left.id == 'target']
    if len(found_branches) != 1:
        raise ValueError('pivot_unstack.items(): expected one `if target in target_map` branch')
    def assigns_dtype(nodes):
        return [a for st in nodes for a in ast.walk(st) if isinstance(a, ast.Assign) and len(a.targets) == 1
                and isinstance(a.targets[0], ast.Name) and a.targets[0].id == 'dtype']
    in_found = assigns_dtype(found_branches[0].body)
    in_else = assigns_dtype(found_branches[0].orelse)
    if len(in_else) != 1:
        raise ValueError('pivot_unstack.items(): the fill branch no longer assigns dtype')
    if in_found:
        if not (len(in_found) == 1 and isinstance(in_found[0].value, ast.Name) and in_found[0].value.id == 'dtype_src_col'):
            raise ValueError('pivot_unstack.items(): unexpected dtype assignment in the found branch')
        unstack_last_group = True
    else:
        # repaired shape: dtype starts as the source dtype before the loop and is only widened
        widen = in_else[0].value
        if not (isinstance(widen, ast.Call) and getattr(widen.func, 'id', None) == 'resolve_dtype' and isinstance(widen.args[0], ast.Name) and widen.args[0].id == 'dtype'):
            raise ValueError('pivot_unstack.items(): dtype is neither taken from the last group nor widened monotonically')
        unstack_last_group = False
    # pivot: the two shortcuts that keep a group of one row away from func
    with open(os.path.join(repo, 'static_frame/core/pivot.py')) as fh:
        ptree = ast.parse(fh.read())
    pfuncs = {n.name: n for n in ptree.body if isinstance(n, ast.FunctionDef)}

    def has_len1_shortcut(fn):
        hits = [n for n in ast.walk(pfuncs[fn]) if isinstance(n, ast.If) and isinstance(n.test, ast.Compare) and isinstance(n.test.left, ast.Call)
                and getattr(n.test.left.func, 'id', None) == 'len' and isinstance(n.test.ops[0], ast.Eq)
                and isinstance(n.test.comparators[0], ast.Constant) and n.test.comparators[0].value == 1]
        calls_func = any(isinstance(n, ast.Call) and getattr(n.func, 'id', None) in ('func', 'func_single') for n in ast.walk(pfuncs[fn]))
        if not calls_func:
            raise ValueError(f'{fn} no longer calls the aggregation function')
        return bool(hits)
    shortcuts = {fn: has_len1_shortcut(fn) for fn in ('pivot_items', 'pivot_records_items')}
    if len(set(shortcuts.values())) != 1:
        raise ValueError(f'pivot_items and pivot_records_items disagree on the single-row shortcut: {shortcuts}')
    pivot_bypass = shortcuts['pivot_items']
    uniq_tests = [n for n in ast.walk(funcs['pivot']) if isinstance(n, ast.If) and 'sub_index_labels' in ast.dump(n.test) and "id='set'" in ast.dump(n.test)]
    if len(uniq_tests) > 1:
        raise ValueError('Frame.pivot: more than one uniqueness test on sub_index_labels')
    if uniq_tests:
        if not uniq_tests[0].orelse or 'pivot_items' in ast.dump(ast.Module(body=uniq_tests[0].orelse, type_ignores=[])):
            raise ValueError('Frame.pivot: the unique-labels branch no longer takes the raw values')
        pivot_raw = True
    else:
        if 'pivot_items' not in ast.dump(funcs['pivot']):
            raise ValueError('Frame.pivot no longer aggregates through pivot_items')
        pivot_raw = False
    b = lambda v: 'true' if v else 'false'
    lines = ['(* GENERATED by tools/sfv/props/c20.py generate() from static_frame/core/frame.py -- do not edit *)',
             'Require Import SF.Prelude.', 'Local Open Scope string_scope.', '',
             'Definition gen_join_composite_default : list (string * bool) := ' + lit.lst([f'({lit.s(f)}, {b(v)})' for f, v in composite]) + '.',
             'Definition gen_join_templates_default : list (string * (string * string)) := ' + lit.lst([f'({lit.s(f)}, ({lit.s(l_)}, {lit.s(r_)}))' for f, l_, r_ in templates]) + '.',
             'Definition gen_fill_default_is_nan : list (string * bool) := ' + lit.lst([f'({lit.s(f)}, {b(v)})' for f, v in nanfill]) + '.',
             'Definition gen_join_cifv_default_is_none : list (string * bool) := ' + lit.lst([f'({lit.s(f)}, {b(v)})' for f, v in cifv_none]) + '.',
             'Definition gen_depth_level_default : list (string * Z) := ' + lit.lst([f'({lit.s(f)}, {lit.z(v)})' for f, v in depth]) + '.',
             'Definition gen_join_dispatch : list (string * string) := ' + lit.lst([f'({lit.s(f)}, {lit.s(v)})' for f, v in dispatch]) + '.',
             'Definition gen_unstack_dtype_from_last_group : bool := ' + b(unstack_last_group) + '.',
             'Definition gen_pivot_single_row_bypasses_func : bool := ' + b(pivot_bypass) + '.',
             'Definition gen_pivot_unique_group_takes_raw : bool := ' + b(pivot_raw) + '.',
             '',
             'Definition gen_composite (name : string) : bool :=',
             '  match find (fun p => String.eqb name (fst p)) gen_join_composite_default with Some p => snd p | None => false end.',
             '']
    return {'Gen/Gen_c20.v': '\n'.join(lines)}


# ----------------------------------------------------------------------------- helpers
def _j(v):
    '''JSON-able view of a value.'''
    if isinstance(v, np.ndarray):
        v = lit.array_vals(v)
    if isinstance(v, (list, tuple)):
        return [_j(x) for x in v]
    if isinstance(v, (np.datetime64, np.timedelta64)):
        return str(v)
    if isinstance(v, np.generic):
        v = v.item()
    if isinstance(v, bytes):
        return 'b:' + v.decode('ascii')
    if isinstance(v, float) and v != v:
        return 'nan'
    if hasattr(v, 'isoformat'):
        return v.isoformat()
    return v


def _py(v):
    if isinstance(v, np.generic):
        return v.item()
    if isinstance(v, tuple):
        return tuple(_py(x) for x in v)
    return v


def _eq(a, b):
    '''Python == on cells/labels, False on anything odd (arrays, NaN).'''
    try:
        return bool(a == b)
    except Exception:  # noqa
        return False


def col_array(values):
    '''A 1-D immutable array for one column; mixed classes stay object; a ready-made array (unsigned, datetime64, bytes ...) is kept.'''
    if isinstance(values, np.ndarray):
        a = values.copy()
        a.flags.writeable = False
        return a
    kinds = {type(v) for v in values}
    if kinds <= {int}:
        a = np.array(values, dtype=np.int64)
    elif kinds <= {bool}:
        a = np.array(values, dtype=bool)
    elif kinds <= {float} or kinds <= {float, int} and float in kinds:
        a = np.array(values, dtype=np.float64)
    elif kinds <= {str}:
        a = np.array(values, dtype=str) if values else np.array(values, dtype='<U1')
    else:
        a = np.empty(len(values), dtype=object)
        for i, v in enumerate(values):
            a[i] = v
    if not len(values) and a.dtype.kind == 'f' and not kinds:
        a = np.array(values, dtype=np.int64)
    a.flags.writeable = False
    return a


def build_frame(columns, cols, layout=None, index=None, name=None, index_names=None, cls=None):
    '''columns: labels; cols: list of python lists (one per column); layout from zoo (None: one block per column).'''
    import static_frame as sf
    arrays = [col_array(c) for c in cols]
    if layout is None:
        layout = tuple((1, False) for _ in arrays)
    if index is not None and len(index) and isinstance(index[0], tuple):
        index = sf.IndexHierarchy.from_labels(index, name=index_names)
    elif index is not None:
        index = sf.Index(index, name=index_names)
    return zoo.frame_from_columns(arrays, layout, index=index, columns=columns, name=name, cls=cls)


def pick_layout(rng, arrays_dtypes, exhaustive=False):
    lays = list(zoo.layouts_for(arrays_dtypes))
    return lays if exhaustive else rng.choice(lays)


def frame_rows(f):
    '''list of (label, [cells]) from a real Frame, through the public interface.'''
    labels = lit.labels(f.index)
    cols = [lit.array_vals(f.iloc[:, j].values) if f.shape[0] else [] for j in range(f.shape[1])]
    rows = [[c[i] for c in cols] for i in range(f.shape[0])]
    return labels, rows


# ----------------------------------------------------------------------------- join
JT = {'inner': 'JInner', 'left': 'JLeft', 'right': 'JRight', 'outer': 'JOuter'}
TEMPLATES = [('L{}', 'R{}'), ('{}_l', '{}_r'), ('{}', '{}'), ('{}', 'R{}')]


def _tmpl(t):
    pre, suf = t.split('{}')
    return f'({lit.s(pre)}, {lit.s(suf)})'


def key_of(label, row, columns, depth_level, key_columns):
    '''The key tuple arrays_from_index_frame extracts for one row: index depths first, then key columns.'''
    key = []
    if depth_level is not None:
        if isinstance(depth_level, int):
            key.append(label[depth_level] if isinstance(label, tuple) else label)
        else:
            key.extend(label[d] for d in depth_level)
    if key_columns is not None:
        ks = [key_columns] if not isinstance(key_columns, list) else key_columns
        for k in ks:
            key.append(row[columns.index(k)])
    return key


def trows_lit(labels, keys, rows):
    return lit.lst([f'(vt {lit.val(lab)} {lit.vlist(k)} {lit.vlist(r)})' for lab, k, r in zip(labels, keys, rows)])


def join_dom(jt, composite, llabels, lkeys, rlabels, rkeys):
    '''Is the input inside the class where the non-composite path is right (mirror of dom_single in Coq)?
    Returns (is_many, aligned).'''
    def m(a, b):
        return len(a) == len(b) and all(_eq(x, y) for x, y in zip(a, b))
    lm = [[j for j, rk in enumerate(rkeys) if m(lk, rk)] for lk in lkeys]
    rm = [[i for i, lk in enumerate(lkeys) if m(lk, rk)] for rk in rkeys]
    many = any(len(x) > 1 for x in lm) or any(len(x) > 1 for x in rm)
    if composite or many or jt == 'inner':
        return many, True
    c1 = all(_eq(llabels[i], rlabels[js[0]]) for i, js in enumerate(lm) if js)
    c2 = all(not any(_eq(llabels[i], x) for x in rlabels) for i, js in enumerate(lm) if not js)
    c3 = all(not any(_eq(rlabels[j], x) for x in llabels) for j, is_ in enumerate(rm) if not is_)
    # outer: the result labels are left_index.union(right_index); mixing int and float labels coerces them and the
    # label lookups back into the source indices (auto-integer fast path) then miss
    kinds = lambda labs: {('num-' + type(x).__name__) if isinstance(x, (int, float)) else 'other' for x in labs}
    c4 = not (llabels and rlabels and kinds(llabels) != kinds(rlabels) and (kinds(llabels) | kinds(rlabels)) <= {'num-int', 'num-float', 'num-bool'})
    ok = {'left': c2, 'right': c1 and c3, 'outer': c1 and c2 and c3 and c4}[jt]
    return many, (ok if jt != 'outer' or c4 else None)


def obs_join_lit(f):
    from static_frame.core.util import Pair
    idx = []
    for x in (f.index.values if f.index.depth == 1 else list(f.index)):
        if isinstance(x, Pair):
            idx.append(f'(ir {lit.val(_py(x[0]))} {lit.val(_py(x[1]))})')
        else:
            idx.append(f'(il {lit.val(_py(tuple(x)) if isinstance(x, (tuple, np.ndarray)) else _py(x))})')
    names = [lit.s(str(c)) for c in f.columns.values.tolist()]
    cols = [lit.vlist(lit.array_vals(f.iloc[:, j].values)) for j in range(f.shape[1])]
    return f'(vjf {lit.lst(idx)} {lit.lst(names)} {lit.lst(cols)})'


def join_case(ctx, stratum, jt, composite, spec_l, spec_r, kw, fill, templates, cifv=None, defaults=False, classes=(None, None), kw_real=None):
    '''spec_x = (columns, cols, layout, index); kw: left_depth_level/left_columns/right_depth_level/right_columns.'''
    lf = build_frame(spec_l[0], spec_l[1], spec_l[2], spec_l[3], cls=classes[0])
    rf = build_frame(spec_r[0], spec_r[1], spec_r[2], spec_r[3], cls=classes[1])
    llabels, lrows = frame_rows(lf)
    rlabels, rrows = frame_rows(rf)
    lkeys = [key_of(lab, row, list(spec_l[0]), kw.get('left_depth_level'), kw.get('left_columns')) for lab, row in zip(llabels, lrows)]
    rkeys = [key_of(lab, row, list(spec_r[0]), kw.get('right_depth_level'), kw.get('right_columns')) for lab, row in zip(rlabels, rrows)]
    call = dict(kw_real if kw_real is not None else kw, left_template=templates[0], right_template=templates[1], fill_value=fill, composite_index=composite)
    if cifv is not None:
        call['composite_index_fill_value'] = cifv
    if defaults:      # only the key selection is passed: every other keyword takes the default read from the source (Gen/Gen_c20.v)
        call = dict(kw)
        composite, fill, templates, cifv = True, NAN, ('{}', '{}'), None
    try:
        val = getattr(lf, 'join_' + jt)(rf, **call)
        out = f'(OkJ {obs_join_lit(val)})'
    except Exception as e:  # noqa
        val = e
        out = f'(ErrJ {lit.s(lit.err_class(e))})'
    many, aligned = join_dom(jt, composite, llabels, lkeys, rlabels, rkeys)
    comp_term = f'(gen_composite {lit.s("join_" + jt)})' if defaults else lit.b(composite)
    args = (f'{JT[jt]} @COMP@ {lit.val(cifv)} {lit.val(fill)} {_tmpl(templates[0])} {_tmpl(templates[1])} '
            f'{lit.lst([lit.s(str(c)) for c in spec_l[0]])} {lit.lst([lit.s(str(c)) for c in spec_r[0]])} '
            f'{trows_lit(llabels, lkeys, lrows)} {trows_lit(rlabels, rkeys, rrows)}')
    card = 'many' if many else 'one-to-one'
    ctx.count(f'join:{jt}', f'join:composite={composite}', f'join:card={card}', f'join:layout:{zoo.layout_str(zoo.layout_of(lf))}',
              f'join:fill={type(fill).__name__}', f'join:rows={len(llabels)}x{len(rlabels)}',
              'join:raised' if isinstance(val, Exception) else 'join:ok')
    tags = {'op': 'join', 'join_type': jt, 'composite': composite, 'card': card}
    if not aligned:
        tags['finding'] = F_JOIN
    args_s = args.replace('@COMP@', lit.b(composite))     # the spec side never reads the regenerated constants
    args = args.replace('@COMP@', comp_term)
    m_term = f'join_m_ok {args} {out}'
    # right cells are collected in a Python list per column and handed to FrameGO.__setitem__: next to bytes cells a
    # non-bytes fill value is coerced to bytes (NaN -> b'nan'); class decided from the input alone
    if jt in ('left', 'outer') and fill is not None and not isinstance(fill, bytes) and any(a.dtype.kind == 'S' for a in rf._blocks._blocks):
        tags['finding'] = F_JOIN_BYTES
        m_term = None
    if aligned is None:          # label coercion by the index union: not modelled
        m_term = None
        ctx.count('join:outer-noncomposite-mixed-label-kinds')
    desc = {'call': f'left.join_{jt}(right, **kw)', 'kw': {k: _j(v) for k, v in call.items()},
            'left': {'columns': _j(spec_l[0]), 'cols': _j(spec_l[1]), 'layout': zoo.layout_str(zoo.layout_of(lf)), 'index': _j(spec_l[3])},
            'right': {'columns': _j(spec_r[0]), 'cols': _j(spec_r[1]), 'layout': zoo.layout_str(zoo.layout_of(rf)), 'index': _j(spec_r[3])},
            'observed': (type(val).__name__ + ': ' + str(val)[:120]) if isinstance(val, Exception) else
                        {'index': _j([_py(tuple(x)) if isinstance(x, tuple) else _py(x) for x in val.index]), 'columns': _j(val.columns.values.tolist()),
                         'rows': _j([list(r) for r in val.iter_tuple(axis=1)])}}
    nontrivial = len(llabels) > 0 and len(rlabels) > 0
    return Case(stratum, desc, m=m_term, s=f'join_s_ok {args_s} {out}', tags=tags, nontrivial=nontrivial)


def join_exhaustive(ctx):
    '''Every key assignment of <= n rows per side over two key values, four join types, composite on/off,
    auto-integer indices on both sides (coinciding labels: the class of the label-lookup defect).'''
    n = 2 if ctx.tier == 'quick' else 3
    sides = [ks for k in range(0, n + 1) for ks in itertools.product((1, 2), repeat=k)]
    for lk, rk in itertools.product(sides, sides):
        spec_l = (('k', 'x'), [list(lk), [10 + i for i in range(len(lk))]], None, None)
        spec_r = (('k', 'y'), [list(rk), [20 + i for i in range(len(rk))]], None, None)
        for jt in JT:
            for composite in (True, False):
                yield join_case(ctx, 'api:join-exhaustive-keys', jt, composite, spec_l, spec_r,
                                {'left_columns': 'k', 'right_columns': 'k'}, None, ('L{}', 'R{}'))


def join_random(ctx):
    '''Random joins: 1-2 key fields taken from columns and/or index depths, repeated and unique keys, all block
    layouts, fills of other types, both templates, auto / labelled / overlapping / hierarchical indices.'''
    rng = ctx.rng
    for _ in range(ctx.n(250, 4000)):
        nl, nr = rng.randint(0, 4), rng.randint(0, 4)
        nkeys = rng.choice([1, 1, 2])
        pool = rng.choice([[1, 2], [1, 2, 3, 4, 5, 6], ['a', 'b', 'c'], [True, False], [0.5, 1.5, 2.5]])
        pool2 = rng.choice([['u', 'v'], [7, 8, 9]])

        def side(n, tag, data_names):
            cols, names = [], []
            names.append('k')
            cols.append([rng.choice(pool) for _ in range(n)])
            if nkeys == 2:
                names.append('j')
                cols.append([rng.choice(pool2) for _ in range(n)])
            for dn in data_names:
                kind = rng.choice(['int', 'str', 'bool', 'flt', 'mixed'])
                gen = {'int': lambda i: tag * 100 + i, 'str': lambda i: 'abcdefgh'[(i + tag) % 8] * (1 + i % 2), 'bool': lambda i: (i + tag) % 2 == 0,
                       'flt': lambda i: tag + i + 0.5, 'mixed': lambda i: [tag, 's', None, 2.5][i % 4]}[kind]
                names.append(dn)
                cols.append([gen(i) for i in range(n)])
            return names, cols
        lnames, lcols = side(nl, 1, rng.choice([['x'], ['x', 'w'], []]))
        rnames, rcols = side(nr, 2, rng.choice([['y'], ['y', 'z'], ['x'], []]))
        mode = rng.choice(['columns', 'columns', 'columns', 'depth', 'hier-depth', 'mixed'])
        composite = rng.random() < 0.6
        kw = {}
        lindex = rindex = None
        labels_kind = rng.choice(['auto', 'disjoint', 'overlap', 'same'])
        if mode == 'columns':
            kcols = ['k', 'j'][:nkeys]
            kw = {'left_columns': kcols if nkeys > 1 or rng.random() < 0.3 else 'k', 'right_columns': kcols if nkeys > 1 else 'k'}
            if labels_kind == 'disjoint':
                lindex, rindex = list('pqrs')[:nl], list('wxyz')[:nr]
            elif labels_kind == 'overlap':
                lindex, rindex = list('pqrs')[:nl], rng.sample(list('pqsuv'), 5)[:nr]
            elif labels_kind == 'same':
                lindex, rindex = list('pqrs')[:nl], list('pqrs')[:nr]
            if rng.random() < 0.15 and composite and nl:
                lindex = [('a', 1), ('a', 2), ('b', 1), ('b', 2)][:nl]
        elif mode == 'depth':
            # key = the index labels themselves: unique per side, so the relation is one-to-one
            lindex = list(dict.fromkeys(rng.sample(pool * 3, len(pool) * 3)))[:nl]
            rindex = list(dict.fromkeys(rng.sample(pool * 3, len(pool) * 3)))[:nr]
            if len(lindex) < nl or len(rindex) < nr or any(isinstance(x, bool) for x in lindex + rindex):
                continue
            kw = {'left_depth_level': 0, 'right_depth_level': 0}
        elif mode == 'hier-depth':
            tree = [('a', 1), ('a', 2), ('b', 1), ('b', 2), ('c', 1)]
            lindex, rindex = tree[:nl], rng.choice([tree[:nr], tree[1:1 + nr], [('a', 2), ('b', 2), ('c', 1), ('c', 2)][:nr]])
            if not nl or not nr or len(rindex) < nr:
                continue
            dl = rng.choice([0, 1, [0, 1]])
            kw = {'left_depth_level': dl, 'right_depth_level': dl}
            if not composite and rng.random() < 0.7:
                composite = True
        else:
            # index depth 0 on the left against a column on the right
            lindex = list(dict.fromkeys(rng.sample(pool * 3, len(pool) * 3)))[:nl]
            if len(lindex) < nl or any(isinstance(x, bool) for x in lindex):
                continue
            kw = {'left_depth_level': 0, 'right_columns': 'k'}
            if labels_kind != 'auto':
                rindex = list('wxyz')[:nr]
        ltup = bool(lindex) and isinstance(lindex[0], tuple)
        rtup = bool(rindex) and isinstance(rindex[0], tuple)
        if not composite and ltup != rtup:
            composite = True
        if (lindex is not None and len(lindex) != nl) or (rindex is not None and len(rindex) != nr):
            continue
        if lindex is not None and not lindex:
            lindex = None
        if rindex is not None and not rindex:
            rindex = None
        llay = pick_layout(rng, [col_array(c).dtype for c in lcols])
        rlay = pick_layout(rng, [col_array(c).dtype for c in rcols])
        fill = rng.choice([NAN, None, -1, 'F', 0.5, False])
        templates = rng.choice(TEMPLATES)
        jt = rng.choice(list(JT))
        try:
            yield join_case(ctx, 'api:join-random', jt, composite, (tuple(lnames), lcols, llay, lindex), (tuple(rnames), rcols, rlay, rindex),
                            kw, fill, templates, cifv=rng.choice([None, None, None, 'NA', -1]))
        except ValueError:   # a value outside the literal printer
            ctx.count('join:skipped-literal')


def join_defaults(ctx):
    """Joins called with the key selection only; the model takes composite_index from the regenerated defaults."""
    rng = ctx.rng
    for _ in range(ctx.n(24, 300)):
        nl, nr = rng.randint(1, 4), rng.randint(1, 4)
        lcols = [[rng.choice('abc') for _ in range(nl)], [10 + i for i in range(nl)]]
        rcols = [[rng.choice('abd') for _ in range(nr)], [20 + i for i in range(nr)]]
        yield join_case(ctx, 'api:join-defaults', rng.choice(list(JT)), True, (('k', 'x'), lcols, None, None), (('kk', 'y'), rcols, None, rng.choice([None, list('wxyz')[:nr]])),
                        {'left_columns': 'k', 'right_columns': 'kk'}, NAN, ('{}', '{}'), defaults=True)


def join_key_order(ctx):
    '''Joins on 2 and 3 key fields where the i-th NAMED left key column must pair with the i-th NAMED right key column:
    the columns are STORED in a permuted order, independently per side, and left_columns / right_columns are given in
    orders that are permutations of the positional order, independently per side.  All key columns draw from the same
    small domain, so pairing by position instead of by name loses real matches AND creates false ones.'''
    rng = ctx.rng
    exhaustive = ctx.tier != 'quick'
    for nk in (2, 3):
        knames = ['year', 'month', 'day'][:nk]
        perms = list(itertools.permutations(range(nk)))
        combos = list(itertools.product(perms, perms, perms, perms))     # storage L, storage R, named order L, named order R
        if nk == 3 or not exhaustive:
            combos = rng.sample(combos, min(len(combos), ctx.n(16 if nk == 2 else 24, 200)))
        for sl, sr, ol, orr in combos:
            for jt in JT:
                nl, nr = rng.randint(2, 4), rng.randint(2, 4)
                lrows = [[rng.choice((1, 2)) for _ in range(nk)] for _ in range(nl)]
                # make sure some right rows really match a left row under the NAMED pairing (ol[i] <-> orr[i])
                rrows = []
                for _ in range(nr):
                    if rng.random() < 0.6:
                        src = rng.choice(lrows)
                        row = [None] * nk
                        for i in range(nk):
                            row[orr[i]] = src[ol[i]]
                        rrows.append(row)
                    else:
                        rrows.append([rng.choice((1, 2)) for _ in range(nk)])
                # stored column order: key columns permuted, the data column at a random place
                def stored(rows, perm, dname, base, n):
                    names = [knames[k] for k in perm]
                    cols = [[r[k] for r in rows] for k in perm]
                    at = rng.randint(0, nk)
                    names.insert(at, dname)
                    cols.insert(at, [base + i for i in range(n)])
                    return names, cols
                lnames, lcols = stored(lrows, sl, 'x', 100, nl)
                rnames, rcols = stored(rrows, sr, 'y', 200, nr)
                kw = {'left_columns': [knames[k] for k in ol], 'right_columns': [knames[k] for k in orr]}
                composite = rng.random() < 0.8
                llay = pick_layout(rng, [col_array(c).dtype for c in lcols])
                rlay = pick_layout(rng, [col_array(c).dtype for c in rcols])
                positional_l = [lnames.index(k) for k in kw['left_columns']]
                positional_r = [rnames.index(k) for k in kw['right_columns']]
                ctx.count(f'join:keyorder:nk={nk}',
                          'join:keyorder:named-order-differs-from-position' if positional_l != sorted(positional_l) or positional_r != sorted(positional_r)
                          else 'join:keyorder:named-order-is-positional',
                          'join:keyorder:sides-permuted-differently' if [sorted(positional_l).index(p) for p in positional_l] != [sorted(positional_r).index(p) for p in positional_r]
                          else 'join:keyorder:sides-permuted-alike')
                yield join_case(ctx, 'api:join-key-order', jt, composite, (tuple(lnames), lcols, llay, None),
                                (tuple(rnames), rcols, rlay, rng.choice([None, list('wxyz')[:nr]])), kw, rng.choice([None, -1, NAN]), ('L{}', 'R{}'))


def join_layouts(ctx):
    '''One many-to-many join and one inner join through EVERY block layout of both sides.'''
    lcols = [[1, 2, 1, 3], [10, 11, 12, 13], [5, 6, 7, 8], ['a', 'b', 'c', 'd']]
    rcols = [[1, 1, 4, 2], [20, 21, 22, 23], ['p', 'q', 'r', 's']]
    llays = list(zoo.layouts_for([col_array(c).dtype for c in lcols]))
    rlays = list(zoo.layouts_for([col_array(c).dtype for c in rcols]))
    if ctx.tier == 'quick':
        rlays = rlays[::3]
    for llay in llays:
        for rlay in rlays:
            for jt in ('outer', 'inner'):
                yield join_case(ctx, 'api:join-all-layouts', jt, True, (('k', 'x', 'w', 's'), lcols, llay, None), (('k', 'y', 't'), rcols, rlay, list('wxyz')),
                                {'left_columns': 'k', 'right_columns': 'k'}, NAN, ('{}', 'R{}'))


# ----------------------------------------------------------------------------- shifts / set_index
def lframe_lit(f, axis=0):
    '''The frame as named columns: index depths and data columns (axis 1: the transposed reading).'''
    if axis == 1:
        f = f.transpose()
    n = len(f.index)
    ix = f.index
    if ix.depth == 1:                      # Index.names stringifies; take the name objects themselves
        names = [ix.name if ix.name is not None else '__index0__']
    elif isinstance(ix.name, tuple) and len(ix.name) == ix.depth:
        names = list(ix.name)
    else:
        names = list(ix.names)
    levels = [(names[d], lit.array_vals(f.index.values_at_depth(d))) for d in range(f.index.depth)]
    labels = lit.labels(f.columns)
    cols = [(labels[j], lit.array_vals(f.iloc[:, j].values) if n else []) for j in range(f.shape[1])]
    enc = lambda cs: lit.lst([f'({lit.val(_py(nm))}, {lit.vlist(vs)})' for nm, vs in cs])
    return f'(vlf {n} {enc(levels)} {enc(cols)})', {'index_names': _j(names), 'index': _j(lit.labels(f.index)), 'columns': _j(labels),
                                                           'cols': _j([vs for _, vs in cols])}


def op_lit(op):
    kind = op[0]
    if kind == 'shift_in':
        return f'(OpShiftIn {lit.vlist(op[1])})'
    if kind == 'shift_out':
        return f'(OpShiftOut {lit.lst([str(int(d)) + "%nat" for d in op[1]])})'
    if kind == 'set_index':
        return f'(OpSetIndex {lit.vlist(op[1])} {lit.b(op[2])})'
    return f'(OpUnset {lit.vlist(op[1])})'


def apply_op(f, op, axis=0):
    kind = op[0]
    if kind == 'shift_in':
        key = op[1] if len(op[1]) > 1 or op[2] else op[1][0]
        return f.relabel_shift_in(key, axis=axis)
    if kind == 'shift_out':
        key = list(op[1]) if len(op[1]) > 1 or op[2] else op[1][0]
        return f.relabel_shift_out(key, axis=axis)
    if kind == 'set_index':
        if len(op[1]) == 1 and not op[3]:
            return f.set_index(op[1][0], drop=op[2])
        return f.set_index_hierarchy(tuple(op[1]) if op[3] == 'tuple' else list(op[1]), drop=op[2])
    return f.unset_index(names=tuple(op[1]))


def shop_case(ctx, stratum, f, op, axis=0, extra=None, call=None, finding=None):
    '''One operation on a real frame; returns (case, result frame or None).'''
    tlit, tdesc = lframe_lit(f, axis)
    try:
        g = call(f) if call is not None else apply_op(f, op, axis)
        out = f'(OkL {lframe_lit(g, axis)[0]})'
        odesc = lframe_lit(g, axis)[1]
    except Exception as e:  # noqa
        g = None
        out = f'(ErrL {lit.s(lit.err_class(e))})'
        odesc = type(e).__name__ + ': ' + str(e)[:100]
    ctx.count(f'shift:{op[0]}', f'shift:axis={axis}', f'shift:index-depth={f.index.depth if axis == 0 else f.columns.depth}',
              f'shift:layout:{zoo.layout_str(zoo.layout_of(f))}', 'shift:raised' if g is None else 'shift:ok')
    desc = {'call': op[0], 'args': _j(list(op[1:])), 'axis': axis, 'frame': tdesc, 'layout': zoo.layout_str(zoo.layout_of(f)), 'observed': odesc}
    if extra:
        desc.update(extra)
    c = Case(stratum, desc, m=f'shop_m_ok {op_lit(op)} {tlit} {out}', s=f'shop_s_ok {op_lit(op)} {tlit} {out}',
             tags=dict({'op': op[0], 'axis': axis}, **({'finding': finding} if finding else {})), nontrivial=f.shape[0] > 0 and f.shape[1] > 0)
    return c, g


def roundtrip_case(ctx, stratum, f, g, what, axis=0):
    tlit, tdesc = lframe_lit(f, axis)
    olit, odesc = lframe_lit(g, axis)
    ctx.count(f'roundtrip:{what}')
    return Case(stratum, {'roundtrip': what, 'frame': tdesc, 'layout': zoo.layout_str(zoo.layout_of(f)), 'observed': odesc},
                s=f'roundtrip_cells_ok {tlit} {olit}', tags={'op': 'roundtrip', 'what': what})


SHIFT_COLS = (('k', ['a', 'a', 'b', 'c']), ('j', [1, 3, 2, 2]), ('x', [5, 6, 7, 8]), ('y', [True, False, True, True]), ('u', [4, 3, 2, 1]))


def shift_frames(ctx, ncols, exhaustive):
    '''Frames over the first ncols SHIFT_COLS in every (or a random) layout, with auto / named / hierarchical index.'''
    names = [c[0] for c in SHIFT_COLS[:ncols]]
    cols = [c[1] for c in SHIFT_COLS[:ncols]]
    lays = list(zoo.layouts_for([col_array(c).dtype for c in cols]))
    if not exhaustive:
        lays = [ctx.rng.choice(lays) for _ in range(3)]
    for lay in lays:
        for index, iname in ((None, None), (['p', 'q', 'r', 's'], 'ix'), ([('m', 1), ('m', 2), ('n', 1), ('n', 2)], ('g', 'h'))):
            yield build_frame(tuple(names), cols, lay, index, index_names=iname), names


def shift_cases(ctx):
    exhaustive = ctx.tier != 'quick'
    for f, names in shift_frames(ctx, 4, exhaustive):
        depth = f.index.depth
        keysets = [[a] for a in names] + [[a, b] for a in names for b in names if a != b]
        if not exhaustive:
            keysets = ctx.rng.sample(keysets, 6)
        for keys in keysets:
            c, g = shop_case(ctx, 'api:relabel_shift_in', f, ('shift_in', keys, ctx.rng.random() < 0.5))
            yield c
            if g is None:
                continue
            # back out: the new depths (round trip), then other depth selections
            back = list(range(depth, depth + len(keys)))
            c2, h = shop_case(ctx, 'api:relabel_shift_out', g, ('shift_out', back, False))
            yield c2
            if h is not None:
                yield roundtrip_case(ctx, 'api:roundtrip-shift', f, h, 'shift_in;shift_out')
            others = [[0], [depth + len(keys) - 1, 0], list(range(depth + len(keys)))]
            for ds in (others if exhaustive else [ctx.rng.choice(others)]):
                c3, _ = shop_case(ctx, 'api:relabel_shift_out', g, ('shift_out', ds, True))
                yield c3
        c4, _ = shop_case(ctx, 'api:relabel_shift_out', f, ('shift_out', [0], False))
        yield c4
        yield shop_case(ctx, 'api:relabel_shift_in', f, ('shift_in', ['zz'], False))[0]      # malformed: absent key
        yield shop_case(ctx, 'api:relabel_shift_out', f, ('shift_out', [depth + 2], False))[0]   # malformed: depth out of range
    # axis 1: rows move into the column labels
    for f, names in shift_frames(ctx, 3, exhaustive):
        if f.index.depth > 1 or f.index.name is None:     # Index.names stringifies non-string names: string row labels only
            continue
        rows = lit.labels(f.index)
        for keys in ([rows[0]], [rows[2], rows[1]]):
            c, g = shop_case(ctx, 'api:relabel_shift_in-axis1', f, ('shift_in', keys, False), axis=1)
            yield c
            if g is not None:
                c2, h = shop_case(ctx, 'api:relabel_shift_out-axis1', g, ('shift_out', list(range(1, 1 + len(keys))), False), axis=1)
                yield c2
                if h is not None:
                    yield roundtrip_case(ctx, 'api:roundtrip-shift', f, h, 'shift_in;shift_out axis=1', axis=1)


def set_index_cases(ctx):
    exhaustive = ctx.tier != 'quick'
    for f, names in shift_frames(ctx, 5, exhaustive):
        for key in names:                      # 'k' and 'j' hold repeated values: set_index must refuse
            for drop in (True, False):
                c, g = shop_case(ctx, 'api:set_index', f, ('set_index', [key], drop, None))
                yield c
                if g is not None:
                    c2, h = shop_case(ctx, 'api:unset_index', g, ('unset', []))
                    yield c2
                    if h is not None and drop:
                        yield roundtrip_case(ctx, 'api:roundtrip-set-unset', f, h, 'set_index;unset_index')
                    yield shop_case(ctx, 'api:unset_index', g, ('unset', ['Q']))[0]
                    yield shop_case(ctx, 'api:unset_index', g, ('unset', ['x']))[0]     # may collide with a column
        pairs = [['k', 'j'], ['k', 'x'], ['j', 'k'], ['x', 'u'], ['k', 'j', 'x'], ['y', 'x'], ['k', 'y']]
        for keys in (pairs if exhaustive else ctx.rng.sample(pairs, 3)):
            for drop in (True, False):
                c, g = shop_case(ctx, 'api:set_index_hierarchy', f, ('set_index', keys, drop, ctx.rng.choice(['tuple', 'list'])))
                yield c
                if g is not None:
                    c2, h = shop_case(ctx, 'api:unset_index', g, ('unset', []))
                    yield c2
                    if h is not None and drop:
                        yield roundtrip_case(ctx, 'api:roundtrip-set-unset', f, h, 'set_index_hierarchy;unset_index')
        yield shop_case(ctx, 'api:unset_index', f, ('unset', []))[0]
        yield shop_case(ctx, 'api:set_index', f, ('set_index', ['zz'], True, None))[0]


# ----------------------------------------------------------------------------- pivot_stack / pivot_unstack


def _tup(label):
    return tuple(_py(x) for x in label) if isinstance(label, (tuple, list, np.ndarray)) else (_py(label),)


def _tl(t):
    return lit.vlist(list(t))


def split_label(label, mask):
    g = tuple(x for x, m in zip(label, mask) if not m)
    t = tuple(x for x, m in zip(label, mask) if m)
    return g, t


def depth_mask(depth, depth_level):
    mask = [False] * depth
    for d in ([depth_level] if isinstance(depth_level, int) else depth_level):
        mask[d] = True          # Python indexing: negative depths count from the end
    return mask


def frame_parts(f):
    rows = [_tup(x) for x in lit.labels(f.index)]
    cols = [_tup(x) for x in lit.labels(f.columns)]
    cells = [[_py(v) if not isinstance(v, np.generic) else v for v in (lit.array_vals(f.iloc[i].values) if f.shape[1] else [])] for i in range(f.shape[0])]
    # f.iloc[i].values coerces a row to one dtype; read by column instead
    colvals = [lit.array_vals(f.iloc[:, j].values) for j in range(f.shape[1])]
    cells = [[colvals[j][i] for j in range(f.shape[1])] for i in range(f.shape[0])]
    return rows, cols, cells


def sframe_lit(rows, cols, cells, split=None):
    pr = lambda x: f'({_tl(x[0])}, {_tl(x[1])})'
    rl = lit.lst([pr(r) if split == 'rows' else _tl(r) for r in rows])
    cl = lit.lst([pr(c) if split == 'cols' else _tl(c) for c in cols])
    ctor = {None: 'vsf', 'cols': 'vsf_c', 'rows': 'vsf_r'}[split]
    return f'({ctor} {rl} {cl} {lit.lst([lit.vlist(r) for r in cells])})'


def obs_sframe(fn):
    try:
        g = fn()
    except Exception as e:  # noqa
        return f'(ErrS {lit.s(lit.err_class(e))})', e
    return f'(OkS {sframe_lit(*frame_parts(g))})', g


def fdesc(f):
    rows, cols, cells = frame_parts(f)
    return {'index': _j(rows), 'columns': _j(cols), 'rows': _j(cells), 'layout': zoo.layout_str(zoo.layout_of(f))}


def cast_fill(fill, dtype):
    '''np.array([fill], dtype=dtype)[0] as the implementation would see it, or the exception class.'''
    try:
        a = np.array([fill], dtype=dtype)
    except Exception as e:  # noqa
        return e
    return lit.array_vals(a)[0]


def same_value(a, b):
    if isinstance(a, float) and isinstance(b, float) and a != a and b != b:
        return True
    if a is None or b is None:
        return a is b
    return type(a) in (type(b), ) and _eq(a, b) or (isinstance(a, (int, float, bool)) and isinstance(b, (int, float, bool)) and _eq(a, b))


def tree_ordered(labels):
    """What IndexHierarchy.from_labels accepts: at every depth, equal prefixes are contiguous."""
    if not labels or len(labels[0]) < 2:
        return True
    for d in range(1, len(labels[0])):
        seen, last = set(), None
        for lab in labels:
            p = lab[:d]
            if p != last:
                if p in seen:
                    return False
                seen.add(p)
                last = p
    return True


def stack_case(ctx, f, depth_level, fill):
    rows, cols, cells = frame_parts(f)
    mask = depth_mask(f.columns.depth, depth_level)
    split_cols = [split_label(c, mask) for c in cols]
    if not tree_ordered(list(dict.fromkeys(g_ for g_, _ in split_cols))) or not tree_ordered(list(dict.fromkeys(t for _, t in split_cols))):
        ctx.count('stack:skipped-nontree-groups')   # remaining column depths not tree-ordered: IndexHierarchy cannot hold them (outside this property)
        return None, None, None
    arg = sframe_lit(rows, split_cols, cells, split='cols')
    out, g = obs_sframe(lambda: f.pivot_stack(depth_level, fill_value=fill))
    ctx.count('stack', f'stack:cols-depth={f.columns.depth}', f'stack:index-depth={f.index.depth}', f'stack:targets={sum(mask)}',
              f'stack:fill={type(fill).__name__}', f'stack:layout:{zoo.layout_str(zoo.layout_of(f))}', 'stack:raised' if isinstance(g, Exception) else 'stack:ok')
    desc = {'call': 'f.pivot_stack(depth_level, fill_value=fill)', 'depth_level': _j(depth_level), 'fill': _j(fill), 'frame': fdesc(f),
            'observed': (type(g).__name__ + ': ' + str(g)[:100]) if isinstance(g, Exception) else fdesc(g)}
    ragged = len(set(split_cols)) < len({g_ for g_, _ in split_cols}) * len({t for _, t in split_cols})
    c = Case('api:pivot_stack', desc, m=f'stack_m_ok {lit.val(fill)} {arg} {out}', s=f'stack_s_ok {lit.val(fill)} {arg} {out}',
             tags={'op': 'pivot_stack', 'ragged': ragged}, nontrivial=len(cols) > 1)
    return c, (None if isinstance(g, Exception) else g), arg


def unstack_case(ctx, f, depth_level, fill, stratum='api:pivot_unstack'):
    rows, cols, cells = frame_parts(f)
    mask = depth_mask(f.index.depth, depth_level)
    split_rows = [split_label(r, mask) for r in rows]
    if not tree_ordered(list(dict.fromkeys(g_ for g_, _ in split_rows))) or not tree_ordered(list(dict.fromkeys(t for _, t in split_rows))):
        ctx.count('unstack:skipped-nontree-groups')
        return None, None
    arg = sframe_lit(split_rows, cols, cells, split='rows')
    casts = [cast_fill(fill, dt) for dt in f.dtypes.values]
    cl = lit.lst([f'(Err {lit.s(lit.err_class(c))})' if isinstance(c, Exception) else f'(Ok {lit.val(c)})' for c in casts])
    out, g = obs_sframe(lambda: f.pivot_unstack(depth_level, fill_value=fill))
    # (repaired by /repo 8198989: a target missing under a group that is not the last one used to get the fill value
    #  cast into the source dtype; those inputs are counted so that the regression stays exercised)
    groups = list(dict.fromkeys(g_ for g_, _ in split_rows))
    have = {g_: {t for gg, t in split_rows if gg == g_} for g_ in groups}
    hole_before_last = bool(groups) and any(t in have[groups[-1]] and any(t not in have[g_] for g_ in groups[:-1]) for t in {t for _, t in split_rows})
    lossy = any(isinstance(c, Exception) or not same_value(c, fill) for c in casts)
    tags = {'op': 'pivot_unstack', 'ragged': len(set(split_rows)) < len(groups) * len({t for _, t in split_rows})}
    if hole_before_last and lossy:
        ctx.count('unstack:regression-fill-not-castable-hole-before-last-group')
    ctx.count('unstack', f'unstack:index-depth={f.index.depth}', f'unstack:targets={sum(mask)}', f'unstack:fill={type(fill).__name__}',
              f'unstack:layout:{zoo.layout_str(zoo.layout_of(f))}', 'unstack:raised' if isinstance(g, Exception) else 'unstack:ok',
              'unstack:ragged' if tags['ragged'] else 'unstack:full')
    desc = {'call': 'f.pivot_unstack(depth_level, fill_value=fill)', 'depth_level': _j(depth_level), 'fill': _j(fill), 'frame': fdesc(f),
            'observed': (type(g).__name__ + ': ' + str(g)[:100]) if isinstance(g, Exception) else fdesc(g)}
    c = Case(stratum, desc, m=f'unstack_m_ok {lit.val(fill)} {cl} {arg} {out}', s=f'unstack_s_ok {lit.val(fill)} {arg} {out}',
             tags=tags, nontrivial=len(rows) > 1)
    return c, (None if isinstance(g, Exception) else g)


STACK_COLUMNS = {
    'flat3': ['a', 'b', 'c'],
    'rect': [('a', 1), ('a', 2), ('b', 1), ('b', 2)],
    'ragged': [('a', 1), ('a', 2), ('b', 1), ('b', 3)],
    'ragged2': [('a', 2), ('b', 1), ('b', 2)],
    'deep': [('a', 1, 'x'), ('a', 1, 'y'), ('a', 2, 'x'), ('b', 1, 'x')],
}
STACK_INDEX = {'flat': ['p', 'q'], 'auto': None, 'hier': [('m', 1), ('m', 2), ('n', 1)], 'one': ['p']}
FILLS = [NAN, -1, None, 'F', 0.5, False]


def stack_frames(ctx, exhaustive):
    rng = ctx.rng
    for cname, clabels in STACK_COLUMNS.items():
        for iname, ilabels in STACK_INDEX.items():
            n = len(ilabels) if ilabels else 2
            kinds = rng.choice([['int'] * len(clabels), ['int', 'int', 'str', 'str'][:len(clabels)], ['flt', 'int', 'bool', 'int'][:len(clabels)]])
            cols = []
            for j, k in enumerate(kinds):
                base = 10 * (j + 1)
                cols.append({'int': [base + i for i in range(n)], 'str': ['abcdef'[(i + j) % 6] for i in range(n)], 'flt': [base + i + 0.5 for i in range(n)],
                             'bool': [(i + j) % 2 == 0 for i in range(n)]}[k])
            lays = list(zoo.layouts_for([col_array(c).dtype for c in cols]))
            for lay in (lays if exhaustive and cname in ('flat3', 'ragged') else [rng.choice(lays)]):
                import static_frame as sf
                columns = sf.IndexHierarchy.from_labels(clabels) if isinstance(clabels[0], tuple) else sf.Index(clabels)
                index = None if ilabels is None else (sf.IndexHierarchy.from_labels(ilabels) if isinstance(ilabels[0], tuple) else sf.Index(ilabels))
                yield zoo.frame_from_columns([col_array(c) for c in cols], lay, index=index, columns=columns, name='nm')


def stack_cases(ctx):
    exhaustive = ctx.tier != 'quick'
    rng = ctx.rng
    for f in stack_frames(ctx, exhaustive):
        cd, idp = f.columns.depth, f.index.depth
        levels = [-1] + list(range(cd)) + ([[0, 1]] if cd > 1 else []) + ([[0, 2], [1, 2], [0, 1, 2]] if cd > 2 else [])
        for dl in (levels if exhaustive else rng.sample(levels, min(2, len(levels)))):
            for fill in (FILLS if exhaustive else rng.sample(FILLS, 2)):
                try:
                    c, g, arg = stack_case(ctx, f, dl, fill)
                except ValueError:
                    ctx.count('stack:skipped-literal')
                    continue
                if c is None:
                    continue
                yield c
                if g is None:
                    continue
                # and back: the depths that pivot_stack appended to the index
                nt = sum(depth_mask(cd, dl))
                back = list(range(idp, idp + nt))
                c2, h = unstack_case(ctx, g, back if len(back) > 1 else back[0], fill, stratum='api:pivot_unstack-of-stack')
                if c2 is not None:
                    yield c2
                if h is not None:
                    ctx.count('roundtrip:stack;unstack')
                    yield Case('api:roundtrip-stack-unstack', {'roundtrip': 'pivot_stack(d);pivot_unstack(new depths)', 'depth_level': _j(dl), 'fill': _j(fill),
                                                                'frame': fdesc(f), 'observed': fdesc(h)},
                               s=f'stack_roundtrip_ok {lit.val(fill)} {arg} {sframe_lit(*frame_parts(h))}', tags={'op': 'roundtrip', 'what': 'stack;unstack'})


UNSTACK_INDEX = {
    'rect': [('p', 'x'), ('p', 'y'), ('q', 'x'), ('q', 'y')],
    'hole-last': [('p', 'x'), ('p', 'y'), ('q', 'x')],
    'hole-first': [('p', 'x'), ('q', 'x'), ('q', 'y')],
    'hole-middle': [('p', 'x'), ('p', 'y'), ('q', 'y'), ('r', 'x'), ('r', 'y')],
    'deep': [('p', 1, 'x'), ('p', 1, 'y'), ('p', 2, 'x'), ('q', 1, 'y')],
    'flat': ['p', 'q', 'r'],
}


def unstack_regression(ctx):
    '''The former witness of C20-unstack-fill-cast-to-source-dtype (fixed: /repo 8198989): the spec is the correct behaviour.'''
    import static_frame as sf
    for fill in (0.5, NAN, 'F', None):
        for cols, dt in (([[1, 2, 3]], 'int'), ([['a', 'b', 'c']], 'str'), ([[True, False, True]], 'bool')):
            f = zoo.frame_from_columns([col_array(c) for c in cols], ((1, False),), index=sf.IndexHierarchy.from_labels([('p', 'x'), ('q', 'x'), ('q', 'y')]),
                                       columns=sf.Index(['v']))
            c, _ = unstack_case(ctx, f, 1, fill, stratum='regression:unstack-fill-in-non-last-group')
            yield c


def unstack_cases(ctx):
    import static_frame as sf
    exhaustive = ctx.tier != 'quick'
    rng = ctx.rng
    for iname, ilabels in UNSTACK_INDEX.items():
        n = len(ilabels)
        colsets = [(['v'], [[10 + i for i in range(n)]]),
                   (['v', 'w'], [[10 + i for i in range(n)], ['abcdef'[i % 6] for i in range(n)]]),
                   (['v', 'w', 'z'], [[i + 0.5 for i in range(n)], [i % 2 == 0 for i in range(n)], [20 + i for i in range(n)]]),
                   ([('c', 1), ('c', 2)], [[10 + i for i in range(n)], [30 + i for i in range(n)]])]
        for clabels, cols in colsets:
            lays = list(zoo.layouts_for([col_array(c).dtype for c in cols]))
            for lay in (lays if exhaustive else [rng.choice(lays)]):
                columns = sf.IndexHierarchy.from_labels(clabels) if isinstance(clabels[0], tuple) else sf.Index(clabels)
                index = sf.IndexHierarchy.from_labels(ilabels) if isinstance(ilabels[0], tuple) else sf.Index(ilabels)
                f = zoo.frame_from_columns([col_array(c) for c in cols], lay, index=index, columns=columns)
                d = f.index.depth
                levels = [-1] + list(range(d)) + ([[0, 1]] if d > 1 else []) + ([[1, 2], [0, 2]] if d > 2 else [])
                for dl in (levels if exhaustive else rng.sample(levels, min(2, len(levels)))):
                    for fill in (FILLS if exhaustive else rng.sample(FILLS, 3)):
                        try:
                            c, g = unstack_case(ctx, f, dl, fill)
                        except ValueError:
                            ctx.count('unstack:skipped-literal')
                            continue
                        if c is not None:
                            yield c


# ----------------------------------------------------------------------------- pivot
F_PIVOT_SINGLE = 'C20-pivot-singleton-group-func-skipped'
F_PIVOT_MIXED = 'C20-pivot-index-fields-mixed-dtype-unordered'

AGG = {
    'sum': ('ASum', lambda a: a.sum()),
    'nansum': ('ASum', None),                 # the default func (np.nansum)
    'min': ('AMin', lambda a: a.min()),
    'max': ('AMax', lambda a: a.max()),
    'len': ('ALen', len),
    'first': ('AFirst', lambda a: a[0]),
    'last': ('ALast', lambda a: a[-1]),
    'sum2': ('ASumTwice', lambda a: a.sum() * 2),
}
NOT_IDEMPOTENT = {'len', 'sum2'}            # f([v]) != v


def pivot_case(ctx, stratum, names, cols, layout, index_fields, columns_fields, data_fields, funcs, fill, extra_tags=None, omit_data=False, cls=None):
    '''funcs: list of AGG names; one name = a single callable, several = a function map {name: callable}.'''
    f = build_frame(tuple(names), cols, layout, None, cls=cls)
    n = len(cols[0]) if cols else 0
    colvals = [lit.array_vals(col_array(c)) for c in cols]
    col = lambda nm: colvals[names.index(nm)]
    rows = [(tuple(col(x)[r] for x in index_fields), tuple(col(x)[r] for x in columns_fields), [col(x)[r] for x in data_fields]) for r in range(n)]
    single = len(funcs) == 1
    func = (AGG[funcs[0]][1] if single else {nm: (AGG[nm][1] or np.nansum) for nm in funcs})
    kw = {'func': func, 'fill_value': fill}
    ifld = index_fields if len(index_fields) > 1 else index_fields[0]
    cfld = tuple(columns_fields) if len(columns_fields) > 1 else (columns_fields[0] if columns_fields else ())
    dfld = data_fields if len(data_fields) > 1 else data_fields[0]
    out, g = obs_sframe((lambda: f.pivot(ifld, cfld, **kw)) if omit_data else (lambda: f.pivot(ifld, cfld, dfld, **kw)))
    if omit_data:
        ctx.count('pivot:data-fields-omitted')
    if cls is not None:
        ctx.count(f'pivot:class={cls.__name__}')
    show_d = len(data_fields) > 1 or not columns_fields
    show_f = not single
    rows_lit = lit.lst([f'(vpr {_tl(i)} {_tl(c)} {lit.vlist(d)})' for i, c, d in rows])
    funcs_lit = lit.lst([f'({lit.val("" if single else nm)}, {AGG[nm][0]})' for nm in funcs])
    args = (f'{lit.b(bool(columns_fields))} {lit.val(fill)} {lit.b(show_d)} {lit.b(show_f)} {lit.vlist(list(data_fields))} '
            f'{funcs_lit} {rows_lit}')
    groups = {}
    for i, c, d in rows:
        groups[(i, c)] = groups.get((i, c), 0) + 1
    has_single = any(v == 1 for v in groups.values())
    has_multi = any(v > 1 for v in groups.values())
    tags = {'op': 'pivot', 'func': '+'.join(funcs)}
    if has_single and any(nm in NOT_IDEMPOTENT for nm in funcs):
        tags['finding'] = F_PIVOT_SINGLE
    if extra_tags:
        tags.update(extra_tags)
    ctx.count('pivot', f'pivot:index-fields={len(index_fields)}', f'pivot:columns-fields={len(columns_fields)}', f'pivot:data-fields={len(data_fields)}',
              f'pivot:funcs={len(funcs)}', f'pivot:fill={type(fill).__name__}', f'pivot:layout:{zoo.layout_str(zoo.layout_of(f))}',
              'pivot:repeated-pairs' if has_multi else 'pivot:unique-pairs', 'pivot:raised' if isinstance(g, Exception) else 'pivot:ok')
    desc = {'call': 'f.pivot(index_fields, columns_fields, data_fields, func=..., fill_value=fill)', 'index_fields': index_fields, 'columns_fields': columns_fields,
            'data_fields': data_fields, 'func': funcs, 'fill': _j(fill), 'frame': {'columns': names, 'cols': _j(cols), 'layout': zoo.layout_str(zoo.layout_of(f))},
            'observed': (type(g).__name__ + ': ' + str(g)[:100]) if isinstance(g, Exception) else fdesc(g)}
    return Case(stratum, desc, m=f'pivot_m_ok {args} {out}', s=f'pivot_s_ok {args} {out}', tags=tags, nontrivial=has_multi)


def pivot_exhaustive(ctx):
    '''Every assignment of (index key, column key) in {a,b} x {x,y} to n rows; sum / len / first.'''
    nmax = 3 if ctx.tier == 'quick' else 4
    for n in range(1, nmax + 1):
        for ikeys in itertools.product('ab', repeat=n):
            for ckeys in itertools.product('xy', repeat=n):
                cols = [list(ikeys), list(ckeys), [1 + 2 * r for r in range(n)]]
                for fn in (('nansum', 'len', 'first') if ctx.tier != 'quick' or n < 3 else ('nansum', 'len')):
                    yield pivot_case(ctx, 'api:pivot-exhaustive-keys', ['i', 'c', 'v'], cols, None, ['i'], ['c'], ['v'], [fn], 0)


def pivot_random(ctx):
    rng = ctx.rng
    for _ in range(ctx.n(150, 3000)):
        n = rng.randint(1, 6)
        ni, nc, nd = rng.choice([1, 1, 2]), rng.choice([0, 1, 1, 2]), rng.choice([1, 1, 2])
        kind = rng.choice(['str', 'int'])
        pool = {'str': ['a', 'b', 'c'], 'int': [3, 1, 2]}[kind]
        names, cols = [], []
        ifields = ['i', 'i2'][:ni]
        cfields = ['c', 'c2'][:nc]
        dfields = ['v', 'w'][:nd]
        for nm in ifields:
            names.append(nm)
            cols.append([rng.choice(pool[:rng.choice([2, 3])]) for _ in range(n)])
        for nm in cfields:
            names.append(nm)
            ck = rng.choice(['str', 'int']) if nc == 1 else kind
            cols.append([rng.choice({'str': ['x', 'y'], 'int': [7, 8]}[ck]) for _ in range(n)])
        for nm in dfields:
            names.append(nm)
            cols.append([rng.randint(-5, 20) for _ in range(n)])
        if rng.random() < 0.3:                   # an unused column
            names.append('z')
            cols.append([rng.choice('pq') for _ in range(n)])
        order = list(range(len(names)))
        rng.shuffle(order)
        names = [names[k] for k in order]
        cols = [cols[k] for k in order]
        layout = pick_layout(rng, [col_array(c).dtype for c in cols])
        funcs = rng.choice([['nansum'], ['sum'], ['min'], ['max'], ['len'], ['first'], ['last'], ['sum2'], ['min', 'max'], ['sum', 'len'], ['first', 'last', 'max']])
        fill = rng.choice([NAN, 0, -1, None, 'F'])
        try:
            yield pivot_case(ctx, 'api:pivot-random', names, cols, layout, ifields, cfields, dfields, funcs, fill)
        except ValueError:
            ctx.count('pivot:skipped-literal')


def pivot_layouts(ctx):
    '''One pivot with repeated pairs through every block layout.'''
    names = ['i', 'c', 'v', 'w', 'u']
    cols = [['b', 'a', 'b', 'a', 'c'], ['x', 'y', 'x', 'x', 'y'], [1, 2, 3, 4, 5], [10, 20, 30, 40, 50], [7, 7, 7, 7, 7]]
    lays = list(zoo.layouts_for([col_array(c).dtype for c in cols]))
    for lay in lays:
        yield pivot_case(ctx, 'api:pivot-all-layouts', names, cols, lay, ['i'], ['c'], ['v', 'w'], ['min', 'max'], -1)
    for lay in lays[::4]:
        yield pivot_case(ctx, 'api:pivot-all-layouts', names, cols, lay, ['i'], [], ['v', 'w', 'u'], ['nansum'], NAN)


def pivot_mixed_index(ctx):
    '''Two index fields of different dtypes: ufunc_unique over an object array has no order.'''
    names = ['i', 'w', 'c', 'v']
    cols = [['b', 'a', 'b', 'a', 'c'], [10, 20, 30, 40, 50], ['x', 'y', 'x', 'x', 'y'], [1, 2, 3, 4, 5]]
    yield pivot_case(ctx, 'api:pivot-mixed-index-fields', names, cols, None, ['i', 'w'], ['c'], ['v'], ['nansum'], 0, extra_tags={'finding': F_PIVOT_MIXED})


# ----------------------------------------------------------------------------- kernel level
def kernel_cases(ctx):
    '''pivot_index_map and extrapolate_column_fields called directly on small exhaustive inputs.'''
    import static_frame as sf
    from static_frame.core.pivot import extrapolate_column_fields, pivot_index_map
    label_sets = {
        1: [['a', 'b', 'c'], ['b', 'a']],
        2: [[('a', 1), ('a', 2), ('b', 1), ('b', 2)], [('a', 1), ('a', 2), ('b', 1), ('b', 3)], [('b', 2), ('a', 2), ('a', 1)]],
        3: [[('a', 1, 'x'), ('a', 1, 'y'), ('a', 2, 'x'), ('b', 1, 'x')], [('a', 1, 'x'), ('b', 1, 'x'), ('b', 2, 'y'), ('b', 2, 'x')]],
    }
    for depth, sets in label_sets.items():
        for labels in sets:
            index = sf.Index(labels) if depth == 1 else sf.IndexHierarchy.from_labels(labels)
            levels = [d for k in range(1, depth + 1) for d in itertools.combinations(range(depth), k)]
            for dl in levels:
                key = list(dl) if len(dl) > 1 else dl[0]
                pim = pivot_index_map(index_src=index, depth_level=key, dtypes_src=None)
                mask = depth_mask(depth, key)
                split = [split_label(_tup(x), mask) for x in labels]
                gd = depth - sum(mask)
                norm_g = lambda g: () if g is None else (_tup(g) if gd > 1 else (_py(g),))
                groups = [norm_g(g) for g in pim.group_to_target_map]
                targets = [_tup(t) for t in pim.targets_unique]
                table = [[m.get(t) for t in pim.targets_unique] for m in pim.group_to_target_map.values()]
                tl = lit.lst([lit.lst(['None' if v is None else f'(Some {int(v)}%nat)' for v in row]) for row in table])
                ctx.count('kernel:pivot_index_map')
                yield Case('kernel:pivot_index_map', {'call': 'static_frame.core.pivot.pivot_index_map', 'labels': _j(labels), 'depth_level': _j(key),
                                                      'groups': _j(groups), 'targets_unique': _j(targets), 'table': table},
                           m=f'pim_ok {lit.lst([f"({_tl(g)}, {_tl(t)})" for g, t in split])} {lit.lst([_tl(g) for g in groups])} {lit.lst([_tl(t) for t in targets])} {tl}',
                           tags={'kernel': 'pivot_index_map'}, nontrivial=depth > 1)
    for ncf in (1, 2):
        for data_fields in (['v'], ['v', 'w']):
            for func_fields in ((), ('mn', 'mx')):
                group = ('x',) if ncf == 1 else ('x', 7)
                out = extrapolate_column_fields(['c', 'c2'][:ncf], group, data_fields, func_fields)
                obs = [_tup(x) for x in out]
                funcs = [('', 'ASum')] if not func_fields else [(nm, 'AMin') for nm in func_fields]
                ctx.count('kernel:extrapolate_column_fields')
                yield Case('kernel:extrapolate_column_fields', {'call': 'static_frame.core.pivot.extrapolate_column_fields', 'columns_fields': ncf, 'group': _j(group),
                                                                'data_fields': data_fields, 'func_fields': list(func_fields), 'observed': _j(obs)},
                           m=(f'ecf_ok {lit.b(len(data_fields) > 1)} {lit.b(bool(func_fields))} {_tl(group)} {lit.vlist(data_fields)} '
                              f'{lit.lst([f"({lit.val(nm)}, {a})" for nm, a in funcs])} {lit.lst([_tl(x) for x in obs])}'),
                           tags={'kernel': 'extrapolate_column_fields'})


def reorder_cases(ctx):
    '''set_index_hierarchy(reorder_for_hierarchy=True): rows are permuted as whole rows (decided on the Python side).'''
    rng = ctx.rng
    base = [('a', 1, 5, 'p'), ('b', 1, 6, 'q'), ('a', 2, 7, 'r'), ('b', 2, 8, 's'), ('a', 3, 9, 't')]
    for _ in range(ctx.n(12, 120)):
        rows = rng.sample(base, rng.randint(2, 5))
        cols = [list(c) for c in zip(*rows)]
        lay = pick_layout(rng, [col_array(c).dtype for c in cols])
        f = build_frame(('k', 'j', 'x', 'y'), cols, lay, None)
        drop = rng.random() < 0.5
        py_fail = None
        try:
            g = f.set_index_hierarchy(['k', 'j'], drop=drop, reorder_for_hierarchy=True)
            src = sorted((r[0], r[1]) + (tuple(r[2:]) if drop else tuple(r)) for r in rows)
            got = sorted(tuple(_py(x) for x in lab) + tuple(_py(v) for v in row) for lab, row in zip(g.index, g.iter_tuple(axis=1)))
            if src != got:
                py_fail = f'rows after reorder {got} are not the source rows {src}'
            obs = {'index': _j([_tup(x) for x in g.index]), 'rows': _j([list(r) for r in g.iter_tuple(axis=1)])}
        except Exception as e:  # noqa
            py_fail = f'set_index_hierarchy(reorder_for_hierarchy=True) raised {type(e).__name__}: {e}'
            obs = py_fail
        ctx.count('reorder_for_hierarchy')
        yield Case('api:set_index_hierarchy-reorder', {'call': "f.set_index_hierarchy(['k','j'], drop=drop, reorder_for_hierarchy=True)", 'drop': drop,
                                                       'rows': _j(rows), 'layout': zoo.layout_str(zoo.layout_of(f)), 'observed': obs},
                   py_fail=py_fail, tags={'op': 'set_index_hierarchy', 'reorder': True})



# ----------------------------------------------------------------------------- extension round: routes found by tools/cov_cases.py
def _refusal_case(ctx, stratum, desc, fn, want, tags):
    '''A call the interface must refuse: py_fail unless it raises one of `want` (decided on the Python side).'''
    try:
        out = fn()
        got = 'returned ' + type(out).__name__
        ok = False
    except Exception as e:  # noqa
        got = type(e).__name__
        ok = lit.err_class(e) in want or type(e).__name__ in want
    ctx.count(stratum)
    return Case(stratum, dict(desc, observed=got, expected_refusal=sorted(want)), py_fail=None if ok else f'expected a refusal {sorted(want)}, {got}', tags=tags,
                nontrivial=True)


def join_variants(ctx):
    '''FrameGO / FrameHE receivers and arguments; key columns of unsigned, datetime64, bytes, object-with-None, NaN-bearing float
    dtypes; int keys against float keys; str keys against int keys (nothing matches).'''
    rng = ctx.rng
    D = lambda s: np.datetime64(s)
    pools = {
        'uint8': lambda vs: np.array(vs, dtype=np.uint8), 'uint64': lambda vs: np.array(vs, dtype=np.uint64), 'int8': lambda vs: np.array(vs, dtype=np.int8),
    }
    key_sets = [
        ('uint8', pools['uint8']([1, 2, 1, 3]), pools['uint8']([1, 1, 4])),
        ('uint64-vs-int8', pools['uint64']([1, 2, 3]), pools['int8']([3, 1, 1])),
        ('datetime64[D]', np.array([D('2020-01-01'), D('2020-01-02'), D('2020-01-01')]), np.array([D('2020-01-01'), D('2021-05-05')])),
        ('bytes', np.array([b'a', b'b', b'a']), np.array([b'a', b'c'])),
        ('object-None', [None, 'a', 'b'], ['a', None, None]),
        ('float-nan', [NAN, 1.5, 2.5], [NAN, 2.5]),
        ('int-vs-float', [1, 2, 3], [1.0, 3.0, 2.5]),
        ('bool-vs-int', [True, False], [1, 0, 2]),
        ('str-vs-int', ['a', 'b'], [1, 2]),
    ]
    for name, lk, rk in key_sets:
        nl, nr = len(lk), len(rk)
        for jt in JT:
            spec_l = (('k', 'x'), [lk, [10 + i for i in range(nl)]], None, None)
            spec_r = (('k', 'y'), [rk, np.array([20 + i for i in range(nr)], dtype=np.uint16)], None, list('wxyz')[:nr])
            ctx.count(f'join:keys={name}')
            try:
                fill = NAN if name == 'bytes' else rng.choice([None, -1, NAN])     # bytes: the known finding needs a non-bytes fill every run
                yield join_case(ctx, 'api:join-key-dtypes', jt, True, spec_l, spec_r, {'left_columns': 'k', 'right_columns': 'k'}, fill, ('L{}', 'R{}'))
            except ValueError:
                ctx.count('join:skipped-literal')
    import static_frame as sf
    for lcls, rcls in ((sf.FrameGO, sf.Frame), (sf.FrameHE, sf.FrameGO), (sf.Frame, sf.FrameHE), (sf.FrameGO, sf.FrameGO)):
        for jt in JT:
            for composite in (True, False):
                nl, nr = rng.randint(1, 4), rng.randint(1, 4)
                spec_l = (('k', 'x'), [[rng.choice('ab') for _ in range(nl)], [10 + i for i in range(nl)]], None, None)
                spec_r = (('k', 'y'), [[rng.choice('abc') for _ in range(nr)], [20 + i for i in range(nr)]], None, list('wxyz')[:nr])
                ctx.count(f'join:class={lcls.__name__}x{rcls.__name__}')
                yield join_case(ctx, 'api:join-frame-classes', jt, composite, spec_l, spec_r, {'left_columns': 'k', 'right_columns': 'k'}, None, ('L{}', 'R{}'), classes=(lcls, rcls))


def join_malformed(ctx):
    '''Calls Frame._join refuses before looking at any row (frame.py:5758-5770).'''
    l = build_frame(('k', 'j', 'x'), [['a', 'b'], [1, 2], [5, 6]])
    r = build_frame(('k', 'j', 'y'), [['a', 'c'], [1, 3], [7, 8]])
    for jt in JT:
        call = getattr(l, 'join_' + jt)
        for what, kw in (('no left key', {'right_columns': 'k'}), ('no right key', {'left_columns': 'k'}), ('no key at all', {}),
                         ('widths differ', {'left_columns': ['k', 'j'], 'right_columns': 'k'}),
                         ('widths differ (depth + column against column)', {'left_depth_level': 0, 'left_columns': 'k', 'right_columns': 'k'})):
            yield _refusal_case(ctx, 'api:join-malformed', {'call': f'l.join_{jt}(r, **kw)', 'kw': _j(kw), 'what': what},
                                lambda call=call, kw=kw: call(r, left_template='L{}', right_template='R{}', **kw), {'RuntimeError'}, {'op': 'join', 'malformed': what})


def rehierarch_cases(ctx):
    '''Frame.rehierarch (frame.py:3362-3406, container_util.py rehierarch_from_index_hierarchy): the depths of an axis are
    reordered; every cell stays at its (reordered row label, reordered column label).'''
    import static_frame as sf
    rng = ctx.rng
    ih2 = [('a', 1), ('a', 2), ('b', 1), ('b', 2)]
    ih2r = [('a', 1), ('a', 2), ('b', 2), ('b', 3), ('c', 1)]
    ih3 = [('a', 1, 'x'), ('a', 1, 'y'), ('a', 2, 'x'), ('b', 1, 'x'), ('b', 2, 'y')]
    for cls in (sf.Frame, sf.FrameGO):
        for ilabels, clabels in ((ih2, ['p', 'q']), (ih2r, ['p']), (ih3, ['p', 'q']), (ih2, ih2r), (['r', 's'], ih3), (ih3, ih2)):
            n, m = len(ilabels), len(clabels)
            cols = [[100 * j + i for i in range(n)] if j % 2 == 0 else ['abcdefgh'[(i + j) % 8] for i in range(n)] for j in range(m)]
            lays = list(zoo.layouts_for([col_array(c).dtype for c in cols]))
            index = sf.IndexHierarchy.from_labels(ilabels) if isinstance(ilabels[0], tuple) else sf.Index(ilabels)
            ccls = cls._COLUMNS_HIERARCHY_CONSTRUCTOR if isinstance(clabels[0], tuple) else cls._COLUMNS_CONSTRUCTOR
            columns = ccls.from_labels(clabels) if isinstance(clabels[0], tuple) else ccls(clabels)
            f = zoo.frame_from_columns([col_array(c) for c in cols], rng.choice(lays), index=index, columns=columns, cls=cls)
            idepth, cdepth = f.index.depth, f.columns.depth
            imaps = [None] + ([list(p) for p in itertools.permutations(range(idepth)) if list(p) != list(range(idepth))] if idepth > 1 else [])
            cmaps = [None] + ([list(p) for p in itertools.permutations(range(cdepth)) if list(p) != list(range(cdepth))] if cdepth > 1 else [])
            combos = [(a, b) for a in imaps for b in cmaps if a or b]
            for imap, cmap in (combos if ctx.tier != 'quick' else rng.sample(combos, min(3, len(combos)))):
                rows, cls_, cells = frame_parts(f)
                re_ = lambda lab, mp: tuple(lab[d] for d in mp) if mp else lab
                want = sframe_lit([re_(r, imap) for r in rows], [re_(c, cmap) for c in cls_], cells)
                out, g = obs_sframe(lambda: f.rehierarch(index=imap, columns=cmap))
                ctx.count('rehierarch', f'rehierarch:index={imap}', f'rehierarch:columns={cmap}', f'rehierarch:class={cls.__name__}')
                desc = {'call': 'f.rehierarch(index=imap, columns=cmap)', 'index_map': imap, 'columns_map': cmap, 'frame': fdesc(f),
                        'observed': (type(g).__name__ + ': ' + str(g)[:100]) if isinstance(g, Exception) else fdesc(g)}
                ordered = not isinstance(g, Exception) and tree_ordered([_tup(x) for x in lit.labels(g.index)]) and tree_ordered([_tup(x) for x in lit.labels(g.columns)])
                yield Case('api:rehierarch', desc, s=f'match {out} with Ok o => vsframe_keyed_eqb {want} o | Err _ => false end',
                           py_fail=None if (isinstance(g, Exception) or ordered) else 'result labels are not tree-ordered', tags={'op': 'rehierarch'})
    f = build_frame(('a', 'b'), [[1, 2], [3, 4]], None, ['p', 'q'])
    yield _refusal_case(ctx, 'api:rehierarch-malformed', {'call': 'f.rehierarch(index=[1,0]) on a depth-1 index'}, lambda: f.rehierarch(index=[1, 0]), {'RuntimeError'}, {'op': 'rehierarch'})
    yield _refusal_case(ctx, 'api:rehierarch-malformed', {'call': 'f.rehierarch(columns=[1,0]) on depth-1 columns'}, lambda: f.rehierarch(columns=[1, 0]), {'RuntimeError'}, {'op': 'rehierarch'})


def shift_opposite_hier(ctx):
    '''relabel_shift_out / relabel_shift_in when the OPPOSITE axis is hierarchical (its labels are flattened to tuples,
    frame.py:3330-3345), on FrameGO, and on a grow-only hierarchical columns axis that has pending appends (_recache).'''
    import static_frame as sf
    rng = ctx.rng
    chier = [('a', 1), ('a', 2), ('b', 1)]
    cols = [[1, 2, 3], [4, 5, 6], ['x', 'y', 'z']]
    for cls in (sf.Frame, sf.FrameGO):
        for index, iname in ((None, None), (['p', 'q', 'r'], 'ix'), ([('m', 1), ('m', 2), ('n', 1)], ('g', 'h'))):
            lay = rng.choice(list(zoo.layouts_for([col_array(c).dtype for c in cols])))
            idx = None if index is None else (sf.IndexHierarchy.from_labels(index, name=iname) if isinstance(index[0], tuple) else sf.Index(index, name=iname))
            f = zoo.frame_from_columns([col_array(c) for c in cols], lay, index=idx, columns=cls._COLUMNS_HIERARCHY_CONSTRUCTOR.from_labels(chier), cls=cls)
            depth = f.index.depth
            for ds in [[0], list(range(depth))] + ([[1], [1, 0]] if depth > 1 else []):
                yield shop_case(ctx, 'api:relabel_shift_out-hier-columns', f, ('shift_out', ds, len(ds) > 1 or rng.random() < 0.5))[0]
            c, g = shop_case(ctx, 'api:relabel_shift_in-hier-columns', f, ('shift_in', [('a', 2)], True))
            yield c
            c, g = shop_case(ctx, 'api:relabel_shift_in-hier-columns', f, ('shift_in', [('b', 1), ('a', 1)], True))
            yield c
            if g is not None:
                c2, h = shop_case(ctx, 'api:relabel_shift_out-hier-columns', g, ('shift_out', [depth, depth + 1], True))
                yield c2
                if h is not None:
                    yield roundtrip_case(ctx, 'api:roundtrip-shift', f, h, 'shift_in;shift_out hierarchical columns')
    # axis 1 with a hierarchical index, and a FrameGO whose hierarchical columns have a pending append
    g = sf.FrameGO.from_records([(1, 2), (3, 4), (5, 6)], index=sf.IndexHierarchy.from_labels([('m', 1), ('m', 2), ('n', 1)], name=('g', 'h')),
                                columns=sf.IndexHierarchyGO.from_labels([('a', 'u'), ('a', 'v')], name=('c0', 'c1')))
    g[('b', 'u')] = [7, 8, 9]          # columns now hold a pending append
    for ds in ([0], [1], [0, 1]):
        yield shop_case(ctx, 'api:relabel_shift_out-axis1-hier-index', g, ('shift_out', ds, True), axis=1)[0]
    g2 = sf.FrameGO.from_records([(1, 2), (3, 4), (5, 6)], index=sf.Index(['p', 'q', 'r'], name='ix'),
                                 columns=sf.IndexHierarchyGO.from_labels([('a', 'u'), ('a', 'v')], name=('c0', 'c1')))
    g2[('b', 'u')] = [7, 8, 9]
    yield shop_case(ctx, 'api:relabel_shift_in-axis1-pending-append', g2, ('shift_in', ['q'], False), axis=1)[0]
    yield shop_case(ctx, 'api:relabel_shift_in-axis1-pending-append', g2, ('shift_in', ['r', 'p'], True), axis=1)[0]
    f = build_frame(('a', 'b'), [[1, 2], [3, 4]], None, ['p', 'q'])
    yield _refusal_case(ctx, 'api:relabel_shift_out-malformed', {'call': 'f.relabel_shift_out(0, axis=2)'}, lambda: f.relabel_shift_out(0, axis=2), {'AxisInvalid'}, {'op': 'shift_out'})


def pivot_variants(ctx):
    '''pivot with data_fields omitted (every unused column), refusals (absent field, nothing left for data), FrameGO / FrameHE
    receivers, unsigned and datetime64 index / column fields.'''
    import static_frame as sf
    rng = ctx.rng
    D = lambda s: np.datetime64(s)
    names = ['i', 'c', 'v', 'w']
    base = [['b', 'a', 'b', 'a', 'c'], ['x', 'y', 'x', 'x', 'y'], [1, 2, 3, 4, 5], [10, 20, 30, 40, 50]]
    for cls in (sf.Frame, sf.FrameGO, sf.FrameHE):
        for cf in (['c'], []):
            for funcs in (['nansum'], ['min', 'max']):
                lay = rng.choice(list(zoo.layouts_for([col_array(c).dtype for c in base])))
                yield pivot_case(ctx, 'api:pivot-data-fields-omitted', names, base, lay, ['i'], cf, ['v', 'w'] if cf else ['c', 'v', 'w'][1:], funcs, rng.choice([0, -1, NAN]),
                                 omit_data=bool(cf), cls=cls)
    typed = [
        ('uint8 index field', [np.array([2, 1, 2, 1, 3], dtype=np.uint8), base[1], base[2], base[3]]),
        ('datetime64 index field', [np.array([D('2020-02-01'), D('2020-01-01'), D('2020-02-01'), D('2020-01-01'), D('2021-01-01')]), base[1], base[2], base[3]]),
        ('datetime64 column field', [base[0], np.array([D('2020-02-01'), D('2020-01-01'), D('2020-02-01'), D('2020-02-01'), D('2020-01-01')]), base[2], base[3]]),
        ('uint data fields', [base[0], base[1], np.array(base[2], dtype=np.uint8), np.array(base[3], dtype=np.uint32)]),
        ('int8 data fields', [base[0], base[1], np.array([-1, 2, -3, 4, 5], dtype=np.int8), np.array(base[3], dtype=np.int16)]),
    ]
    for what, cols in typed:
        for funcs in (['nansum'], ['max'], ['first', 'last']):
            ctx.count(f'pivot:{what}')
            try:
                yield pivot_case(ctx, 'api:pivot-field-dtypes', names, cols, None, ['i'], ['c'], ['v', 'w'], funcs, rng.choice([0, -1]))
            except ValueError:
                ctx.count('pivot:skipped-literal')
    f = build_frame(tuple(names), base)
    yield _refusal_case(ctx, 'api:pivot-malformed', {'call': "f.pivot('zz', 'c', 'v')"}, lambda: f.pivot('zz', 'c', 'v'), {'ErrorInitFrame'}, {'op': 'pivot'})
    yield _refusal_case(ctx, 'api:pivot-malformed', {'call': "f.pivot('i', 'zz', 'v')"}, lambda: f.pivot('i', 'zz', 'v'), {'ErrorInitFrame'}, {'op': 'pivot'})
    yield _refusal_case(ctx, 'api:pivot-malformed', {'call': "f.pivot(['i','c'], ['v','w'])  # nothing left for data"}, lambda: f.pivot(['i', 'c'], ['v', 'w']), {'ErrorInitFrame'},
                        {'op': 'pivot'})


def set_index_variants(ctx):
    '''set_index / set_index_hierarchy / unset_index on FrameGO / FrameHE and with unsigned, datetime64 and bytes key columns.'''
    import static_frame as sf
    D = lambda s: np.datetime64(s)
    names = ('d', 'u', 'b', 'x')
    cols = [np.array([D('2020-01-01'), D('2020-01-01'), D('2020-01-02'), D('2021-01-01')]), np.array([1, 2, 1, 1], dtype=np.uint8), np.array([b'p', b'q', b'r', b's']), [5, 6, 7, 8]]
    for cls in (sf.Frame, sf.FrameGO, sf.FrameHE):
        f = zoo.frame_from_columns([col_array(c) for c in cols], tuple((1, False) for _ in cols), index=None, columns=names, cls=cls)
        for op in (('set_index', ['b'], True, None), ('set_index', ['d'], True, None), ('set_index', ['d', 'u'], True, 'list'), ('set_index', ['d', 'u'], False, 'tuple'),
                   ('set_index', ['u', 'b'], True, 'list'), ('shift_in', ['d', 'u'], True), ('shift_in', ['b'], False)):
            try:
                c, g = shop_case(ctx, 'api:set_index-classes-and-dtypes', f, op)
            except ValueError:
                ctx.count('shift:skipped-literal')
                continue
            yield c
            if g is not None:
                c2, h = shop_case(ctx, 'api:set_index-classes-and-dtypes', g, ('unset', []) if op[0] == 'set_index' else ('shift_out', list(range(1, 1 + len(op[1]))), True))
                yield c2
                if h is not None and (op[0] == 'shift_in' or op[2]):
                    yield roundtrip_case(ctx, 'api:roundtrip-set-unset', f, h, f'{op[0]};back on {cls.__name__} with date/unsigned/bytes keys')


def argument_kinds(ctx):
    '''The same operations reached through other argument kinds: slice / Boolean-array / ndarray-of-labels selections for
    relabel_shift_in, set_index_hierarchy and the join key columns; negative depth levels for relabel_shift_out and
    pivot_stack / pivot_unstack; unset_index(consolidate_blocks=True).  The model receives the normalised selection.'''
    import static_frame as sf
    rng = ctx.rng
    names = ['k', 'j', 'x', 'y']
    cols = [['a', 'b', 'c'], [3, 1, 2], [5, 6, 7], [True, False, True]]
    for cls in (sf.Frame, sf.FrameGO):
        for index, iname in ((None, None), (['p', 'q', 'r'], 'ix'), ([('m', 1), ('m', 2), ('n', 1)], ('g', 'h'))):
            lay = rng.choice(list(zoo.layouts_for([col_array(c).dtype for c in cols])))
            f = build_frame(tuple(names), cols, lay, index, index_names=iname, cls=cls)
            depth = f.index.depth
            sels = [('slice', slice('k', 'j'), ['k', 'j']), ('slice', slice('j', 'y'), ['j', 'x', 'y']), ('slice-open', slice(None, 'j'), ['k', 'j']),
                    ('bool', np.array([True, False, True, False]), ['k', 'x']), ('bool', np.array([False, True, True, False]), ['j', 'x']),
                    ('ndarray', np.array(['x', 'k']), ['x', 'k']), ('index', sf.Index(['j', 'k']), ['j', 'k'])]
            for kind, key, resolved in sels:
                ctx.count(f'argkind:shift_in:{kind}')
                c, g = shop_case(ctx, 'api:relabel_shift_in-key-kinds', f, ('shift_in', resolved, True), extra={'key_kind': kind}, call=lambda fr, key=key: fr.relabel_shift_in(key))
                yield c
                if g is not None:
                    n = len(resolved)
                    neg = [-(i + 1) for i in range(n)][::-1]            # the depths just added, counted from the end
                    ctx.count('argkind:shift_out:negative')
                    yield shop_case(ctx, 'api:relabel_shift_out-negative-depth', g, ('shift_out', list(range(depth, depth + n)), True), extra={'depth_level': neg},
                                    call=lambda fr, neg=neg: fr.relabel_shift_out(neg if len(neg) > 1 else neg[0]), finding=F_SHIFT_NEG)[0]
                if kind in ('slice', 'bool', 'ndarray', 'index') and len(resolved) > 1:
                    for drop in (True, False):
                        ctx.count(f'argkind:set_index_hierarchy:{kind}')
                        c, g2 = shop_case(ctx, 'api:set_index_hierarchy-key-kinds', f, ('set_index', resolved, drop, 'list'), extra={'key_kind': kind},
                                          call=lambda fr, key=key, drop=drop: fr.set_index_hierarchy(key, drop=drop))
                        yield c
                        if g2 is not None:
                            ctx.count('argkind:unset_index:consolidate')
                            yield shop_case(ctx, 'api:unset_index-consolidate', g2, ('unset', []), call=lambda fr: fr.unset_index(consolidate_blocks=True))[0]
            yield shop_case(ctx, 'api:unset_index-consolidate', f, ('unset', ['N0', 'N1'][:depth]), call=lambda fr: fr.unset_index(names=('N0', 'N1')[:fr.index.depth], consolidate_blocks=True))[0]
            if depth > 1:
                for neg, pos in ((-1, [depth - 1]), (-2, [depth - 2]), ([-1, -2], [depth - 1, depth - 2])):
                    yield shop_case(ctx, 'api:relabel_shift_out-negative-depth', f, ('shift_out', pos, True), extra={'depth_level': neg}, call=lambda fr, neg=neg: fr.relabel_shift_out(neg),
                                    finding=F_SHIFT_NEG if len(pos) < depth else None)[0]
    # join key columns through slice / Boolean / ndarray selections
    lcols = [['a', 'a', 'b'], [1, 2, 1], [5, 6, 7]]
    rcols = [[1, 1, 3], ['a', 'b', 'a'], [50, 60, 70]]
    for lk, lres in ((slice('k', 'j'), ['k', 'j']), (np.array([True, True, False]), ['k', 'j']), (np.array(['j', 'k']), ['j', 'k'])):
        for rk, rres in ((np.array(['k', 'j']), ['k', 'j']), (slice('j', 'k'), ['j', 'k']), (np.array([True, True, False]), ['j', 'k'])):
            for jt in JT:
                ctx.count('argkind:join-key-columns')
                kw_real = {'left_columns': lk, 'right_columns': rk}
                yield join_case(ctx, 'api:join-key-kinds', jt, True, (('k', 'j', 'x'), lcols, None, None), (('j', 'k', 'y'), rcols, None, list('wxy')),
                                {'left_columns': lres, 'right_columns': rres}, None, ('L{}', 'R{}'), kw_real=kw_real)
    # negative depth levels for pivot_stack / pivot_unstack
    h = zoo.frame_from_columns([col_array([1, 2]), col_array([3, 4]), col_array([5, 6]), col_array([7, 8])], ((1, False), (2, True), (1, True)),
                               index=sf.IndexHierarchy.from_labels([('m', 1), ('n', 1)]),
                               columns=sf.IndexHierarchy.from_labels([('a', 1, 'x'), ('a', 2, 'x'), ('b', 1, 'x'), ('b', 1, 'y')]))
    for dl in (-1, -2, -3, [-1, -2], [-3, -1], [0, -1]):
        c, g, arg = stack_case(ctx, h, dl, -1)
        if c is not None:
            yield c
    hi = h.transpose()
    for dl in (-1, -2, -3, [-1, -2], [-3, -1], [0, -1]):
        c, g = unstack_case(ctx, hi, dl, -1)
        if c is not None:
            yield c


def cases(ctx):
    yield from join_exhaustive(ctx)
    yield from join_layouts(ctx)
    yield from join_defaults(ctx)
    yield from join_key_order(ctx)
    yield from join_random(ctx)
    yield from shift_cases(ctx)
    yield from set_index_cases(ctx)
    yield from stack_cases(ctx)
    yield from unstack_cases(ctx)
    yield from unstack_regression(ctx)
    yield from pivot_exhaustive(ctx)
    yield from pivot_layouts(ctx)
    yield from pivot_random(ctx)
    yield from pivot_mixed_index(ctx)
    yield from kernel_cases(ctx)
    yield from reorder_cases(ctx)
    yield from join_variants(ctx)
    yield from join_malformed(ctx)
    yield from rehierarch_cases(ctx)
    yield from shift_opposite_hier(ctx)
    yield from pivot_variants(ctx)
    yield from set_index_variants(ctx)
    yield from argument_kinds(ctx)
