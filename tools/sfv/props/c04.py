'''C04 -- selection returns exactly the addressed rows/columns with their labels.'''
import datetime
import itertools

import numpy as np

from .. import lit, zoo
from ..core import Case

ID = 'C04'
MANIFEST = {
    'text': ('Coq theorems (Properties/C04.v, all closed under the global context): C04_extract_refines_all_keys / C04_extract_refines -- '
             'Frame._extract as the code runs it (TypeBlocks._extract: integer-column fast path or _key_to_block_slices + per-block NumPy '
             'slicing + the single_row re-shaping + from_blocks; extraction of both indices; the Frame/Series/element decision tree) equals the '
             '2-D specification S_extract on the flattened frame for EVERY block layout, every row key and every column key (unbounded, by '
             'induction over blocks and bundles); C04_decision_is_source -- that decision tree IS the if/elif chain of Frame._extract, regenerated '
             'from /repo by generate() on every run; C04_select_columns_exact, C04_cols_to_slice_is_source (block walk, regenerated _cols_to_slice); '
             'C04_extract_exact, C04_scalar_reduces -- S cell by cell: addressed cell, own labels, key order, scalar key removes its axis; '
             'C04_loc_map_refines, C04_loc_auto_refines -- the label translation (LocMap with +1 stops, loc_is_iloc fast path with the regenerated '
             'slice_to_inclusive_slice, Boolean Series reindexed with False, ILoc) selects exactly the positions of the labels; '
             'C04_inclusive_slice_is_source, C04_inclusive_slice_includes_stop, C04_label_slice_inclusive, C04_absent_label_raises, '
             'C04_bool_series_aligned, C04_period_select. Refuted/C04.v: one witness per guard. Correspondence (evaluated inside Coq against '
             'M and S): [] / .loc / .iloc / .bloc on Series and Frames over every block layout, flat / auto-integer / IndexDate / '
             'IndexYearMonth / hierarchical axes, every key kind incl. malformed keys; kernels _indices_to_contiguous_pairs, '
             '_key_to_block_slices, _extract_array, slice_to_inclusive_slice on exhaustive small inputs; NumPy datetime64 unit oracle sweep.'),
    'note': ('trusted: Coq kernel, py2v translator and the generate() extractor (fail closed, re-run every time), harness; oracles: NumPy indexing '
             'of ONE array by a row key, the FrozenAutoMap dictionary, datetime64 D->M->Y conversion (swept against NumPy each run). Partial: '
             'hierarchical and datetime axes and .bloc are compared with the specification through the public interface but their label '
             'translation has no refinement theorem (hierarchical translation is C05; bloc M is checked cell-order-exact, S as a set); when both '
             'keys are malformed the class of the first error is not modelled; cells are atomic in the theorems (tuple cells: finding). '
             'Eight known findings are listed in known/C04.jsonl, each tagged by construction of the input and witnessed every run.'),
    'technique': 'refinement proof M_extract = S_extract for all layouts + source-regenerated decision tree/kernels + differential correspondence evaluated in Coq',
}
PROPERTY_FILES = ['Properties/C04.v']
REFUTED_FILES = ['Refuted/C04.v']
MODEL_FILES = ['SF/SelectVal.v', 'SF/SelectDt.v', 'Gen/Gen_util.v', 'Gen/Gen_type_blocks.v']
TRANSLATED = ['cols_to_slice', 'slice_to_inclusive_slice', 'resolve_dtype']
IMPORTS = ('Require Import SF.Prelude SF.PySlice SF.Dtype SF.Value SF.Blocks SF.Select SF.SelectVal SF.SelectDt SF.PyDyn '
           'Gen.Gen_util Gen.Gen_type_blocks.')
RULE = ('API strata: column dtype patterns (int/float/bool/str/object/datetime mixes, 0..5 columns) x EVERY block layout (sfv.zoo) x 0..4 rows x axis kinds '
        '(string labels, integer labels that are positions of OTHER rows, auto-integer, IndexDate, IndexYearMonth, 2-level IndexHierarchy) on either axis, through '
        'frame.iloc / frame.loc / frame[] / frame.bloc and series.iloc / .loc / []. Positional keys: every int in [-(n+2), n+2], every Boolean mask of the axis '
        'length, every slice with start/stop in None,-(n+2)..n+2 and step in None,-(n+2)..n+2 without 0 (ALL of them for the column axis of every layout of 4 '
        'equal-dtype columns and for Series of length <= 4 in the thorough tier; sampled in quick), integer lists/arrays (negative aliases, repeats, out of range, '
        'empty), np.int64 scalars, None. Label keys: label, list/array/Index of labels, inclusive label slices with step None/1/2/-1/-2 (all of them on 4 labels), '
        'Boolean array, Boolean Series (shuffled, partial, with foreign labels), ILoc wrappers, date strings / date objects / datetime64 of the same and of coarser '
        'units, period lists and period slices. Malformed stream: absent labels, out-of-range ints, wrong-length masks, step 0, repeated positions; at most one '
        'axis per case must raise. Kernel strata: _indices_to_contiguous_pairs on every (block, column) sequence of length <= 3 (4 thorough) over 2 blocks x 3 '
        'columns; _key_to_block_slices and _extract_array (repeated positions allowed) over every layout of <= 4 columns; slice_to_inclusive_slice on a grid; '
        'NumPy datetime64 D->M->Y against the Gallina oracle. A case is non-trivial when it selects a proper non-empty part or must raise; distinct = distinct '
        '(container, layout, route, keys). Each case inside a known-finding class (by construction of its INPUT) also gets a model-only twin so that impl!=M stays visible.')
ASSUMPTIONS = ['NumPy: b[rk] / b[rk, slc] applies the row key to every column of the block alike and returns element / 1-D / 2-D as documented; an out-of-range '
               'integer row index raises IndexError whatever the width',
               'FrozenAutoMap: label -> first position, KeyError when absent; Index(labels) raises when labels repeat',
               'np.datetime64 unit conversion D->M->Y is floor conversion on the proleptic Gregorian calendar (SF/SelectDt.v, swept each run)',
               'generators keep float cells exact dyadic rationals, one Python type per axis (labels and keys), no mixed datetime units in one row, ints below 2**53',
               'when both keys must raise, which error comes first is not modelled (never generated)']
TRUSTED = ['tools/sfv/props/c04.py generate(): fail-closed ast extractor of the Frame._extract decision tree (raises when the source leaves the expected shape)']
EXHAUSTIVE = {'quick': False, 'thorough': False}


# ------------------------------------------------------------------------------------------ generate(): the decision tree of Frame._extract
def _src(path):
    import ast
    with open(path) as f:
        return ast.parse(f.read())


def _find_method(tree, cls, name):
    import ast
    for node in tree.body:
        if isinstance(node, ast.ClassDef) and node.name == cls:
            for item in node.body:
                if isinstance(item, ast.FunctionDef) and item.name == name:
                    return item
    raise ValueError(f'{cls}.{name} not found')


def _shape_cond(test):
    """blocks_shape[i] == k | blocks_shape == (a, b) | a or b  ->  Gallina bool over r, c."""
    import ast
    if isinstance(test, ast.BoolOp) and isinstance(test.op, (ast.Or, ast.And)):
        op = ' || ' if isinstance(test.op, ast.Or) else ' && '
        return '(' + op.join(_shape_cond(v) for v in test.values) + ')'
    if isinstance(test, ast.Compare) and len(test.ops) == 1 and isinstance(test.ops[0], ast.Eq):
        left, right = test.left, test.comparators[0]
        if (isinstance(left, ast.Subscript) and isinstance(left.value, ast.Name) and left.value.id == 'blocks_shape'
                and isinstance(left.slice, ast.Constant) and left.slice.value in (0, 1)
                and isinstance(right, ast.Constant) and isinstance(right.value, int)):
            return f'({"rc"[left.slice.value]} =? {right.value})'
        if (isinstance(left, ast.Name) and left.id == 'blocks_shape' and isinstance(right, ast.Tuple) and len(right.elts) == 2
                and all(isinstance(e, ast.Constant) and isinstance(e.value, int) for e in right.elts)):
            return f'((r =? {right.elts[0].value}) && (c =? {right.elts[1].value}))'
    raise ValueError('unexpected shape test in Frame._extract: ' + ast.dump(test)[:200])


def _nm_cond(test):
    import ast
    if (isinstance(test, ast.Subscript) and isinstance(test.value, ast.Name) and test.value.id == 'axis_nm'
            and isinstance(test.slice, ast.Constant) and test.slice.value in (0, 1)):
        return f'nm{test.slice.value}'
    raise ValueError('unexpected axis_nm test in Frame._extract: ' + ast.dump(test)[:200])


def _series_ret(stmt, array_is_first_block):
    """return Series(<values>, index=<idx>, name=<name>) -> DecSeries src ax nm."""
    import ast
    if not (isinstance(stmt, ast.Return) and isinstance(stmt.value, ast.Call) and isinstance(stmt.value.func, ast.Name)
            and stmt.value.func.id == 'Series' and len(stmt.value.args) == 1):
        raise ValueError('unexpected statement in the Series branch of Frame._extract: ' + ast.dump(stmt)[:200])
    v = ast.unparse(stmt.value.args[0])
    if v == 'array' and array_is_first_block:
        src = 'SrcFirstBlock'
    elif v == 'column_1d_filter(blocks._blocks[0])':
        src = 'SrcFirstBlock'
    elif v == 'blocks.values[0]':
        src = 'SrcRow0'
    else:
        raise ValueError(f'unexpected Series values expression: {v}')
    kw = {k.arg: ast.unparse(k.value) for k in stmt.value.keywords}
    if set(kw) != {'index', 'name'}:
        raise ValueError(f'unexpected Series keywords: {sorted(kw)}')
    ax = {'index': 'AxIndex', 'immutable_index_filter(columns)': 'AxColumns'}.get(kw['index'])
    nm = {'name_row': 'NameRow', 'name_column': 'NameColumn'}.get(kw['name'])
    if ax is None or nm is None:
        raise ValueError(f'unexpected Series index=/name=: {kw}')
    return f'DecSeries {src} {ax} {nm}'


def _nm_chain(stmts, array_is_first_block):
    """if axis_nm[i]: return Series(..) [elif axis_nm[j]: return Series(..)]  (falls through to the Frame)."""
    import ast
    if len(stmts) != 1 or not isinstance(stmts[0], ast.If):
        raise ValueError('unexpected body in a shape branch of Frame._extract')
    node = stmts[0]
    if len(node.body) != 1:
        raise ValueError('unexpected Series branch body')
    then = _series_ret(node.body[0], array_is_first_block)
    if not node.orelse:
        other = 'DecFrame'
    else:
        other = _nm_chain(node.orelse, array_is_first_block)
    return f'(if {_nm_cond(node.test)} then {then} else {other})'


def _shape_chain(node):
    import ast
    if not isinstance(node, ast.If):
        raise ValueError('expected the if/elif chain on blocks_shape')
    body = list(node.body)
    array_is_first_block = False
    if body and isinstance(body[0], ast.Assign):
        tgt = body[0].targets[0]
        if not (isinstance(tgt, ast.Name) and tgt.id == 'array'
                and ast.unparse(body[0].value) == 'column_1d_filter(blocks._blocks[0]) if blocks._blocks else EMPTY_ARRAY'):
            raise ValueError('unexpected assignment in the zero-size branch: ' + ast.unparse(body[0]))
        array_is_first_block = True
        body = body[1:]
    then = _nm_chain(body, array_is_first_block)
    if not node.orelse:
        other = 'DecFrame'
    elif len(node.orelse) == 1:
        other = _shape_chain(node.orelse[0])
    else:
        raise ValueError('unexpected else branch in the blocks_shape chain')
    return f'(if {_shape_cond(node.test)}\n   then {then}\n   else {other})'


def generate(repo):
    """Regenerate the Frame/Series decision tree of Frame._extract (and check the axis_nm definition) from the source."""
    import ast
    import os
    tree = _src(os.path.join(repo, 'static_frame/core/frame.py'))
    fn = _find_method(tree, 'Frame', '_extract')
    body = fn.body
    # locate `axis_nm = self._extract_axis_not_multi(row_key, column_key)`; `blocks_shape = blocks._shape`; the chain; the final return
    idx = None
    for i, st in enumerate(body):
        if isinstance(st, ast.Assign) and ast.unparse(st) == 'axis_nm = self._extract_axis_not_multi(row_key, column_key)':
            idx = i
    if idx is None:
        raise ValueError('axis_nm assignment not found in Frame._extract')
    tail = body[idx + 1:]
    if len(tail) != 3 or ast.unparse(tail[0]) != 'blocks_shape = blocks._shape':
        raise ValueError('unexpected statements after axis_nm in Frame._extract')
    chain = _shape_chain(tail[1])
    ret = tail[2]
    if not (isinstance(ret, ast.Return) and isinstance(ret.value, ast.Call) and ast.unparse(ret.value.func) == 'self.__class__'
            and ast.unparse(ret.value.args[0]) == 'blocks'):
        raise ValueError('unexpected final return of Frame._extract')
    kw = {k.arg: ast.unparse(k.value) for k in ret.value.keywords}
    if kw.get('index') != 'index' or kw.get('columns') != 'columns' or kw.get('name') != 'self._name':
        raise ValueError(f'unexpected Frame constructor arguments in Frame._extract: {kw}')
    # axis_nm: a key is "not multi" iff it is not None and not an instance of KEY_MULTIPLE_TYPES = (slice, list, np.ndarray)
    nmf = _find_method(tree, 'Frame', '_extract_axis_not_multi')
    want = ("row_nm = False\ncolumn_nm = False\nif row_key is not None and (not isinstance(row_key, KEY_MULTIPLE_TYPES)):\n    row_nm = True\n"
            "if column_key is not None and (not isinstance(column_key, KEY_MULTIPLE_TYPES)):\n    column_nm = True\nreturn (row_nm, column_nm)")
    got = '\n'.join(ast.unparse(st) for st in nmf.body if not (isinstance(st, ast.Expr) and isinstance(st.value, ast.Constant)))
    if got != want:
        raise ValueError('Frame._extract_axis_not_multi changed:\n' + got)
    util = _src(os.path.join(repo, 'static_frame/core/util.py'))
    kmt = None
    for st in util.body:
        if isinstance(st, ast.Assign) and isinstance(st.targets[0], ast.Name) and st.targets[0].id == 'KEY_MULTIPLE_TYPES':
            kmt = sorted(ast.unparse(e) for e in st.value.elts)
    if kmt != ['list', 'np.ndarray', 'slice']:
        raise ValueError(f'util.KEY_MULTIPLE_TYPES changed: {kmt}')
    text = ('(* GENERATED by tools/sfv/props/c04.py generate() from /repo/static_frame/core/frame.py Frame._extract -- do not edit; '
            'regenerated on every run. *)\n'
            'Require Import SF.Prelude SF.PySlice SF.Dtype SF.Blocks SF.Select.\n\n'
            '(* frame.py: the if/elif chain on blocks_shape and axis_nm after the blocks and both indices were extracted;\n'
            '   r, c = blocks_shape; nm0, nm1 = axis_nm (key is not None and not slice / list / ndarray) *)\n'
            'Definition extract_decision_src (r c : Z) (nm0 nm1 : bool) : xdec :=\n  ' + chain + '.\n')
    return {'Gen/Gen_c04.v': text}


# ------------------------------------------------------------------------------------------ keys
class PK:
    '''A positional key for one axis.'''
    __slots__ = ('py', 'coq', 'scalar', 'kind', 'desc')

    def __init__(self, py, coq, scalar, kind, desc):
        self.py, self.coq, self.scalar, self.kind, self.desc = py, coq, scalar, kind, desc

    def positions(self, n):
        '''Reference positions on an axis of length n, or None when the key is malformed.'''
        k = self.py
        try:
            if k is None:
                return list(range(n))
            if isinstance(k, (int, np.integer)):
                return [range(n)[int(k)]]
            if isinstance(k, slice):
                return list(range(n)[k])
            a = np.asarray(k)
            if a.dtype == bool:
                if len(a) != n:
                    return None
                return [i for i, v in enumerate(a) if v]
            return [range(n)[int(i)] for i in a]
        except (IndexError, ValueError):
            return None


def pk_none():
    return PK(None, 'CAll', False, 'all', None)


def pk_int(i, np_int=False):
    return PK(np.int64(i) if np_int else i, f'(CInt {lit.z(i)})', True, 'int', i)


def pk_slice(a, b, c):
    s = slice(a, b, c)
    if a is None and b is None and c is None:
        return PK(s, 'CAll', False, 'all', [None, None, None])
    return PK(s, f'(CSlice {lit.slice_(s)})', False, 'slice', [a, b, c])


def pk_list(l, array=False):
    py = np.array(l, dtype=np.int64) if array else list(l)
    return PK(py, '(CList ' + lit.lst([lit.z(i) for i in l]) + ')', False, 'array' if array else 'list', list(l))


def pk_mask(m):
    return PK(np.array(m, dtype=bool), '(CMask ' + lit.lst([lit.b(x) for x in m]) + ')', False, 'mask', [bool(x) for x in m])


class LK:
    '''A label key for one axis.'''
    __slots__ = ('py', 'coq', 'scalar', 'kind', 'desc', 'ints', 'neg_step_stop', 'pk')

    def __init__(self, py, coq, scalar, kind, desc, ints=(), neg_step_stop=False, pk=None):
        self.py, self.coq, self.scalar, self.kind, self.desc = py, coq, scalar, kind, desc
        self.pk = pk
        self.ints = tuple(ints)            # the integers the key names (auto-index finding class)
        self.neg_step_stop = neg_step_stop  # label slice with step < 0 and a stop label


def _ints(vals):
    return [int(v) for v in vals if isinstance(v, (int, np.integer)) and not isinstance(v, (bool, np.bool_))]


def lk_label(x):
    return LK(x, f'(LLabel {lit.val(x)})', True, 'label', _j(x), _ints([x]))


def lk_list(xs, as_index=False, as_array=False):
    import static_frame as sf
    py = sf.Index(xs) if as_index else (np.array(xs) if as_array else list(xs))
    kind = 'index' if as_index else ('larray' if as_array else 'llist')
    return LK(py, f'(LList {lit.vlist(xs)})', False, kind, [_j(x) for x in xs], _ints(xs))


def lk_slice(a, b, st):
    o = lambda v: 'None' if v is None else f'(Some {lit.val(v)})'
    return LK(slice(a, b, st), f'(LSlice {o(a)} {o(b)} {lit.oz(st)})', False,
              'lall' if (a is None and b is None and st is None) else 'lslice', [_j(a), _j(b), st],
              _ints([v for v in (a, b) if v is not None]), neg_step_stop=(st is not None and st < 0 and b is not None))


def lk_mask(m):
    return LK(np.array(m, dtype=bool), '(LMask ' + lit.lst([lit.b(x) for x in m]) + ')', False, 'lmask', [bool(x) for x in m])


def lk_boolseries(pairs):
    import static_frame as sf
    py = sf.Series([bool(v) for _, v in pairs], index=[l for l, _ in pairs], dtype=bool)
    coq = '(LBoolSeries ' + lit.lst([f'({lit.val(l)}, {lit.b(v)})' for l, v in pairs]) + ')'
    return LK(py, coq, False, 'boolseries', [[_j(l), bool(v)] for l, v in pairs])


def lk_iloc(pk):
    import static_frame as sf
    return LK(sf.ILoc[pk.py], f'(LILoc {pk.coq})', pk.scalar, 'iloc:' + pk.kind, {'ILoc': pk.desc}, pk=pk)


LK_ALL = None  # filled lazily: absent column key


def _j(v):
    '''JSON-able form of a label / cell.'''
    if v is None or isinstance(v, (bool, int, str)):
        return v
    if isinstance(v, (np.bool_,)):
        return bool(v)
    if isinstance(v, np.integer):
        return int(v)
    if isinstance(v, (tuple, list)):
        return [_j(x) for x in v]
    return str(v)


# ------------------------------------------------------------------------------------------ literals
def blocks_lit(fr):
    out = []
    for b in fr._blocks._blocks:
        if b.ndim == 1:
            cols = [lit.vlist(lit.array_vals(b))]
        else:
            cols = [lit.vlist(lit.array_vals(b[:, j])) for j in range(b.shape[1])]
        out.append(f'(mk_block {lit.dtype(b.dtype)} {lit.b(b.ndim == 1)} {lit.lst(cols)})')
    return lit.lst(out)


def frame_lit(fr):
    return (f'(mk_mframe {lit.vlist(lit.labels(fr.index))} {lit.vlist(lit.labels(fr.columns))} '
            f'{blocks_lit(fr)} {lit.z(fr.shape[0])} {lit.val(fr.name)})')


def series_lit(sr):
    return (f'(mk_sseries {lit.vlist(lit.labels(sr.index))} {lit.vlist(lit.array_vals(sr.values))} '
            f'{lit.dtype(sr.dtype)} {lit.val(sr.name)})')


def xres_lit(r):
    '''What the implementation returned, as an SF.Select.xres literal.'''
    import static_frame as sf
    if isinstance(r, sf.Frame):
        cols = []
        for b in r._blocks._blocks:
            if b.ndim == 1:
                cols.append(b)
            else:
                cols.extend(b[:, j] for j in range(b.shape[1]))
        if len(cols) != r.shape[1] or any(len(c) != r.shape[0] for c in cols):
            raise AssertionError('incoherent Frame returned')
        data = lit.lst([f'({lit.dtype(c.dtype)}, {lit.vlist(lit.array_vals(c))})' for c in cols])
        return f'(XFrame {lit.vlist(lit.labels(r.index))} {lit.vlist(lit.labels(r.columns))} {data} {lit.val(r.name)})'
    if isinstance(r, sf.Series):
        return (f'(XSeries {lit.vlist(lit.labels(r.index))} {lit.vlist(lit.array_vals(r.values))} '
                f'{lit.dtype(r.dtype)} {lit.val(r.name)})')
    return f'(XElem {lit.val(r)})'


def observe(fn):
    text, _ = lit.res(fn, xres_lit)
    return text


# ------------------------------------------------------------------------------------------ frames
ROW_LABELS = ['p', 'q', 'r', 's', 't']
COL_LABELS = ['A', 'B', 'C', 'D', 'E']
INT_LABELS = [2, 0, 3, 1, 5]          # integers that are valid positions of OTHER rows (loc/iloc confusion shows)
HIER_LABELS = [('a', 1), ('a', 2), ('b', 1), ('b', 2), ('c', 1)]
DATE_LABELS = ['2019-12-30', '2020-01-31', '2020-02-01', '2020-02-15', '2021-03-01']
YM_LABELS = ['2019-11', '2019-12', '2020-02', '2021-01', '2021-02']


def column(kind, n, j):
    '''Column j of dtype kind with n rows; values distinct across columns.'''
    if kind == 'i':
        return np.array([10 * (j + 1) + i for i in range(n)], dtype=np.int64)
    if kind == 'f':
        return np.array([j + i + 0.5 for i in range(n)], dtype=np.float64)
    if kind == 'b':
        return np.array([(i + j) % 2 == 0 for i in range(n)], dtype=bool)
    if kind == 's':
        return np.array([f'{ROW_LABELS[i]}{j}' for i in range(n)], dtype='<U2')
    if kind in 'ot':
        pool = [None, j, f'o{j}', 2.5, True] if kind == 'o' else [(j, 1), (j, 2, 3), ('x',), (j,), (0, 0)]
        a = np.empty(n, dtype=object)
        for i in range(n):
            a[i] = pool[(i + j) % len(pool)]
        return a
    if kind == 'd':
        return np.array([np.datetime64('2020-01-01') + 40 * i + j for i in range(n)], dtype='datetime64[D]')
    raise ValueError(kind)


def axis_arg(kind, n, axis):
    '''The index=/columns= constructor argument for an axis kind.'''
    import static_frame as sf
    if kind == 'str':
        return list((ROW_LABELS if axis == 0 else COL_LABELS)[:n])
    if kind == 'int':
        return list(INT_LABELS[:n])
    if kind == 'auto':
        return sf.IndexAutoFactory
    if kind == 'hier':
        return sf.IndexHierarchy.from_labels(HIER_LABELS[:n]) if n else sf.IndexHierarchy.from_labels((), depth_reference=2)
    if kind == 'date':
        return sf.IndexDate(DATE_LABELS[:n])
    if kind == 'ym':
        return sf.IndexYearMonth(YM_LABELS[:n])
    raise ValueError(kind)


def axis_label_values(kind, n, axis):
    '''The labels as Python values (what the keys are made of).'''
    if kind == 'str':
        return list((ROW_LABELS if axis == 0 else COL_LABELS)[:n])
    if kind == 'int':
        return list(INT_LABELS[:n])
    if kind == 'auto':
        return list(range(n))
    if kind == 'hier':
        return list(HIER_LABELS[:n])
    if kind == 'date':
        return [np.datetime64(x, 'D') for x in DATE_LABELS[:n]]
    if kind == 'ym':
        return [np.datetime64(x, 'M') for x in YM_LABELS[:n]]
    raise ValueError(kind)


def make_frame(pattern, layout, n, rkind='str', ckind='str', name='nm'):
    import static_frame as sf
    from static_frame.core.type_blocks import TypeBlocks
    cols = [column(k, n, j) for j, k in enumerate(pattern)]
    if cols:
        tb = TypeBlocks.from_blocks(zoo.blocks_from_columns(cols, layout))
    else:
        tb = TypeBlocks.from_zero_size_shape((n, 0))
    return sf.Frame(tb, index=axis_arg(rkind, n, 0), columns=axis_arg(ckind, len(pattern), 1), name=name, own_data=True)


def make_series(kind, n, ikind='str', name='sn'):
    import static_frame as sf
    return sf.Series(column(kind, n, 0), index=axis_arg(ikind, n, 0), name=name)


def dtypes_of(pattern):
    m = {'i': np.int64, 'f': np.float64, 'b': bool, 's': '<U2', 'o': object, 't': object, 'd': 'datetime64[D]'}
    return [np.dtype(m[k]) for k in pattern]


PATTERNS_QUICK = ['iiii', 'iifs', 'ifbo', 'ssd', 'ii', 'o', '']
PATTERNS_THOROUGH = PATTERNS_QUICK + ['iii', 'ffff', 'bbss', 'oiid', 'i', 'dd']


def axkind_of(index):
    return 'KAuto' if getattr(index, '_map', 0) is None else 'KMap'


def frames(ctx, patterns, rows, rkind='str', ckind='str', layouts=None):
    for pattern in patterns:
        lays = list(zoo.layouts_for(dtypes_of(pattern))) if pattern else [()]
        if layouts is not None and len(lays) > layouts:
            lays = ctx.rng.sample(lays, layouts)
        for layout in lays:
            for n in rows:
                fr = make_frame(pattern, layout, n, rkind, ckind)
                fdesc = {'columns_dtypes': pattern, 'layout': zoo.layout_str(layout), 'rows': n,
                         'index': rkind, 'columns': ckind,
                         'build': 'sfv.props.c04.make_frame(columns_dtypes, layout, rows, index, columns)'}
                ctx.count('layout:' + (zoo.layout_str(layout) or '-'), 'axes:%s/%s' % (rkind, ckind))
                yield fr, frame_lit(fr), fdesc


# ------------------------------------------------------------------------------------------ positional key spaces
def all_ints(n):
    return [pk_int(i) for i in range(-(n + 2), n + 3)]


def slice_space(n):
    vals = [None] + list(range(-(n + 2), n + 3))
    steps = [None] + [s for s in range(-(n + 2), n + 3) if s != 0]
    return vals, steps


def all_slices(n):
    vals, steps = slice_space(n)
    for a, b, c in itertools.product(vals, vals, steps):
        yield pk_slice(a, b, c)


def random_slice(rng, n):
    vals, steps = slice_space(n)
    if rng.random() < 0.03:
        return pk_slice(rng.choice(vals), rng.choice(vals), 0)      # malformed: ValueError
    return pk_slice(rng.choice(vals), rng.choice(vals), rng.choice(steps))


def random_list(rng, n, valid=True):
    if n == 0:
        return pk_list([] if valid else [rng.choice([0, -1, 1])], array=rng.random() < 0.5)
    k = rng.randint(0, n + 1)
    if valid:
        l = rng.sample(range(n), min(k, n))                    # no repeats: labels stay unique
        l = [i - n if rng.random() < 0.3 else i for i in l]    # negative aliases
    else:
        l = [rng.randint(-(n + 2), n + 1) for _ in range(max(1, k))]   # repeats / out of range
    return pk_list(l, array=rng.random() < 0.5)


def random_mask(rng, n, valid=True):
    k = n if valid else (n + 1 if n <= 1 else n + rng.choice([-1, 1]))   # never an EMPTY wrong-length mask (NumPy accepts it)
    return pk_mask([rng.random() < 0.5 for _ in range(k)])


def random_pk(rng, n, malformed_ok=True):
    r = rng.random()
    if r < 0.12:
        return pk_none()
    if r < 0.34:
        if malformed_ok:
            return rng.choice(all_ints(n)) if rng.random() < 0.8 else pk_int(rng.randint(-n, n - 1) if n else 0, np_int=True)
        return pk_int(rng.randint(-n, n - 1)) if n else pk_none()
    if r < 0.60:
        k = random_slice(rng, n)
        return k
    if r < 0.78:
        return random_list(rng, n, valid=(not malformed_ok) or rng.random() < 0.8)
    return random_mask(rng, n, valid=(not malformed_ok) or rng.random() < 0.9)


# ------------------------------------------------------------------------------------------ label key spaces
ABSENT = {'str': 'zz', 'int': 99, 'auto': None, 'hier': ('z', 9)}


def random_lk(rng, kind, labels, malformed_ok=True):
    '''A label key for an axis of kind str / int / auto / hier with the given label values.'''
    n = len(labels)
    r = rng.random()
    bad = malformed_ok and rng.random() < 0.12
    pool = list(labels)
    if kind == 'auto':
        outside = [-(n + 1), -n, -1, n, n + 1] if n else [-1, 0, 1]
    else:
        outside = [ABSENT[kind]]
    if r < 0.10:
        return lk_slice(None, None, None)
    if r < 0.28:
        if bad or not pool:
            return lk_label(rng.choice(outside))
        return lk_label(rng.choice(pool))
    if r < 0.46:
        k = rng.randint(0, n)
        xs = rng.sample(pool, k)
        if bad:
            xs.insert(rng.randint(0, len(xs)), rng.choice(outside))
        if kind == 'hier':
            return lk_list(xs)
        m = rng.random()
        return lk_list(xs, as_index=(m < 0.25 and len(xs) > 0 and not bad), as_array=(0.25 <= m < 0.5 and len(xs) > 0))
    if r < 0.66:
        ends = pool + [None]
        a, b = rng.choice(ends), rng.choice(ends)
        if bad:
            if rng.random() < 0.5:
                a = rng.choice(outside)
            else:
                b = rng.choice(outside)
        st = rng.choice([None, None, 1, 2, -1, -2])
        return lk_slice(a, b, st)
    if r < 0.78:
        k = n if not bad else (n + 1 if n <= 1 else n + rng.choice([-1, 1]))
        return lk_mask([rng.random() < 0.5 for _ in range(k)])
    if r < 0.90 and kind != 'hier':
        sub = rng.sample(pool, rng.randint(0, n))
        pairs = [(l, rng.random() < 0.6) for l in sub]
        if rng.random() < 0.3 and kind != 'auto':
            pairs.append((ABSENT[kind], True))          # a label the axis does not have: ignored by the alignment
        if rng.random() < 0.3 and kind == 'auto':
            pairs.append((n + 3, True))
        return lk_boolseries(pairs)
    pk = random_pk(rng, n, malformed_ok=malformed_ok and rng.random() < 0.3)
    if pk.py is None:
        pk = pk_slice(None, None, None)      # ILoc[None] is not a key (None only means "no key" internally)
    return lk_iloc(pk)


def lk_positions(lk, labels):
    '''Reference positions of a label key (None when it must raise), used for tags only.'''
    n = len(labels)
    pos = {l: i for i, l in enumerate(labels)}
    k = lk.kind
    try:
        if k == 'label':
            return [pos[lk.py]]
        if k in ('llist', 'larray', 'index'):
            return [pos[x if not isinstance(x, np.generic) else x.item()] for x in (lk.py.values if k == 'index' else lk.py)]
        if k in ('lslice', 'lall'):
            a, b, st = lk.py.start, lk.py.stop, lk.py.step
            st = 1 if st is None else st
            if st > 0:
                lo = 0 if a is None else pos[a]
                hi = n - 1 if b is None else pos[b]
                return list(range(lo, hi + 1, st))
            lo = n - 1 if a is None else pos[a]
            hi = 0 if b is None else pos[b]
            return list(range(lo, hi - 1, st))
        if k == 'lmask':
            return [i for i, v in enumerate(lk.py) if v] if len(lk.py) == n else None
        if k == 'boolseries':
            d = dict(lk.py.items())
            return [i for i, l in enumerate(labels) if d.get(l, False)]
    except (KeyError, TypeError):
        return None
    return None


def tree_ordered(seq):
    '''True when every outer label's occurrences are contiguous (what 0.8.8's IndexHierarchy can hold).'''
    seen, last = set(), object()
    for t in seq:
        if t[0] != last:
            if t[0] in seen:
                return False
            seen.add(t[0])
            last = t[0]
    return len(set(seq)) == len(seq)


# ------------------------------------------------------------------------------------------ case emission
def _obs_kind(obs):
    if obs.startswith('(Err'):
        return 'obs:Err'
    return 'obs:' + obs[5:obs.index(' ', 5)]


def _finding_twin(case):
    '''For a case inside a known-finding class the harness hides impl!=M behind impl!=S: emit the model check on its own.'''
    if case.m is None or 'finding' not in case.tags:
        return []
    twin = Case(case.kind + ':model-in-finding-class', dict(case.desc, note='model check only'), m=case.m, s=None,
                tags={'twin': case.tags['finding']}, nontrivial=False)
    case.m = None
    return [twin]


def emit_frame_iloc(ctx, stratum, fr, frl, fdesc, rk, ck, model=True, finding=None):
    '''One case through Frame.iloc; ck None = the one-argument form f.iloc[rk].'''
    nr, nc = fr.shape
    cke = ck if ck is not None else pk_none()
    if ck is None:
        obs = observe(lambda: fr.iloc[rk.py])
    else:
        obs = observe(lambda: fr.iloc[rk.py, ck.py])
    mode = 1 if (rk.scalar and not cke.scalar) else 0
    rpos, cpos = rk.positions(nr), cke.positions(nc)
    tags = {'route': 'iloc', 'rkind': rk.kind, 'ckind': cke.kind}
    if finding:
        tags['finding'] = finding
    elif (cpos == [] and not cke.scalar and not rk.scalar and rpos is not None and len(rpos) != nr
            and len(set(rpos)) == len(rpos)):
        tags['finding'] = 'C04-empty-columns-row-subset'
    ctx.count('route:iloc', 'rk:' + rk.kind, 'ck:' + cke.kind, 'rows:%d' % nr, 'cols:%d' % nc, _obs_kind(obs))
    desc = dict(fdesc, call='frame.iloc[rk, ck]' if ck is not None else 'frame.iloc[rk]', rk=rk.desc,
                ck=cke.desc if ck is not None else '<absent>', rk_kind=rk.kind, ck_kind=cke.kind, observed=obs[:400])
    head = f'let F := {frl} in '
    c = Case(stratum, desc,
             m=(head + f'eq_M {mode} (Mx F {rk.coq} {cke.coq}) {obs}') if model else None,
             s=head + f'eq_S {mode} (Sx F {rk.coq} {cke.coq}) {obs}',
             tags=tags, nontrivial=_nontrivial(rpos, cpos, nr, nc))
    return [c] + _finding_twin(c)


def _nontrivial(rpos, cpos, nr, nc):
    if rpos is None or cpos is None:
        return True
    return bool(rpos) and bool(cpos) and (rpos != list(range(nr)) or cpos != list(range(nc)))


def loc_findings(rkind, ckind, rkey, ckey, nr, nc, rpos, cpos):
    '''Finding classes a loc / [] case belongs to BY CONSTRUCTION of its input.'''
    for kind, key, n in ((rkind, rkey, nr), (ckind, ckey, nc)):
        if key is None or not isinstance(key, LK):
            continue
        if kind == 'auto' and any(not (0 <= i < n) for i in key.ints):
            return 'C04-autoindex-unvalidated-int'
    for key in (rkey, ckey):
        if isinstance(key, LK) and key.neg_step_stop:
            return 'C04-label-slice-negative-step'
    if (cpos == [] and rpos is not None and len(rpos) != nr and len(set(rpos)) == len(rpos)
            and not (rkey is not None and rkey.scalar) and not (ckey is not None and ckey.scalar)):
        return 'C04-empty-columns-row-subset'
    return None


def _lk_pos(key, kind, labels):
    if key is None:
        return list(range(len(labels)))
    if key.kind.startswith('iloc:'):
        return key.pk.positions(len(labels))
    return lk_positions(key, labels)


def emit_frame_loc(ctx, stratum, fr, frl, fdesc, route, rkey, ckey, rkind, ckind, model=True):
    '''route 'loc': f.loc[rkey, ckey] (ckey None: f.loc[rkey]); route 'getitem': f[ckey].'''
    nr, nc = fr.shape
    all_ = lk_slice(None, None, None)
    if route == 'getitem':
        obs = observe(lambda: fr[ckey.py])
        rke, cke = all_, ckey
        call = 'frame[ck]'
    elif ckey is None:
        obs = observe(lambda: fr.loc[rkey.py])
        rke, cke = rkey, all_
        call = 'frame.loc[rk]'
    else:
        obs = observe(lambda: fr.loc[rkey.py, ckey.py])
        rke, cke = rkey, ckey
        call = 'frame.loc[rk, ck]'
    mode = 1 if (rke.scalar and not cke.scalar) else 0
    rlabels = axis_label_values(rkind, nr, 0)
    clabels = axis_label_values(ckind, nc, 1)
    rpos, cpos = _lk_pos(rke, rkind, rlabels), _lk_pos(cke, ckind, clabels)
    tags = {'route': route, 'rkind': rke.kind, 'ckind': cke.kind, 'raxis': rkind, 'caxis': ckind}
    fnd = loc_findings(rkind, ckind, rke, cke, nr, nc, rpos, cpos)
    if fnd is None:
        for kind, pos, labels in ((rkind, rpos, rlabels), (ckind, cpos, clabels)):
            if kind == 'hier' and pos is not None and not tree_ordered([labels[i] for i in pos]) and len(set(pos)) == len(pos):
                fnd = 'C04-hier-nontree-order'
    if fnd:
        tags['finding'] = fnd
    ctx.count('route:' + route, 'rk:' + rke.kind, 'ck:' + cke.kind, _obs_kind(obs))
    desc = dict(fdesc, call=call, rk=rke.desc if route != 'getitem' else '<absent>', ck=cke.desc if (ckey is not None) else '<absent>',
                rk_kind=rke.kind, ck_kind=cke.kind, observed=obs[:400])
    head = f'let F := {frl} in '
    kr, kc = axkind_of(fr.index), axkind_of(fr.columns)
    if rkind == 'hier' or ckind == 'hier':
        model = False
    c = Case(stratum, desc,
             m=(head + f'eq_M {mode} (Mxl {kr} {kc} F {rke.coq} {cke.coq}) {obs}') if model else None,
             s=head + f'eq_S {mode} (Sxl F {rke.coq} {cke.coq}) {obs}',
             tags=tags, nontrivial=not (rke.kind == 'lall' and cke.kind == 'lall'))
    return [c] + _finding_twin(c)


# ------------------------------------------------------------------------------------------ strata: Frame
def _bad_pk(pk, n):
    '''The key must raise: malformed, or repeating a position (repeated labels).'''
    pos = pk.positions(n)
    return pos is None or len(set(pos)) != len(pos)


def api_frame_iloc(ctx):
    rng = ctx.rng
    pats = PATTERNS_QUICK if ctx.tier == 'quick' else PATTERNS_THOROUGH
    per_frame = ctx.n(3, 20)
    for fr, frl, fdesc in frames(ctx, pats, [0, 1, 2, 4] if ctx.tier == 'quick' else [0, 1, 2, 3, 4]):
        nr, nc = fr.shape
        for _ in range(per_frame):
            rk = random_pk(rng, nr)
            ck = random_pk(rng, nc) if rng.random() < 0.85 else None
            if ck is not None and _bad_pk(rk, nr) and _bad_pk(ck, nc):
                ck = pk_none()      # at most one axis that must raise (the class of the FIRST error is not modelled)
            yield from emit_frame_iloc(ctx, 'api:frame.iloc', fr, frl, fdesc, rk, ck)


def api_frame_iloc_colwalk(ctx):
    '''Column axis: EVERY int / mask and every (thorough) or a sample (quick) of the slices, for every layout of
    equal-dtype columns (where the block walk decides); the row key rotates through the kinds that drive single_row.'''
    rng = ctx.rng
    row_keys = [pk_none(), pk_int(1), pk_int(-1), pk_slice(1, 2, None), pk_slice(None, None, -1), pk_list([2]), pk_list([2, 0]),
                pk_mask([False, True, False]), pk_mask([True, False, True]), pk_slice(2, 0, -1)]
    for pattern, n in ((('iiii', 3), ('ii', 2)) if ctx.tier == 'thorough' else (('iiii', 3),)):
        for layout in zoo.layouts_for(dtypes_of(pattern)):
            fr = make_frame(pattern, layout, n)
            frl = frame_lit(fr)
            fdesc = {'columns_dtypes': pattern, 'layout': zoo.layout_str(layout), 'rows': n, 'index': 'str', 'columns': 'str',
                     'build': 'sfv.props.c04.make_frame(columns_dtypes, layout, rows)'}
            nc = len(pattern)
            keys = list(all_ints(nc)) + [pk_mask(m) for m in itertools.product((False, True), repeat=nc)]
            slices = list(all_slices(nc))
            if ctx.tier == 'quick':
                slices = rng.sample(slices, ctx.n(30, 30))
            keys += slices
            for i, ck in enumerate(keys):
                rk = row_keys[i % len(row_keys)] if ctx.tier == 'thorough' else rng.choice(row_keys)
                yield from emit_frame_iloc(ctx, 'api:frame.iloc-colwalk', fr, frl, fdesc, rk, ck)


def api_frame_iloc_rowkeys(ctx):
    '''Row axis: every int, mask and (sampled / all) slice of a 1..4-row frame against a fixed mixed layout.'''
    rng = ctx.rng
    for n in (1, 2, 3, 4):
        for layout in [((2, True), (1, False), (1, True)), ((1, False), (3, True))]:
            fr = make_frame('iiii', layout, n)
            frl = frame_lit(fr)
            fdesc = {'columns_dtypes': 'iiii', 'layout': zoo.layout_str(layout), 'rows': n, 'index': 'str', 'columns': 'str',
                     'build': 'sfv.props.c04.make_frame(columns_dtypes, layout, rows)'}
            keys = list(all_ints(n)) + [pk_mask(m) for m in itertools.product((False, True), repeat=n)]
            slices = list(all_slices(n))
            if ctx.tier == 'quick':
                slices = rng.sample(slices, ctx.n(25, 25))
            col_keys = [pk_none(), pk_int(2), pk_slice(3, 0, -2), pk_list([3, 0]), pk_mask([True, False, False, True]), pk_slice(1, 3, None)]
            for i, rk in enumerate(keys + slices):
                ck = col_keys[i % len(col_keys)] if ctx.tier == 'thorough' else rng.choice(col_keys)
                yield from emit_frame_iloc(ctx, 'api:frame.iloc-rowkeys', fr, frl, fdesc, rk, ck)


def api_frame_loc(ctx):
    rng = ctx.rng
    combos = [('str', 'str'), ('int', 'str'), ('str', 'int'), ('auto', 'auto'), ('auto', 'str'), ('int', 'auto')]
    pats = ['iifs', 'iiii', 'ifbo', 'ii', ''] if ctx.tier == 'quick' else ['iifs', 'iiii', 'ifbo', 'ssd', 'ii', 'o', '', 'iii']
    per_frame = ctx.n(4, 16)
    for rkind0, ckind0 in combos:
        for fr, frl, fdesc in frames(ctx, pats, [0, 1, 3, 4] if ctx.tier == 'thorough' else [1, 3, 4], rkind0, ckind0,
                                     layouts=ctx.n(3, 8)):
            rkind, ckind = rkind0, ckind0
            nr, nc = fr.shape
            # an axis built from no labels is an auto-integer index whatever was asked for
            rkind = 'auto' if axkind_of(fr.index) == 'KAuto' else rkind
            ckind = 'auto' if axkind_of(fr.columns) == 'KAuto' else ckind
            rl, cl = axis_label_values(rkind, nr, 0), axis_label_values(ckind, nc, 1)
            for _ in range(per_frame):
                route = 'loc' if rng.random() < 0.75 else 'getitem'
                ckey = random_lk(rng, ckind, cl)
                if route == 'getitem':
                    yield from emit_frame_loc(ctx, 'api:frame.getitem', fr, frl, fdesc, 'getitem', None, ckey, rkind, ckind)
                    continue
                rkey = random_lk(rng, rkind, rl, malformed_ok=False) if _malformed(ckey, cl) else random_lk(rng, rkind, rl)
                if rng.random() < 0.15:
                    ckey = None
                yield from emit_frame_loc(ctx, 'api:frame.loc', fr, frl, fdesc, 'loc', rkey, ckey, rkind, ckind)


def _malformed(lk, labels):
    if lk.kind.startswith('iloc:'):
        return True     # conservatively: do not pair with another possibly malformed key
    return lk_positions(lk, labels) is None


def api_frame_hier(ctx):
    '''Hierarchical index on either axis: specification only (the hierarchical label translation is C05's model).'''
    rng = ctx.rng
    for rkind, ckind in (('hier', 'str'), ('str', 'hier')):
        for fr, frl, fdesc in frames(ctx, ['iiii', 'iifs', 'ii'], [2, 4], rkind, ckind, layouts=ctx.n(2, 6)):
            nr, nc = fr.shape
            rl, cl = axis_label_values(rkind, nr, 0), axis_label_values(ckind, nc, 1)
            for _ in range(ctx.n(6, 24)):
                if rng.random() < 0.5:
                    rk, ck = random_pk(rng, nr, malformed_ok=False), random_pk(rng, nc, malformed_ok=False)
                    n_, labels, key = (nr, rl, rk) if rkind == 'hier' else (nc, cl, ck)
                    pos = key.positions(n_)
                    fnd = None
                    if pos is not None and len(set(pos)) == len(pos) and not tree_ordered([labels[i] for i in pos]) and not key.scalar:
                        fnd = 'C04-hier-nontree-order'
                    yield from emit_frame_iloc(ctx, 'api:frame.hier-axis', fr, frl, fdesc, rk, ck, model=False, finding=fnd)
                else:
                    rkey = random_lk(rng, rkind, rl, malformed_ok=False)
                    ckey = random_lk(rng, ckind, cl, malformed_ok=False)
                    yield from emit_frame_loc(ctx, 'api:frame.hier-axis', fr, frl, fdesc, 'loc', rkey, ckey, rkind, ckind, model=False)


def api_frame_boollist(ctx):
    """A Python LIST of bools as a positional key. NumPy and the indices read it as a mask; the block walk reads a column key as
    the integers 1 / 0 (finding C04-boollist-column-key) and does not see a row key selecting ONE row as single_row (finding
    C04-boollist-row-key-one-true). Specification: the mask."""
    for pattern, lays in (('iii', [((3, True),), ((1, False), (2, True)), ((1, False), (1, True), (1, False))]),
                          ('ifs', [((1, False), (1, True), (1, False))])):
        for layout in lays:
            fr = make_frame(pattern, layout, 2)
            frl = frame_lit(fr)
            fdesc = {'columns_dtypes': pattern, 'layout': zoo.layout_str(layout), 'rows': 2, 'index': 'str', 'columns': 'str',
                     'build': 'sfv.props.c04.make_frame(columns_dtypes, layout, rows)'}
            nc = fr.shape[1]
            for m in itertools.product((False, True), repeat=nc):
                obs = observe(lambda: fr.iloc[:, list(m)])
                pk = pk_mask(m)
                desc = dict(fdesc, call='frame.iloc[:, ck]', ck=[bool(x) for x in m], ck_kind='python list of bool', observed=obs[:400])
                ctx.count('route:iloc', 'ck:boollist')
                yield Case('api:frame.iloc-boollist', desc, s=f'let F := {frl} in eq_S 0 (Sx F CAll {pk.coq}) {obs}',
                           tags={'route': 'iloc', 'ckind': 'boollist', 'finding': 'C04-boollist-column-key'}, nontrivial=any(m) and not all(m))
            wide2d = any(is2d and w > 1 for w, is2d in layout)
            for m in itertools.product((False, True), repeat=2):
                obs = observe(lambda: fr.iloc[list(m)])
                pk = pk_mask(m)
                desc = dict(fdesc, call='frame.iloc[rk]', rk=[bool(x) for x in m], rk_kind='python list of bool', observed=obs[:400])
                tags = {'route': 'iloc', 'rkind': 'boollist'}
                if sum(m) == 1 and wide2d:
                    tags['finding'] = 'C04-boollist-row-key-one-true'
                ctx.count('route:iloc', 'rk:boollist')
                yield Case('api:frame.iloc-boollist', desc, s=f'let F := {frl} in eq_S 0 (Sx F {pk.coq} CAll) {obs}',
                           tags=tags, nontrivial=any(m) and not all(m))


def api_frame_tuples(ctx):
    '''Object column whose cells are tuples (D11).'''
    rng = ctx.rng
    for pattern in ('ti', 'it', 't'):
        for layout in zoo.layouts_for(dtypes_of(pattern)):
            fr = make_frame(pattern, layout, 3)
            frl = frame_lit(fr)
            fdesc = {'columns_dtypes': pattern, 'layout': zoo.layout_str(layout), 'rows': 3, 'index': 'str', 'columns': 'str',
                     'build': 'sfv.props.c04.make_frame(columns_dtypes, layout, rows)  # t = object column of tuples'}
            nc = len(pattern)
            tcol = pattern.index('t')
            keys = [(pk_int(1), None), (pk_int(-1), pk_none()), (pk_int(0), pk_list(list(range(nc)))), (pk_int(2), pk_slice(0, nc, None)),
                    (pk_int(1), pk_int(tcol)), (pk_none(), pk_int(tcol)), (pk_list([2, 0]), None), (pk_slice(1, 2, None), pk_none()),
                    (pk_mask([False, True, False]), pk_list([tcol]))]
            for rk, ck in keys:
                cpos = (ck or pk_none()).positions(nc)
                fnd = 'C04-tuple-cells-row' if (rk.scalar and not (ck or pk_none()).scalar and tcol in cpos) else None
                yield from emit_frame_iloc(ctx, 'api:frame.tuple-cells', fr, frl, fdesc, rk, ck, model=fnd is None, finding=fnd)


# ------------------------------------------------------------------------------------------ strata: Series
def emit_series(ctx, stratum, sr, srl, sdesc, route, key, ikind):
    n = len(sr)
    if axkind_of(sr.index) == 'KAuto':
        ikind = 'auto'
    labels = axis_label_values(ikind, n, 0)
    if route == 'iloc':
        obs = observe(lambda: sr.iloc[key.py])
        m = f'eq_M 0 (Ssi S {key.coq}) {obs}' if ikind != 'hier' else None
        s = f'eq_S 0 (Ssi S {key.coq}) {obs}'
        pos = key.positions(n)
        tags = {'route': 'series.iloc', 'kind': key.kind, 'axis': ikind}
        if ikind == 'hier' and pos is not None and not key.scalar and len(set(pos)) == len(pos) and not tree_ordered([labels[i] for i in pos]):
            tags['finding'] = 'C04-hier-nontree-order'
    else:
        obs = observe((lambda: sr.loc[key.py]) if route == 'loc' else (lambda: sr[key.py]))
        kind = axkind_of(sr.index)
        m = f'eq_M 0 (Msl {kind} S {key.coq}) {obs}' if ikind != 'hier' else None
        s = f'eq_S 0 (Ssl S {key.coq}) {obs}'
        pos = _lk_pos(key, ikind, labels)
        tags = {'route': 'series.' + route, 'kind': key.kind, 'axis': ikind}
        if ikind == 'auto' and any(not (0 <= i < n) for i in key.ints):
            tags['finding'] = 'C04-autoindex-unvalidated-int'
        elif key.neg_step_stop:
            tags['finding'] = 'C04-label-slice-negative-step'
        elif ikind == 'hier' and pos is not None and not key.scalar and len(set(pos)) == len(pos) and not tree_ordered([labels[i] for i in pos]):
            tags['finding'] = 'C04-hier-nontree-order'
    ctx.count('route:series.' + route, 'sk:' + key.kind, 'saxis:' + ikind, _obs_kind(obs))
    desc = dict(sdesc, call=f'series.{route}[key]' if route != 'getitem' else 'series[key]', key=key.desc, key_kind=key.kind, observed=obs[:400])
    head = f'let S := {srl} in '
    c = Case(stratum, desc, m=(head + m) if m else None, s=head + s, tags=tags,
             nontrivial=pos is None or (0 < len(pos) and pos != list(range(n))))
    return [c] + _finding_twin(c)


def api_series(ctx):
    rng = ctx.rng
    for ikind in ('str', 'int', 'auto', 'hier'):
        for vkind in ('i', 'o', 's') if ctx.tier == 'thorough' else ('i', 'o'):
            for n in (0, 1, 2, 3, 4):
                sr = make_series(vkind, n, ikind)
                srl = series_lit(sr)
                sdesc = {'values_dtype': vkind, 'len': n, 'index': ikind, 'build': 'sfv.props.c04.make_series(values_dtype, len, index)'}
                ikind_eff = 'auto' if axkind_of(sr.index) == 'KAuto' else ikind
                labels = axis_label_values(ikind_eff, n, 0)
                # positional: every int, every mask, sampled / all slices
                keys = list(all_ints(n)) + [pk_mask(m) for m in itertools.product((False, True), repeat=n)]
                slices = list(all_slices(n))
                if ctx.tier == 'quick' or vkind != 'i':
                    slices = rng.sample(slices, min(len(slices), ctx.n(20, 60)))
                keys += slices + [random_list(rng, n, valid=rng.random() < 0.7) for _ in range(ctx.n(4, 12))]
                for k in keys:
                    yield from emit_series(ctx, 'api:series.iloc', sr, srl, sdesc, 'iloc', k, ikind)
                for _ in range(ctx.n(14, 60)):
                    k = random_lk(rng, ikind_eff, labels)
                    yield from emit_series(ctx, 'api:series.loc', sr, srl, sdesc, 'loc' if rng.random() < 0.7 else 'getitem', k, ikind)


def api_witnesses(ctx):
    """The canonical input of each finding class that the random streams could miss: known findings must be witnessed every run."""
    fr = make_frame('iiii', ((2, True), (1, False), (1, True)), 4)
    fdesc = {'columns_dtypes': 'iiii', 'layout': '2d|1s|1d', 'rows': 4, 'index': 'str', 'columns': 'str',
             'build': 'sfv.props.c04.make_frame(columns_dtypes, layout, rows)'}
    yield from emit_frame_iloc(ctx, 'api:frame.iloc', fr, frame_lit(fr), fdesc, pk_slice(0, 2, None), pk_slice(0, 0, None))
    yield from emit_frame_iloc(ctx, 'api:frame.iloc', fr, frame_lit(fr), fdesc, pk_list([3, 1]), pk_mask([False] * 4))
    sr = make_series('i', 4, 'hier')
    sdesc = {'values_dtype': 'i', 'len': 4, 'index': 'hier', 'build': 'sfv.props.c04.make_series(values_dtype, len, index)'}
    yield from emit_series(ctx, 'api:series.iloc', sr, series_lit(sr), sdesc, 'iloc', pk_list([0, 2, 1]), 'hier')
    yield from emit_series(ctx, 'api:series.loc', sr, series_lit(sr), sdesc, 'loc', lk_list([('b', 1), ('a', 2), ('b', 2)]), 'hier')


def api_series_label_slices(ctx):
    '''EVERY label slice (start, stop in labels + None + one absent label; step in None, 1, 2, -1, -2) of a 4-label Series,
    for a string index, an integer index and the auto-integer index.'''
    for ikind in ('str', 'int', 'auto'):
        n = 4
        sr = make_series('i', n, ikind)
        srl = series_lit(sr)
        sdesc = {'values_dtype': 'i', 'len': n, 'index': ikind, 'build': 'sfv.props.c04.make_series(values_dtype, len, index)'}
        labels = axis_label_values(ikind, n, 0)
        ends = labels + [None] + ([ABSENT[ikind]] if ikind != 'auto' else [-1, n])
        for a, b, st in itertools.product(ends, ends, [None, 1, 2, -1, -2]):
            yield from emit_series(ctx, 'api:series.label-slices', sr, srl, sdesc, 'loc', lk_slice(a, b, st), ikind)


# ------------------------------------------------------------------------------------------ strata: datetime axes
_UNIT = {'D': 'UD', 'M': 'UM', 'Y': 'UY'}


def _dt_count(x, unit):
    return int(np.datetime64(x, unit).astype('int64'))


def dt_keys(rng, ikind, n):
    '''(python key, dkey literal, scalar?, kind, desc) for a date ('D' labels) or year-month ('M' labels) index.'''
    strs = (DATE_LABELS if ikind == 'date' else YM_LABELS)[:n]
    unit = 'D' if ikind == 'date' else 'M'
    lab = lambda sx: f'(VDt {_UNIT[unit]} {lit.z(_dt_count(sx, unit))})'
    out = []
    absent = '2020-01-15' if ikind == 'date' else '2020-07'
    for sx in strs + [absent]:
        out.append((sx, f'(DKey (LLabel {lab(sx)}))', True, 'dt-label-str', sx))
        out.append((np.datetime64(sx, unit), f'(DKey (LLabel {lab(sx)}))', True, 'dt-label-dt64', sx))
        if ikind == 'date':
            y, m, d = (int(t) for t in sx.split('-'))
            out.append((datetime.date(y, m, d), f'(DKey (LLabel {lab(sx)}))', True, 'dt-label-date', sx))
    periods = {}
    coarser = ['M', 'Y'] if ikind == 'date' else ['Y']
    for u in coarser:
        seen = sorted({str(np.datetime64(sx, u)) for sx in strs} | {'2020-07' if u == 'M' else '2018'})
        periods[u] = seen
        for px in seen:
            c = _dt_count(px, u)
            out.append((px, f'(DPeriod {_UNIT[u]} {lit.z(c)})', False, 'dt-period-str', px))
            out.append((np.datetime64(px, u), f'(DPeriod {_UNIT[u]} {lit.z(c)})', False, 'dt-period-dt64', px))
    # lists
    for _ in range(3):
        sub = rng.sample(strs, rng.randint(0, n)) if n else []
        if sub:
            out.append((list(sub), '(DKey (LList ' + lit.lst([lab(sx) for sx in sub]) + '))', False, 'dt-labels-list', list(sub)))
            out.append((np.array(sub, dtype=f'datetime64[{unit}]'), '(DKey (LList ' + lit.lst([lab(sx) for sx in sub]) + '))', False, 'dt-labels-array', list(sub)))
    for u in coarser:
        ps = sorted(rng.sample(periods[u], min(2, len(periods[u]))))
        cs = lit.lst([lit.z(_dt_count(px, u)) for px in ps])
        out.append((list(ps), f'(DPeriods {_UNIT[u]} {cs})', False, 'dt-periods-list', list(ps)))
        out.append((np.array(ps, dtype=f'datetime64[{u}]'), f'(DPeriods {_UNIT[u]} {cs})', False, 'dt-periods-array', list(ps)))
    # slices: ends are labels, non-empty periods or None
    ends = [(None, 'None', None)]
    for sx in strs:
        ends.append((sx, f'(Some (EL {lab(sx)}))', sx))
    for u in coarser:
        for px in sorted({str(np.datetime64(sx, u)) for sx in strs}):
            ends.append((px, f'(Some (EP {_UNIT[u]} {lit.z(_dt_count(px, u))}))', px))
    for _ in range(10):
        (a, al, ad), (b, bl, bd) = rng.choice(ends), rng.choice(ends)
        st = rng.choice([None, None, 1, 2])
        out.append((slice(a, b, st), f'(DSlice {al} {bl} {lit.oz(st)})', False, 'dt-slice', [ad, bd, st]))
    return out


def api_datetime(ctx):
    rng = ctx.rng
    import static_frame as sf
    for ikind in ('date', 'ym'):
        for n in (0, 2, 5):
            sr = make_series('i', n, ikind)
            srl = series_lit(sr)
            sdesc = {'values_dtype': 'i', 'len': n, 'index': ikind, 'build': 'sfv.props.c04.make_series(values_dtype, len, index)'}
            for py, dk, scalar, kind, d in dt_keys(rng, ikind, n):
                for route in ('loc', 'getitem'):
                    obs = observe((lambda: sr.loc[py]) if route == 'loc' else (lambda: sr[py]))
                    ctx.count('route:series.' + route, 'sk:' + kind, 'saxis:' + ikind, _obs_kind(obs))
                    yield Case('api:series.datetime', dict(sdesc, call=f'series.{route}[key]', key=_j(d), key_kind=kind, key_repr=repr(py)[:80], observed=obs[:300]),
                               s=f'let S := {srl} in eq_S 0 (Ssd S {dk}) {obs}',
                               tags={'route': 'series.' + route, 'kind': kind, 'axis': ikind}, nontrivial=n > 0)
        # Frames with the datetime axis as rows, then as columns
        for rows_dt in (True, False):
            pattern, n = ('iifs', 5) if rows_dt else ('iiiii', 3)
            for layout in rng.sample(list(zoo.layouts_for(dtypes_of(pattern))), ctx.n(3, 8)):
                fr = make_frame(pattern, layout, n, ikind if rows_dt else 'str', 'str' if rows_dt else ikind)
                frl = frame_lit(fr)
                fdesc = {'columns_dtypes': pattern, 'layout': zoo.layout_str(layout), 'rows': n,
                         'index': ikind if rows_dt else 'str', 'columns': 'str' if rows_dt else ikind,
                         'build': 'sfv.props.c04.make_frame(columns_dtypes, layout, rows, index, columns)'}
                other_labels = axis_label_values('str', fr.shape[1] if rows_dt else fr.shape[0], 1 if rows_dt else 0)
                keys = dt_keys(rng, ikind, 5)
                for py, dk, scalar, kind, d in rng.sample(keys, min(len(keys), ctx.n(10, 40))):
                    ok = _plain_lk(rng, other_labels)
                    if not rows_dt and not ok.scalar:
                        ok = lk_slice(None, None, None)   # a datetime COLUMN key may select nothing: keep every row (finding class otherwise)
                    if rows_dt:
                        obs = observe(lambda: fr.loc[py, ok.py])
                        mode = 1 if (scalar and not ok.scalar) else 0
                    else:
                        obs = observe(lambda: fr.loc[ok.py, py])
                        mode = 1 if (ok.scalar and not scalar) else 0
                    ctx.count('route:loc', 'dtaxis:' + ('rows' if rows_dt else 'columns'), 'dk:' + kind, _obs_kind(obs))
                    yield Case('api:frame.datetime-axis',
                               dict(fdesc, call='frame.loc[rk, ck]', dt_key=_j(d), dt_key_kind=kind, dt_key_repr=repr(py)[:80],
                                    other_key=ok.desc, other_key_kind=ok.kind, observed=obs[:300]),
                               s=f'let F := {frl} in eq_S {mode} (Sxd rdt_val F {lit.b(rows_dt)} {dk} {ok.coq}) {obs}',
                               tags={'route': 'loc', 'kind': kind, 'axis': ikind}, nontrivial=True)


def _plain_lk(rng, labels):
    '''A well-formed, non-empty label key outside every finding class (for the axis that is not under test).'''
    r = rng.random()
    if r < 0.3:
        return lk_label(rng.choice(labels))
    if r < 0.6:
        return lk_list(rng.sample(labels, rng.randint(1, len(labels))))
    if r < 0.8:
        i, j = sorted((rng.randrange(len(labels)), rng.randrange(len(labels))))
        return lk_slice(labels[i], labels[j], rng.choice([None, 2]))
    return lk_slice(None, None, None)


def oracle_datetime(ctx):
    '''np.datetime64 D -> M / Y conversion against the Gallina oracle model.'''
    rng = ctx.rng
    days = [-800000, -719468, -141428, -36525, -366, -365, -31, -1, 0, 1, 30, 31, 58, 59, 60, 364, 365, 366, 789, 790, 11016, 11017,
            18261, 18262, 18321, 18322, 47540, 47541, 73049, 73050, 2932896]
    days += [rng.randint(-200000, 200000) for _ in range(ctx.n(200, 3000))]
    for d in days:
        m = int(np.datetime64(d, 'D').astype('datetime64[M]').astype('int64'))
        y = int(np.datetime64(d, 'D').astype('datetime64[Y]').astype('int64'))
        ym = int(np.datetime64(m, 'M').astype('datetime64[Y]').astype('int64'))
        ctx.count('oracle:datetime')
        yield Case('oracle:datetime64-unit-conversion', {'call': "np.datetime64(days,'D').astype('datetime64[M]' / '[Y]')", 'days': d, 'months': m, 'years': y},
                   m=(f'option_eqb Z.eqb (conv_unit UD UM {lit.z(d)}) (Some {lit.z(m)}) && option_eqb Z.eqb (conv_unit UD UY {lit.z(d)}) (Some {lit.z(y)}) '
                      f'&& option_eqb Z.eqb (conv_unit UM UY {lit.z(m)}) (Some {lit.z(ym)})'),
                   tags={'oracle': 'datetime'}, nontrivial=False, key=f'dt:{d}')


# ------------------------------------------------------------------------------------------ strata: bloc
def api_bloc(ctx):
    rng = ctx.rng
    import static_frame as sf
    for fr, frl, fdesc in frames(ctx, ['iii', 'iifs', 'ifbo'], [1, 3], layouts=ctx.n(3, 10)):
        nr, nc = fr.shape
        for trial in range(ctx.n(4, 16)):
            key = np.array([[rng.random() < 0.45 for _ in range(nc)] for _ in range(nr)], dtype=bool).reshape(nr, nc)
            as_frame = trial % 3 == 2
            if as_frame:
                # a Boolean Frame key is aligned by label: give it shuffled and partial labels
                rsel = rng.sample(range(nr), rng.randint(1, nr))
                csel = rng.sample(range(nc), rng.randint(1, nc))
                kf = sf.Frame(key[np.ix_(rsel, csel)], index=[fr.index.values[i] for i in rsel], columns=[fr.columns.values[j] for j in csel])
                eff = np.zeros((nr, nc), dtype=bool)
                for a, i in enumerate(rsel):
                    for b_, j in enumerate(csel):
                        eff[i, j] = key[i, j]
                pykey, key = kf, eff
            else:
                pykey = key
            kl = lit.lst([lit.lst([lit.b(key[i, j]) for i in range(nr)]) for j in range(nc)])

            def printer(r):
                if not isinstance(r, sf.Series):
                    raise AssertionError('bloc did not return a Series')
                return lit.lst([f'(({lit.val(l[0])}, {lit.val(l[1])}), {lit.val(v)})' for l, v in zip(r.index.values.tolist(), lit.array_vals(r.values))])
            obs, _ = lit.res(lambda: fr.bloc[pykey], printer)
            ctx.count('route:bloc', 'bloc-key:' + ('frame' if as_frame else 'array'), 'bloc-true:%d' % int(key.sum()))
            desc = dict(fdesc, call='frame.bloc[key]', key=[[bool(x) for x in row] for row in key.tolist()],
                        key_kind='Boolean Frame (label aligned)' if as_frame else 'Boolean array', observed=obs[:300])
            head = f'let F := {frl} in '
            yield Case('api:frame.bloc', desc,
                       m=head + f'res_eqb (list_eqb cell_eqb) (Ok (Mb F {kl})) {obs}',
                       s=head + f'res_eqb (perm_eqb cell_eqb) (Ok (Sb F {kl})) {obs}',
                       tags={'route': 'bloc'}, nontrivial=0 < int(key.sum()) < nr * nc)


# ------------------------------------------------------------------------------------------ strata: kernels
def _slc_lit(sl):
    if isinstance(sl, (int, np.integer)):          # the integer-key pair (block, column): one column
        return f'(mk_slice (Some {lit.z(sl)}) (Some {lit.z(sl + 1)}) None)'
    return lit.slice_(sl)


def _pairs_printer(pairs):
    return lit.lst([f'({lit.z(b)}, {_slc_lit(sl)})' for b, sl in pairs])


def kernel_contiguous_pairs(ctx):
    from static_frame.core.type_blocks import TypeBlocks
    symbols = [(b, c) for b in (0, 1) for c in (0, 1, 2)]
    maxlen = 3 if ctx.tier == 'quick' else 4
    for k in range(0, maxlen + 1):
        for seq in itertools.product(symbols, repeat=k):
            obs, _ = lit.res(lambda: list(TypeBlocks._indices_to_contiguous_pairs(list(seq))), _pairs_printer)
            pl = lit.lst([f'({b}, {c})' for b, c in seq])
            ctx.count('kernel:contiguous_pairs')
            yield Case('kernel:indices_to_contiguous_pairs', {'call': 'TypeBlocks._indices_to_contiguous_pairs', 'indices': [list(p) for p in seq], 'observed': obs[:200]},
                       m=f'res_eqb (list_eqb (pair_eqb Z.eqb slice_eqb)) (Ok (contiguous_pairs {pl})) {obs}',
                       tags={'kernel': 'contiguous_pairs'}, nontrivial=k > 1)


def kernel_key_to_block_slices(ctx):
    from static_frame.core.type_blocks import TypeBlocks
    rng = ctx.rng
    for m in range(0, 5):
        for layout in (zoo.layouts_for([np.dtype(np.int64)] * m) if m else [()]):
            if m:
                tb = TypeBlocks.from_blocks(zoo.blocks_from_columns([np.arange(2) + j for j in range(m)], layout))
            else:
                tb = TypeBlocks.from_zero_size_shape((2, 0))
            tl = lit.lst([f'(mk_block (DInt true 8) {lit.b(not is2d)} ' + lit.lst(['[0; 0]'] * w) + ')' for w, is2d in layout])
            keys = [pk_none()] + all_ints(m) + [pk_mask(x) for x in itertools.product((False, True), repeat=m)]
            slices = list(all_slices(m))
            keys += slices if ctx.tier == 'thorough' and m <= 3 else rng.sample(slices, min(len(slices), ctx.n(12, 150)))
            keys += [pk_list(list(p)) for k in range(0, 3) for p in itertools.product(range(-m, m), repeat=k)]
            for k in keys:
                obs, _ = lit.res(lambda: list(tb._key_to_block_slices(k.py)), _pairs_printer)
                if obs == '(Err "TypeError")':
                    continue
                ctx.count('kernel:key_to_block_slices', 'kk:' + k.kind)
                yield Case('kernel:key_to_block_slices',
                           {'call': 'TypeBlocks._key_to_block_slices', 'layout': zoo.layout_str(layout), 'key': k.desc, 'key_kind': k.kind, 'observed': obs[:200]},
                           m=f'res_eqb (list_eqb (pair_eqb Z.eqb slice_eqb)) (@key_to_block_slices Z {tl} {k.coq}) {obs}',
                           tags={'kernel': 'key_to_block_slices'}, nontrivial=k.kind != 'all', key=f'k2bs:{zoo.layout_str(layout)}:{k.kind}:{k.desc}')


def kernel_extract_array_repeats(ctx):
    """TypeBlocks._extract_array(column_key=list) where repeats are allowed (no index to keep unique): internal clients
    (sort_values / iter_group / set_index_hierarchy with a repeated label) reach it. Zig-zag repeats inside one 2-D block are
    the known finding C04-repeated-column-key-zigzag."""
    from static_frame.core.type_blocks import TypeBlocks
    rng = ctx.rng
    m, rows = 4, 2
    lays = list(zoo.layouts_for([np.dtype(np.int64)] * m))
    if ctx.tier == 'quick':
        lays = rng.sample(lays, 6) + [((4, True),)]
    for layout in lays:
        cols = [np.array([10 * j + i for i in range(rows)], dtype=np.int64) for j in range(m)]
        tb = TypeBlocks.from_blocks(zoo.blocks_from_columns(cols, layout))
        blk = [bi for bi, (w, _) in enumerate(layout) for _ in range(w)]      # block of each column position
        tl = lit.lst([f'(mk_block (DInt true 8) {lit.b(not is2d)} ' +
                      lit.lst([lit.lst([lit.z(v) for v in cols[sum(w_ for w_, _ in layout[:bi]) + j]]) for j in range(w)]) + ')'
                      for bi, (w, is2d) in enumerate(layout)])
        for k in (1, 2, 3):
            for key in itertools.product(range(m), repeat=k):
                key = list(key)

                def run():
                    a = tb._extract_array(column_key=key)
                    if a.ndim != 2:
                        raise AssertionError('expected a 2-D array')
                    return [a[:, j].tolist() for j in range(a.shape[1])]
                obs, _ = lit.res(run, lambda cs: lit.lst([lit.lst([lit.z(v) for v in c]) for c in cs]))
                zigzag = any(blk[key[i]] == blk[key[i + 1]] == blk[key[i + 2]] and key[i + 2] == key[i] and abs(key[i + 1] - key[i]) == 1
                             for i in range(len(key) - 2))
                tags = {'kernel': 'extract_array', 'repeats': len(set(key)) < len(key)}
                if zigzag:
                    tags['finding'] = 'C04-repeated-column-key-zigzag'
                kl = '(CList ' + lit.lst([lit.z(i) for i in key]) + ')'
                ctx.count('kernel:extract_array', 'repeats:%s' % tags['repeats'])
                eqb = 'res_eqb (list_eqb (list_eqb Z.eqb))'
                yield Case('kernel:extract_array-repeats',
                           {'call': 'TypeBlocks._extract_array(column_key=key)', 'layout': zoo.layout_str(layout), 'key': key, 'observed': obs[:200],
                            'public_reach': 'Frame.sort_values / iter_group_items / set_index_hierarchy with these column positions'},
                           m=f'{eqb} (res_map (fun t => map snd (flatten t)) (@M_select_columns Z {tl} {kl})) {obs}',
                           s=f'{eqb} (res_map (map snd) (@S_select_columns Z (flatten {tl}) {kl})) {obs}',
                           tags=tags, nontrivial=True, key=f'xa:{zoo.layout_str(layout)}:{key}')


def kernel_inclusive_slice(ctx):
    from static_frame.core.util import slice_to_inclusive_slice
    R = 3 if ctx.tier == 'quick' else 6
    vals = [None] + list(range(-R, R + 1))
    for a, b, c in itertools.product(vals, vals, [None, -2, -1, 1, 2]):
        for off in (0, 3):
            k = slice(a, b, c)
            out = lit.pv_call(slice_to_inclusive_slice, k, off)
            ctx.count('kernel:slice_to_inclusive_slice')
            yield Case('kernel:slice_to_inclusive_slice', {'call': 'static_frame.core.util.slice_to_inclusive_slice', 'key': [a, b, c], 'offset': off, 'observed': out},
                       m=f'pv_eqb (slice_to_inclusive_slice {lit.pv(k)} {lit.pv(off)}) {out} && pv_eqb (of_slice (incl_typed {lit.slice_(k)} {lit.z(off)})) {out}',
                       tags={'kernel': 'slice_to_inclusive_slice'}, nontrivial=b is not None)


def cases(ctx):
    yield from api_frame_iloc(ctx)
    yield from api_frame_iloc_colwalk(ctx)
    yield from api_frame_iloc_rowkeys(ctx)
    yield from api_frame_loc(ctx)
    yield from api_frame_hier(ctx)
    yield from api_frame_boollist(ctx)
    yield from api_frame_tuples(ctx)
    yield from api_series(ctx)
    yield from api_series_label_slices(ctx)
    yield from api_witnesses(ctx)
    yield from api_datetime(ctx)
    yield from api_bloc(ctx)
    yield from oracle_datetime(ctx)
    yield from kernel_contiguous_pairs(ctx)
    yield from kernel_key_to_block_slices(ctx)
    yield from kernel_inclusive_slice(ctx)
    yield from kernel_extract_array_repeats(ctx)
