'''C06 -- index set algebra and label alignment of binary operators.'''
import itertools

import numpy as np

from .. import lit
from .. import zoo
from ..core import Case

ID = 'C06'
MANIFEST = {
    'text': ('Coq theorems (all unbounded, abstract label/cell types, closed under the global context): C06_set_ops_exact -- every path of '
             'Index._ufunc_set / util._ufunc_set_1d/_2d (equals shortcut, empty shortcuts, assume_unique same-length element-wise-equal shortcut, '
             'frozenset path sorted or in hash order, NumPy path; Index / ndarray / iterable operands) yields exactly the labels set algebra prescribes, each once; '
             'C06_identical_operands_keep_order; C06_set_iter_exact (ufunc_set_iter); C06_reindex_is_label_lookup -- IndexCorrespondence.from_correspondence + '
             'Series.reindex (common labels in ANY order, is_subset/has_common decision, fancy take / assignment) is a label lookup; C06_binop_aligned, '
             'C06_binop_value_where_both, C06_binop_missing_elsewhere, C06_binop_permutation_invariant -- Series op Series carries the union of the labels, holds '
             'op(a,b) / the missing marker per label, is invariant under re-ordering either operand, keeps the left order for equal indices; '
             'C06_resize_blocks_layout_independent and C06_frame_reindex_every_layout_is_label_lookup -- TypeBlocks.resize_blocks / Frame.reindex over EVERY block '
             'layout equal the (row label, column label) lookup on the flattened columns (unconditionally since fix 658b4ce); C06_tb_binop_layout_independent -- the operator between two aligned TypeBlocks (block_compatible / reblock / column-wise paths) '
             'equals the per-column application on the flattened operands for every pair of layouts; C06_models_use_source_constants -- the '
             'keyword constants regenerated from the source (check_equals, union, fill_value, assume_unique) are the ones the models use. Refuted/C06.v: one computed '
             'witness per known finding. Correspondence (model evaluated by vm_compute inside Coq on the inputs the implementation ran on): Index / IndexHierarchy '
             'set operations (exhaustive over all pairs of repetition-free sequences of <= 3/4 labels, int/str/mixed-object labels, every operand kind), util kernels '
             'called directly, Series op Series (exhaustive small + random: int/str/object/tuple/hierarchical labels, int/float/bool cells, arithmetic, comparison, '
             'logical and reflected operators), Series with scalar/array, Frame op Frame over every pair of block layouts of <= 2/3 columns and random shapes, '
             'Frame op Series on both axes, Frame with scalar/array, Frame.reindex over every layout; hierarchies whose branches share one inner Index object; NaN / NaT labels '
             '(ordinary labels only) with Index.equals against its model; an operator matrix decided on the Python side against NumPy-scalar references: EVERY binary operator '
             'method, direct and reflected, of Series, Frame and Frame.via_T with scalar / tuple / list / array / Series operands on several layouts, with pairwise '
             'distinguishable operand values; datetime indices of different units; coverage-guided routes (string cells, 2-D array operands, many / zero operands, grown IndexGO, '
             'range / dict / generator operands, Boolean labels, mixed depth, IndexHierarchy with ndarray / list / empty / date-typed / int32 operands, 2-D kernels on width-1 / empty / '
             'unsortable rows, unified-block fancy selection of resize_blocks, consolidation of several dtype runs).'),
    'note': ('Trusted / assumed: the Coq kernel; the hand-written models (tied to the code only by the differential runs of this check and by the regenerated '
             'constants and the regenerated util.resolve_dtype used for the object-path and NaN-fill dtype decisions); ORACLE models of NumPy (np.union1d / intersect1d / '
             'setdiff1d as sort+dedup+filter; element-wise operators on exact integers, dyadic rationals, Booleans and NaN; sorted() fails exactly on mixed number/str '
             'label sets); label equality = structural equality of the observed values (no label set mixes 1 / 1.0 / True); the hash order of an unsortable frozenset is '
             'not predicted (such results are compared as label->value maps). Partial: TypeBlocks._ufunc_binary_operator (block_compatible / reblock / values paths) is '
             'proved layout-independent for a TypeBlocks operand (C06_tb_binop_layout_independent) and for a 1-D / scalar operand on either axis (C06_tb_rowwise_layout_independent, C06_tb_colwise_layout_independent); dtype of results is observed only through the value classes (int / float / bool); the Coq operator oracle covers + - * / // % comparisons and & | ^ on int / float / bool cells; pow, shifts, string cells, Boolean and mixed-depth labels, '
             'many-operand set operations, grown IndexGO operands, 2-D array operands and the other coverage-guided routes are decided on the Python side against NumPy / dict '
             'references (no model term); matmul, datetime / timedelta CELLS, unsigned and bytes dtypes, operators between Index objects beyond a positional check, the '
             'compare_name / compare_class flags of equals, and the scalar-Boolean branch of apply_binary_operator (dead under NumPy 2) are not covered. Six open findings are listed in known/C06.jsonl (D12 comparisons, D12 logical operators, zero-column results, datetime indices of different units with an unsorted operand, Boolean labels with different label sets, a 1-D tuple index against a hierarchy); two more (resize_blocks with one axis '
             'without common labels: fix 658b4ce; the .values fallback of incompatible layouts coercing every column: fix e1c1c73) are repaired and kept as regression classes.'),
    'technique': 'refinement proof (decision-procedure / block-walking model = set algebra / label lookup) + differential correspondence evaluated inside Coq',
}
PROPERTY_FILES = ['Properties/C06.v']
REFUTED_FILES = ['Refuted/C06.v']
MODEL_FILES = ['Gen/Gen_c06.v', 'SF/SetAlg.v', 'SF/SetAlgVal.v', 'SF/LabelAlign.v', 'SF/LabelAlignVal.v', 'SF/FrameAlign.v', 'SF/FrameAlignVal.v']
TRANSLATED = ['resolve_dtype']
IMPORTS = 'Require Import SF.Prelude SF.Dtype SF.Value SF.SetAlg SF.SetAlgVal SF.LabelAlign SF.LabelAlignVal SF.FrameAlign SF.FrameAlignVal.'
RULE = ('API strata call only public methods (Index.union/intersection/difference, the operator dunders of Series / Frame / Frame.via_T, Frame.reindex) on inputs '
        'built with a chosen block layout (sfv.zoo); kernel strata call util.union1d ... ufunc_set_iter directly. Exhaustive parts: all pairs of repetition-free '
        'label sequences over 3 (quick) / 4 (thorough) labels x 3 operations x label kinds; all pairs of sequences with repetitions (assume_unique=False); all pairs '
        'of block layouts of 2 (quick) / 3 (thorough, sampled) int/float columns with equal and with shifted labels. Random parts draw sizes 0..7, overlap mode '
        '(equal / permuted / overlapping / disjoint / empty), label kind, cell dtype, operator (incl. reflected) and layout from ctx.rng. Cells are exact: small '
        'integers and half-integers, divisors are powers of two. A case is non-trivial when both operands are non-empty and (for alignment) their label sequences '
        'differ; distinct = distinct description. Each case is checked against the implementation model M (exact labels, order and value classes; as a label->value '
        'map where only a hash order decides) and against the specification S (label set = set algebra, each once; op(a,b) by numeric equality where both have the '
        'label, isna elsewhere; order and value classes kept for equal indices); next to the known finding D12 a second case checks the part of S it does not touch.')
ASSUMPTIONS = [
    'Python == / hash equality of labels is structural equality on the generated label sets (no 1 / 1.0 / True mixes, no NaN labels)',
    'np.union1d = sorted unique of the concatenation; np.intersect1d = sorted common values; np.setdiff1d(assume_unique=True) keeps the order of the first operand, otherwise sorted',
    'sorted() of a frozenset of labels succeeds iff all labels are numbers, all are strings, all are dates, or all are tuples with position-wise one such class',
    'NumPy operators on the generated cells are exact (small integers, dyadic rationals): +,-,*,//,%,/ with non-zero power-of-two divisors; NaN propagates through arithmetic, compares False (True for !=), and makes &,|,^ raise TypeError',
    'util.full_for_fill(dtype, n, nan) converts kept cells to resolve_dtype(dtype, float64) (regenerated kernel): int -> float, bool/str/object -> object (cells unchanged)',
]
TRUSTED = ['ORACLE models of NumPy set routines, sorting and element-wise operators inside coq/SF/SetAlg.v and coq/SF/LabelAlignVal.v (validated only by the correspondence runs of this check)']
EXHAUSTIVE = {'quick': False, 'thorough': False}
GENERATED_FILES = ['Gen/Gen_c06.v']


# ----------------------------------------------------------------------------- constants read from the source
def generate(repo):
    """Fail-closed extraction (Python ast) of the keyword constants the alignment models hinge on -> Gen/Gen_c06.v.
    Properties/C06.v proves that the models use exactly these values; a change of the source breaks that theorem."""
    import ast
    import os

    def parse(rel):
        with open(os.path.join(repo, rel)) as f:
            return ast.parse(f.read())

    def find_class(tree, name):
        for n in tree.body:
            if isinstance(n, ast.ClassDef) and n.name == name:
                return n
        raise ValueError(f'class {name} not found')

    def find_def(node, name):
        for n in node.body:
            if isinstance(n, ast.FunctionDef) and n.name == name:
                return n
        raise ValueError(f'def {name} not found in {getattr(node, "name", "module")}')

    def calls(node, attr):
        return [n for n in ast.walk(node) if isinstance(n, ast.Call) and
                ((isinstance(n.func, ast.Attribute) and n.func.attr == attr) or (isinstance(n.func, ast.Name) and n.func.id == attr))]

    def kw_const(call, name):
        for k in call.keywords:
            if k.arg == name:
                if not isinstance(k.value, ast.Constant):
                    raise ValueError(f'keyword {name} is not a literal')
                return k.value.value
        raise ValueError(f'keyword {name} absent in call at line {call.lineno}')

    def default_of(fn, name):
        args = fn.args
        names = [a.arg for a in args.args]
        if name in names:
            pos = names.index(name) - (len(names) - len(args.defaults))
            if pos < 0:
                raise ValueError(f'{name} has no default')
            return ast.unparse(args.defaults[pos])
        for a, d in zip(args.kwonlyargs, args.kw_defaults):
            if a.arg == name:
                if d is None:
                    raise ValueError(f'{name} has no default')
                return ast.unparse(d)
        raise ValueError(f'argument {name} not found')

    series = find_class(parse('static_frame/core/series.py'), 'Series')
    sbin = find_def(series, '_ufunc_binary_operator')
    s_reindex_calls = calls(sbin, 'reindex')
    if len(s_reindex_calls) != 2:
        raise ValueError(f'Series._ufunc_binary_operator: {len(s_reindex_calls)} reindex calls, expected 2')
    s_check = [kw_const(c, 'check_equals') for c in s_reindex_calls]
    s_setops = sorted(a for a in ('union', 'intersection', 'difference') for _ in calls(sbin, a))
    s_fill = default_of(find_def(series, 'reindex'), 'fill_value')
    s_ce_default = default_of(find_def(series, 'reindex'), 'check_equals')

    frame = find_class(parse('static_frame/core/frame.py'), 'Frame')
    fbin = find_def(frame, '_ufunc_binary_operator')
    f_setops = sorted(a for a in ('union', 'intersection', 'difference') for _ in calls(fbin, a))
    f_fill = default_of(find_def(frame, 'reindex'), 'fill_value')
    f_ce_default = default_of(find_def(frame, 'reindex'), 'check_equals')
    f_reindex_ce = [any(k.arg == 'check_equals' for k in c.keywords) for c in calls(fbin, 'reindex')]

    index = find_class(parse('static_frame/core/index.py'), 'Index')
    iset = find_def(index, '_ufunc_set')
    assigns = {}
    for n in ast.walk(iset):
        if isinstance(n, ast.If):
            test = ast.unparse(n.test)
            for st in n.body:
                if (isinstance(st, ast.Assign) and len(st.targets) == 1 and isinstance(st.targets[0], ast.Name)
                        and st.targets[0].id == 'assume_unique' and isinstance(st.value, ast.Constant)):
                    assigns[test] = st.value.value
    au_array = [v for k, v in assigns.items() if 'np.ndarray' in k]
    au_index = [v for k, v in assigns.items() if 'IndexBase' in k]
    if len(au_array) != 1 or len(au_index) != 1:
        raise ValueError(f'Index._ufunc_set: assume_unique assignments not recognised: {assigns}')
    eq_calls = calls(iset, 'equals')
    if len(eq_calls) != 1:
        raise ValueError('Index._ufunc_set: expected one equals() call')
    eq_dtype = kw_const(eq_calls[0], 'compare_dtype')

    # Index.equals (the equal-operands shortcut of set operations, operators and reindex): isna_both = isna_array(X.values, ...) & isna_array(Y.values, ...)
    ieq = find_def(index, 'equals')
    masks = [n for n in ast.walk(ieq) if isinstance(n, ast.Assign) and len(n.targets) == 1
             and isinstance(n.targets[0], ast.Name) and n.targets[0].id == 'isna_both']
    if len(masks) != 1 or not (isinstance(masks[0].value, ast.BinOp) and isinstance(masks[0].value.op, ast.BitAnd)):
        raise ValueError('Index.equals: expected exactly one `isna_both = <x> & <y>`')
    mask_sides = []
    for side in (masks[0].value.left, masks[0].value.right):
        ok = (isinstance(side, ast.Call) and isinstance(side.func, ast.Name) and side.func.id == 'isna_array' and len(side.args) == 1
              and isinstance(side.args[0], ast.Attribute) and side.args[0].attr == 'values' and isinstance(side.args[0].value, ast.Name)
              and side.args[0].value.id in ('self', 'other') and kw_const(side, 'include_none') is False)
        if not ok:
            raise ValueError('Index.equals: mask operand is not isna_array(<self|other>.values, include_none=False)')
        mask_sides.append(side.args[0].value.id)

    ic = find_class(parse('static_frame/core/index_correspondence.py'), 'IndexCorrespondence')
    fc = find_def(ic, 'from_correspondence')
    ic_calls = calls(fc, 'intersect1d') + calls(fc, 'intersect2d')
    if len(ic_calls) != 2:
        raise ValueError('from_correspondence: expected one intersect1d and one intersect2d call')
    ic_au = [kw_const(c, 'assume_unique') for c in ic_calls]

    def b(v):
        if v is True:
            return 'true'
        if v is False:
            return 'false'
        raise ValueError(f'not a Boolean literal: {v!r}')

    def strs(items):
        return '[' + '; '.join('"' + x + '"' for x in items) + ']'

    text = f"""(* GENERATED on every run by tools/sfv/props/c06.py:generate from the source of /repo -- do not edit.
   Keyword constants the C06 alignment models hinge on. *)
Require Import SF.Prelude.
Local Open Scope string_scope.

(* Series._ufunc_binary_operator: check_equals of its two reindex calls; the index set operations it calls *)
Definition src_series_binop_check_equals : list bool := [{'; '.join(b(x) for x in s_check)}].
Definition src_series_binop_set_ops : list string := {strs(s_setops)}.
(* Frame._ufunc_binary_operator: the index set operations it calls; does any reindex call override check_equals *)
Definition src_frame_binop_set_ops : list string := {strs(f_setops)}.
Definition src_frame_binop_overrides_check_equals : bool := {b(any(f_reindex_ce))}.
(* defaults of Series.reindex / Frame.reindex *)
Definition src_series_reindex_fill_default : string := "{s_fill}".
Definition src_frame_reindex_fill_default : string := "{f_fill}".
Definition src_series_reindex_check_equals_default : string := "{s_ce_default}".
Definition src_frame_reindex_check_equals_default : string := "{f_ce_default}".
(* Index._ufunc_set: assume_unique per kind of operand; compare_dtype of the equals() shortcut *)
Definition src_index_set_assume_unique_ndarray : bool := {b(au_array[0])}.
Definition src_index_set_assume_unique_index : bool := {b(au_index[0])}.
Definition src_index_set_equals_compares_dtype : bool := {b(eq_dtype)}.
(* Index.equals(skipna=True): the two operands of `isna_both = isna_array(<x>.values) & isna_array(<y>.values)` *)
Definition src_index_equals_mask_operands : list string := {strs(mask_sides)}.
(* IndexCorrespondence.from_correspondence: assume_unique of intersect1d / intersect2d *)
Definition src_correspondence_assume_unique : list bool := [{'; '.join(b(x) for x in ic_au)}].
"""
    return {'Gen/Gen_c06.v': text}




OPS = (('union', 'OpUnion'), ('intersection', 'OpInter'), ('difference', 'OpDiff'))


# ----------------------------------------------------------------------------- helpers
def nodup_seqs(universe, max_len=None):
    '''Every sequence without repetition over the universe (all subsets in all orders).'''
    n = len(universe) if max_len is None else min(max_len, len(universe))
    for k in range(n + 1):
        yield from itertools.permutations(universe, k)


def _labels_of(x):
    '''Labels of an index or array as Python values (tuples for 2-D).'''
    if hasattr(x, 'STATIC'):
        return lit.labels(x)
    if isinstance(x, np.ndarray):
        if x.ndim == 2:
            return [tuple(r) for r in x.tolist()]
        return lit.array_vals(x)
    return list(x)


def _res_labels(fn):
    try:
        out = fn()
    except Exception as e:  # noqa
        return None, e
    return _labels_of(out), None


UNIVERSES = {
    'int': (0, 1, 2, 3, 4, 5, 6, 7, 8, 9),
    'str': ('a', 'b', 'c', 'd', 'e', 'f', 'g', 'h'),
    'obj': (0, 'a', 1, 'b', 2, 'c', 'd', 3),          # mixed int/str labels: object dtype, unsortable
    'tup': ((0, 'a'), (0, 'b'), (1, 'a'), (1, 'b'), (2, 'a'), (2, 'c')),   # 1-D object index of tuples
}


def make_index(labels, kind, cls=None):
    import static_frame as sf
    cls = cls or sf.Index
    if kind == 'date':
        return sf.IndexDate(labels) if cls is sf.Index else sf.IndexDateGO(labels)
    if kind == 'tup':
        a = np.empty(len(labels), dtype=object)
        a[:] = list(labels)
        return cls(a)
    if kind == 'int32':
        return cls(np.array(labels, dtype=np.int32))
    if kind == 'int' and len(labels) == 0:
        return cls(np.array((), dtype=np.int64))
    return cls(labels)


# ----------------------------------------------------------------------------- api: Index set algebra
def index_case(ctx, a, b, b_operand, opname, opcoq, kcoq, kname, kind, exhaustive=False):
    la = _labels_of(a)
    from static_frame.core.util import iterable_to_array_1d
    if hasattr(b_operand, 'STATIC'):
        lb, db = _labels_of(b_operand), b_operand.values.dtype
    elif isinstance(b_operand, np.ndarray):
        lb, db = _labels_of(b_operand), b_operand.dtype
    else:
        arr, uniq = iterable_to_array_1d(b_operand)
        lb, db = _labels_of(arr), arr.dtype
        kcoq = f'(OperandIterable {lit.b(uniq)})'
    obs, exc = _res_labels(lambda: getattr(a, opname)(b_operand))
    ctx.count(f'index:{kind}', f'index:operand:{kname}', f'index:op:{opname}',
              f'index:len:{min(len(la), 4)}x{min(len(lb), 4)}')
    desc = {'call': f'{type(a).__name__}({plain(la)!r}).{opname}({kname} {plain(lb)!r})', 'kind': kind,
            'observed': repr(plain(obs)) if exc is None else type(exc).__name__}
    if exc is not None:
        # set operations on valid operands never raise
        return Case(f'api:index.{opname}', desc, py_fail=f'{opname} raised {type(exc).__name__}: {exc}',
                    tags={'op': opname, 'kind': kind, 'operand': kname})
    args = f'{opcoq} {lit.b(hasattr(b_operand, "STATIC"))} {lit.vlist(la)} {lit.vlist(lb)} {lit.vlist(obs)}'
    m = f'MI1 {opcoq} {kcoq} {lit.dtype(a.values.dtype)} {lit.dtype(db)} {lit.vlist(la)} {lit.vlist(lb)} {lit.vlist(obs)}'
    s = f'SI {args}'
    overlap = len(set(la) & set(lb))
    return Case(f'api:index.{opname}' + (':exhaustive' if exhaustive else ''), desc, m=m, s=s,
                tags={'op': opname, 'kind': kind, 'operand': kname},
                nontrivial=len(la) > 0 and len(lb) > 0 and (overlap > 0 or opname == 'union'))


def index_exhaustive(ctx):
    '''All pairs of repetition-free label sequences over a small universe, every operation.'''
    import static_frame as sf
    for kind in (('int', 'obj') if ctx.tier == 'quick' else ('int', 'str', 'obj')):
        n = 4 if ctx.tier != 'quick' and kind != 'str' else 3
        uni = UNIVERSES[kind][:n]
        seqs = list(nodup_seqs(uni))
        idx = {s: make_index(s, kind) for s in seqs}
        for sa in seqs:
            for sb in seqs:
                for opname, opcoq in OPS:
                    yield index_case(ctx, idx[sa], idx[sb], idx[sb], opname, opcoq, 'OperandIndex', 'Index', kind, exhaustive=True)




def index_random(ctx):
    """Bigger label sets; every kind of other operand (Index, IndexGO, ndarray / list with repeats, set, tuple); dtype
    pairings int64/int32/str/object/tuples/dates; empty operands."""
    import static_frame as sf
    rng = ctx.rng
    for _ in range(ctx.n(500, 8000)):
        kind = rng.choice(('int', 'str', 'obj', 'tup', 'int_vs_str', 'int32', 'date'))
        ka = kb = kind
        if kind == 'int_vs_str':
            ka, kb = rng.choice((('int', 'str'), ('str', 'int'), ('int', 'obj'), ('obj', 'str')))
        if kind == 'int32':
            ka, kb = rng.choice((('int', 'int32'), ('int32', 'int'), ('int32', 'int32')))

        def labels(k, same_as=None):
            if k == 'date':
                pool = [np.datetime64('2020-01-01') + np.timedelta64(i, 'D') for i in range(8)]
            else:
                pool = UNIVERSES['int' if k == 'int32' else k]
            return rng.sample(pool, rng.randint(0, min(7, len(pool))))
        la = labels(ka)
        mode = rng.choice(('any', 'any', 'equal', 'perm', 'disjoint'))
        if mode == 'equal' and ka.replace('32', '') == kb.replace('32', ''):
            lb = list(la)
        elif mode == 'perm' and ka.replace('32', '') == kb.replace('32', ''):
            lb = rng.sample(la, len(la))
        elif mode == 'disjoint':
            lb = [x for x in labels(kb) if x not in la]
        else:
            lb = labels(kb)
        a = make_index(la, ka, cls=rng.choice((sf.Index, sf.Index, sf.IndexGO)))
        operand_kind = rng.choice(('Index', 'Index', 'Index', 'ndarray', 'list', 'frozenset', 'tuple'))
        if kb == 'date' and operand_kind in ('list', 'tuple', 'frozenset'):
            operand_kind = 'Index'
        b = make_index(lb, kb)
        if operand_kind == 'Index':
            operand, kcoq = b, 'OperandIndex'
        elif operand_kind == 'ndarray':
            vals = b.values
            if len(vals) and rng.random() < 0.6:      # repeats: an ndarray operand is NOT assumed unique
                vals = np.concatenate([vals, vals[:rng.randint(1, len(vals))]])
            operand, kcoq = vals, 'OperandArray'
        elif operand_kind == 'list':
            operand = list(lb) + (rng.sample(lb, rng.randint(0, len(lb))) if lb else [])
            kcoq = None
        elif operand_kind == 'tuple':
            operand, kcoq = tuple(lb), None
        else:
            operand, kcoq = frozenset(lb), None
        if kb == 'tup' and operand_kind in ('list', 'tuple', 'frozenset'):
            operand, kcoq, operand_kind = b, 'OperandIndex', 'Index'    # a list of tuples would be read as 2-D
        opname, opcoq = rng.choice(OPS)
        yield index_case(ctx, a, b, operand, opname, opcoq, kcoq, operand_kind, kind)


def index_hierarchy_cases(ctx):
    """IndexHierarchy.union / intersection / difference (util._ufunc_set_2d): tuple labels, both the NumPy structured
    path (int,int) and the object path (str,int); also a malformed stream (depth mismatch -> ErrorInitIndex)."""
    import static_frame as sf
    rng = ctx.rng
    for _ in range(ctx.n(300, 4000)):
        kind = rng.choice(('ih_si', 'ih_ii'))
        la = rand_labels(rng, kind, rng.randint(1, 6))
        mode = rng.choice(('any', 'any', 'equal', 'perm', 'disjoint'))
        if mode == 'equal':
            lb = list(la)
        elif mode == 'perm':
            lb = _tree_shuffle(rng, la)
        elif mode == 'disjoint':
            lb = _tree_order([x for x in rand_labels(rng, kind, rng.randint(1, 6)) if x not in la])
        else:
            lb = rand_labels(rng, kind, rng.randint(1, 6))
        malformed = rng.random() < 0.08
        a = sf.IndexHierarchy.from_labels(la)
        if malformed:
            lb = [t + (0,) for t in (lb or [la[0]])]
        if not lb:
            continue
        b = sf.IndexHierarchy.from_labels(lb)
        opname, opcoq = rng.choice(OPS)
        obs, exc = _res_labels(lambda: getattr(a, opname)(b))
        same_dtypes = a.depth == b.depth and all(x == y for x, y in zip(a.dtypes.values, b.dtypes.values))
        ctx.count(f'ih:{kind}', f'ih:op:{opname}', 'ih:malformed' if malformed else f'ih:{mode}')
        obs_lit = f'(Ok {lit.vlist(obs)})' if exc is None else f'(Err {lit.s(lit.err_class(exc))})'
        m = (f'MI2 {opcoq} OperandIndex {lit.b(same_dtypes)} {lit.dtype(a.values.dtype)} {lit.dtype(b.values.dtype)} '
             f'{a.depth} {b.depth} {lit.vlist(la)} {lit.vlist(lb)} {obs_lit}')
        desc = {'call': f'IndexHierarchy.from_labels({plain(la)!r}).{opname}(IndexHierarchy.from_labels({plain(lb)!r}))',
                'observed': repr(plain(obs)) if exc is None else type(exc).__name__}
        tags = {'op': opname, 'kind': kind, 'operand': 'IndexHierarchy', 'malformed': malformed}
        if malformed:
            yield Case('api:index_hierarchy.setop:malformed', desc, m=m, tags=tags, nontrivial=True,
                       py_fail=None if exc is not None else 'depth mismatch accepted')
        elif exc is not None:
            yield Case(f'api:index_hierarchy.{opname}', desc, py_fail=f'{opname} raised {type(exc).__name__}: {exc}', tags=tags)
        else:
            yield Case(f'api:index_hierarchy.{opname}', desc, m=m, s=f'SI {opcoq} true {lit.vlist(la)} {lit.vlist(lb)} {lit.vlist(obs)}',
                       tags=tags, nontrivial=bool(set(la) & set(lb)) or opname == 'union')


def kernel_set_cases(ctx):
    """util.union1d / intersect1d / setdiff1d / union2d / ... and ufunc_set_iter called directly: exhaustive over
    sequences WITH repetitions for assume_unique=False, repetition-free for assume_unique=True."""
    from static_frame.core import util as U
    rng = ctx.rng
    fns1 = {'OpUnion': U.union1d, 'OpInter': U.intersect1d, 'OpDiff': U.setdiff1d}
    fns2 = {'OpUnion': U.union2d, 'OpInter': U.intersect2d, 'OpDiff': U.setdiff2d}
    n = 3
    kinds = (('obj', (0, 'a', 1)),) if ctx.tier == 'quick' else (('int', (0, 1, 2)), ('str', ('a', 'b', 'c')), ('obj', (0, 'a', 1)))
    for kind, uni in kinds:
        def arr(seq):
            if kind == 'obj':
                a = np.empty(len(seq), dtype=object)
                a[:] = list(seq)
                return a
            return np.array(seq, dtype=np.int64 if kind == 'int' else '<U1')
        uniq = list(nodup_seqs(uni))
        withrep = [s for k in range(n + (0 if ctx.tier == 'quick' else 1)) for s in itertools.product(uni[:2], repeat=k)]
        for au, seqs in ((True, uniq), (False, withrep)):
            for sa in seqs:
                for sb in seqs:
                    for opcoq, fn in fns1.items():
                        a, b = arr(sa), arr(sb)
                        out = fn(a, b, assume_unique=au)
                        ctx.count(f'kernel:set1d:{kind}:au={au}')
                        obs = lit.array_vals(out)
                        yield Case('kernel:ufunc_set_1d', {'call': f'util.{fn.__name__}({list(sa)!r}, {list(sb)!r}, assume_unique={au})', 'observed': repr(obs)},
                                   m=f'MU1 {opcoq} {lit.b(au)} {lit.dtype(a.dtype)} {lit.dtype(b.dtype)} {lit.vlist(list(sa))} {lit.vlist(list(sb))} {lit.vlist(obs)}',
                                   s=f'SI {opcoq} {lit.b(au)} {lit.vlist(list(sa))} {lit.vlist(list(sb))} {lit.vlist(obs)}',
                                   tags={'kernel': 'ufunc_set_1d', 'au': au, 'kind': kind}, nontrivial=bool(sa) and bool(sb))
    # 2-D: rows are labels
    rows_i = [(0, 0), (0, 1), (1, 0)]
    rows_o = [('a', 0), ('a', 1), ('b', 0)]
    for kind, rows in (('int2d', rows_i), ('obj2d', rows_o)):
        seqs = list(nodup_seqs(rows, max_len=2 if ctx.tier == 'quick' else None))
        for sa in seqs:
            for sb in seqs:
                if not sa or not sb:
                    continue
                for opcoq, fn in fns2.items():
                    a = np.array(sa, dtype=object if kind == 'obj2d' else np.int64)
                    b = np.array(sb, dtype=object if kind == 'obj2d' else np.int64)
                    out = fn(a, b, assume_unique=True)
                    obs = [tuple(r) for r in out.tolist()]
                    ctx.count(f'kernel:set2d:{kind}')
                    yield Case('kernel:ufunc_set_2d', {'call': f'util.{fn.__name__}({list(sa)!r}, {list(sb)!r}, assume_unique=True)', 'observed': repr(obs)},
                               m=f'MU2 {opcoq} true {lit.dtype(a.dtype)} {lit.dtype(b.dtype)} {lit.vlist(list(sa))} {lit.vlist(list(sb))} {lit.vlist(obs)}',
                               s=f'SI {opcoq} true {lit.vlist(list(sa))} {lit.vlist(list(sb))} {lit.vlist(obs)}',
                               tags={'kernel': 'ufunc_set_2d', 'kind': kind})
    # ufunc_set_iter over 2-4 arrays
    for _ in range(ctx.n(120, 2500)):
        kind = rng.choice(('int', 'str'))
        k = rng.randint(2, 4)
        lists = [rng.sample(UNIVERSES[kind][:6], rng.randint(0, 5)) for _ in range(k)]
        if rng.random() < 0.3:
            lists = [list(lists[0]) for _ in range(k)]
        union = rng.random() < 0.5
        arrays = [np.array(x, dtype=np.int64 if kind == 'int' else '<U1') for x in lists]
        out = U.ufunc_set_iter(arrays, union=union, assume_unique=True)
        obs = lit.array_vals(out)
        ctx.count('kernel:ufunc_set_iter')
        ll = lit.lst([lit.vlist(x) for x in lists])
        yield Case('kernel:ufunc_set_iter', {'call': f'util.ufunc_set_iter({lists!r}, union={union}, assume_unique=True)', 'observed': repr(obs)},
                   m=f'MIter {lit.b(union)} true {lit.dtype(arrays[0].dtype)} {ll} {lit.vlist(obs)}', s=f'SIter {lit.b(union)} {ll} {lit.vlist(obs)}',
                   tags={'kernel': 'ufunc_set_iter'})



def kernel_correspondence_cases(ctx):
    """IndexCorrespondence.from_correspondence called directly on all pairs of repetition-free sequences of 3 labels
    (int, mixed object) and on random hierarchical pairs."""
    import static_frame as sf
    from static_frame.core.index_correspondence import IndexCorrespondence

    def positions(x):
        if x is None:
            return []
        if isinstance(x, slice):
            raise ValueError('slice iloc outside the model')
        return [int(v) for v in np.asarray(x).reshape(-1).tolist()]

    def one(src, dst, kind):
        ic = IndexCorrespondence.from_correspondence(src, dst)
        ls, ld = lit.labels(src), lit.labels(dst)
        osrc, odst = positions(ic.iloc_src), positions(ic.iloc_dst)
        obs = f'{lit.b(ic.has_common)} {lit.b(ic.is_subset)} {lit.z(ic.size)} {lit.lst([lit.z(v) for v in osrc])} {lit.lst([lit.z(v) for v in odst])}'
        ctx.count(f'kernel:ic:{kind}', 'kernel:ic:' + ('subset' if ic.is_subset else 'partial' if ic.has_common else 'none'))
        return Case('kernel:from_correspondence',
                    {'call': f'IndexCorrespondence.from_correspondence({plain(ls)!r}, {plain(ld)!r})',
                     'observed': {'has_common': bool(ic.has_common), 'is_subset': bool(ic.is_subset), 'iloc_src': osrc, 'iloc_dst': odst}},
                    m=f'MIC {lit.b(src.depth > 1)} {lit.dtype(src.values.dtype)} {lit.dtype(dst.values.dtype)} {lit.vlist(ls)} {lit.vlist(ld)} {obs}',
                    s=f'SIC {lit.vlist(ls)} {lit.vlist(ld)} {obs}', tags={'kernel': 'from_correspondence', 'kind': kind},
                    nontrivial=bool(ic.has_common))
    for kind in ('int', 'obj'):
        seqs = list(nodup_seqs(UNIVERSES[kind][:3]))
        idx = {s: make_index(s, kind) for s in seqs}
        for sa in seqs:
            for sb in seqs:
                yield one(idx[sa], idx[sb], kind)
    rng = ctx.rng
    for _ in range(ctx.n(60, 1500)):
        kind = rng.choice(('ih_si', 'ih_ii', 'tup', 'str'))
        la, lb = rand_labels(rng, kind, rng.randint(1, 6)), rand_labels(rng, kind, rng.randint(1, 6))
        if kind.startswith('ih'):
            a, b = sf.IndexHierarchy.from_labels(la), sf.IndexHierarchy.from_labels(lb)
        else:
            a, b = make_index(la, kind), make_index(lb, kind)
        yield one(a, b, kind)


def malformed_cases(ctx):
    """Operands outside the aligned domain: an unlabelled array of the wrong length.  The property does not speak
    about them; the model must predict the rejection (no silent positional pairing)."""
    rng = ctx.rng
    for _ in range(ctx.n(40, 600)):
        n = rng.randint(2, 5)
        wrong = rng.choice([k for k in range(0, 8) if k not in (1, n)])
        other = gen_values(rng, wrong, 'int', 'num')
        opname = rng.choice(('add', 'sub', 'mul', 'eq', 'lt', 'radd'))
        dunder, opcoq, swap, okind = BINOPS[opname]
        if rng.random() < 0.5:
            a = make_series(rng, rand_labels(rng, 'str', n), 'str', 'int')
            n_real = len(a)
            if wrong == n_real:
                continue
            obs, odesc, _ = series_obs(lambda: getattr(a, dunder)(other))
            ok = obs.startswith('(Err')
            ctx.count('malformed:series-array-length')
            yield Case('api:series-op-array:malformed', {'call': f'Series(len {n_real}).{dunder}(ndarray len {wrong})', 'observed': odesc},
                       m=f'MSA {opcoq} {lit.b(swap)} {lit.vlist(lit.labels(a.index))} {lit.vlist(lit.array_vals(a.values))} {lit.vlist(lit.array_vals(other))} {obs}',
                       py_fail=None if ok else 'an unlabelled array of the wrong length was accepted', tags={'malformed': True, 'container': 'series'})
        else:
            ca = rand_labels(rng, 'str', n)
            dta = ['int'] * len(ca)
            fa = make_frame(rng, rand_labels(rng, 'int', rng.randint(1, 3)), 'int', ca, 'str', dta, rand_layout(rng, dta))
            if wrong == len(ca):
                continue
            obs, odesc = frame_obs(lambda: getattr(fa, dunder)(other))
            ok = obs.startswith('(Err')
            ctx.count('malformed:frame-array-length')
            yield Case('api:frame-op-array:malformed', {'call': f'Frame({len(ca)} columns).{dunder}(ndarray len {wrong})', 'observed': odesc},
                       m=f'MFA {opcoq} {lit.b(swap)} {fin_lit(fa)} {lit.vlist(lit.array_vals(other))} {obs}',
                       py_fail=None if ok else 'an unlabelled array of the wrong length was accepted', tags={'malformed': True, 'container': 'frame'})


# ----------------------------------------------------------------------------- binary operators
F_CMP = 'C06-cmp-unmatched-not-missing'
F_LOGIC = 'C06-logical-unmatched-raises'

# name -> (dunder, Coq operator, swapped (reflected form), kind)
BINOPS = {
    'add': ('__add__', 'BAdd', False, 'arith'), 'sub': ('__sub__', 'BSub', False, 'arith'),
    'mul': ('__mul__', 'BMul', False, 'arith'), 'truediv': ('__truediv__', 'BTruediv', False, 'arith'),
    'floordiv': ('__floordiv__', 'BFloordiv', False, 'arith'), 'mod': ('__mod__', 'BMod', False, 'arith'),
    'radd': ('__radd__', 'BAdd', True, 'arith'), 'rsub': ('__rsub__', 'BSub', True, 'arith'),
    'rmul': ('__rmul__', 'BMul', True, 'arith'), 'rtruediv': ('__rtruediv__', 'BTruediv', True, 'arith'),
    'rfloordiv': ('__rfloordiv__', 'BFloordiv', True, 'arith'),
    'eq': ('__eq__', 'BEq', False, 'cmp'), 'ne': ('__ne__', 'BNe', False, 'cmp'),
    'lt': ('__lt__', 'BLt', False, 'cmp'), 'le': ('__le__', 'BLe', False, 'cmp'),
    'gt': ('__gt__', 'BGt', False, 'cmp'), 'ge': ('__ge__', 'BGe', False, 'cmp'),
    'and': ('__and__', 'BAnd', False, 'logic'), 'or': ('__or__', 'BOr', False, 'logic'),
    'xor': ('__xor__', 'BXor', False, 'logic'),
}
ARITH = [k for k, v in BINOPS.items() if v[3] == 'arith']
CMP = [k for k, v in BINOPS.items() if v[3] == 'cmp']
LOGIC = [k for k, v in BINOPS.items() if v[3] == 'logic']
DIVISION = {'truediv', 'floordiv', 'mod', 'rtruediv', 'rfloordiv'}


def gen_values(rng, n, vkind, role):
    """Exact cell values.  role 'div': usable as a divisor (non-zero powers of two, so every quotient is an
    exact dyadic rational); 'num': any small value."""
    if vkind == 'bool':
        return np.array([rng.random() < 0.5 for _ in range(n)], dtype=bool)
    if vkind == 'int':
        if role == 'div':
            return np.array([rng.choice((1, 2, 4, -1, -2, 8)) for _ in range(n)], dtype=np.int64)
        return np.array([rng.randint(-20, 20) for _ in range(n)], dtype=np.int64)
    if role == 'div':
        return np.array([rng.choice((1.0, 2.0, 0.5, -2.0, 4.0, -0.5)) for _ in range(n)], dtype=np.float64)
    return np.array([rng.randint(-40, 40) / 2 for _ in range(n)], dtype=np.float64)


def series_obs(fn):
    """Run; -> (literal of sobs, description)."""
    try:
        r = fn()
    except Exception as e:  # noqa
        cls = lit.err_class(e)
        return f'(Err {lit.s(cls)})', cls, None
    ls, vs = lit.labels(r.index), lit.array_vals(r.values)
    return f'(Ok ({lit.vlist(ls)}, {lit.vlist(vs)}))', {'labels': repr(ls), 'values': repr(vs), 'dtype': str(r.dtype)}, r


def _is_fill_bool(v, opname):
    return isinstance(v, (bool, np.bool_)) and bool(v) == (opname == 'ne')


def outcome_series(r, err_cls, opname, la, lb):
    """KIND of outcome of a Series operator, for the known-finding match: the exception class, 'bool-at-unmatched' (a result
    whose every unmatched label holds exactly the Boolean a NaN comparison gives), or 'other'."""
    if r is None:
        return 'raises:' + str(err_cls)
    both = set(la) & set(lb)
    for l, v in zip(lit.labels(r.index), lit.array_vals(r.values)):
        if l not in both and not _is_fill_bool(v, opname):
            return 'other'
    return 'bool-at-unmatched'


def outcome_frame(fn, opname, has_a, has_b):
    """The same for a Frame result; has_a / has_b(row label, column label) say whether an operand holds the cell."""
    import warnings
    try:
        with warnings.catch_warnings():
            warnings.simplefilter('ignore')
            r = fn()
    except Exception as e:  # noqa
        return 'raises:' + lit.err_class(e)
    rows_ = lit.labels(r.index)
    for cl, a in zip(lit.labels(r.columns), r.iter_array(axis=0)):
        for rl, v in zip(rows_, lit.array_vals(a)):
            if not (has_a(rl, cl) and has_b(rl, cl)) and not _is_fill_bool(v, opname):
                return 'other'
    return 'bool-at-unmatched'


def series_pair_cases(ctx, sa, sb, opname, kind, stratum):
    """One Series op Series evaluation -> cases (full property; matched part next to the known finding)."""
    dunder, opcoq, swap, okind = BINOPS[opname]
    la, lb = lit.labels(sa.index), lit.labels(sb.index)
    va, vb = lit.array_vals(sa.values), lit.array_vals(sb.values)
    obs, odesc, r_obs = series_obs(lambda: getattr(sa, dunder)(sb))
    hier = sa.index.depth > 1
    unmatched = set(la) != set(lb)
    ctx.count(f'series:op:{opname}', f'series:labels:{kind}', f'series:values:{sa.dtype.kind}{sb.dtype.kind}',
              'series:equal-index' if la == lb else ('series:permuted' if not unmatched else
              ('series:disjoint' if not set(la) & set(lb) else 'series:partial-overlap')))
    args = (f'{opcoq} {lit.b(swap)}')
    data = f'{lit.vlist(la)} {lit.vlist(va)} {lit.vlist(lb)} {lit.vlist(vb)} {obs}'
    m = (f'MS {args} {lit.b(hier)} {lit.dtype(sa.index.values.dtype)} {lit.dtype(sb.index.values.dtype)} '
         f'{lit.dtype(sa.dtype)} {lit.dtype(sb.dtype)} {data}')
    desc = {'call': f'Series({va!r}, index={la!r}).{dunder}(Series({vb!r}, index={lb!r}))', 'labels': kind, 'observed': odesc}
    tags = {'op': opname, 'opkind': okind, 'labels': kind, 'unmatched': unmatched, 'container': 'series'}
    if unmatched and okind == 'cmp':
        tags['finding'] = F_CMP
    if unmatched and okind == 'logic':
        tags['finding'] = F_LOGIC
    if 'finding' in tags:      # the entry excuses only the recorded KIND of outcome (bool at unmatched labels / TypeError)
        tags['outcome'] = outcome_series(r_obs, odesc, opname, la, lb)
    nontrivial = len(la) > 0 and len(lb) > 0 and la != lb
    yield Case(stratum, desc, m=m, s=f'SS {args} {data}', tags=tags, nontrivial=nontrivial)
    if unmatched and okind == 'cmp':
        # same evaluation, the part of the property D12 does not touch: labels, and values where both have the label
        t2 = {k: v for k, v in tags.items() if k != 'finding'}
        yield Case(stratum + ':matched-part', dict(desc, part='labels + matched cells only'), s=f'SSm {args} {data}', tags=t2,
                   nontrivial=nontrivial)


def make_series(rng, labels, kind, vkind, role='num', name=None):
    import static_frame as sf
    if kind in ('ih_si', 'ih_ii'):
        idx = sf.IndexHierarchy.from_labels(labels) if labels else None
        if idx is None:
            return None
    else:
        idx = make_index(labels, kind)
    return sf.Series(gen_values(rng, len(labels), vkind, role), index=idx, name=name)


def pick_op(rng, va_kind, vb_kind):
    """An operator NumPy defines for the value dtype pairing."""
    if va_kind == 'bool' or vb_kind == 'bool':
        if va_kind == vb_kind:
            return rng.choice(CMP + LOGIC)
        return rng.choice(CMP)
    pool = ARITH + CMP + (LOGIC if va_kind == vb_kind == 'int' else [])
    return rng.choice(pool)


def roles_for(opname):
    """(role of left values, role of right values): the divisor side must be non-zero powers of two."""
    if opname in ('truediv', 'floordiv', 'mod'):
        return 'num', 'div'
    if opname in ('rtruediv', 'rfloordiv'):
        return 'div', 'num'
    return 'num', 'num'


def series_exhaustive(ctx):
    """All pairs of repetition-free label sequences over 3 labels x representative operators."""
    import static_frame as sf
    for kind in (('str',) if ctx.tier == 'quick' else ('int', 'str')):
        uni = UNIVERSES[kind][:3]
        seqs = list(nodup_seqs(uni))
        for opname in ('add', 'rsub', 'eq', 'and') if ctx.tier == 'quick' else ('add', 'rsub', 'mul', 'eq', 'lt', 'and', 'floordiv'):
            ra, rb = roles_for(opname)
            for sa_l in seqs:
                for sb_l in seqs:
                    a = sf.Series(gen_values(ctx.rng, len(sa_l), 'int', ra), index=make_index(sa_l, kind))
                    b = sf.Series(gen_values(ctx.rng, len(sb_l), 'int', rb), index=make_index(sb_l, kind))
                    yield from series_pair_cases(ctx, a, b, opname, kind, 'api:series-op-series:exhaustive')


def rand_labels(rng, kind, n):
    if kind == 'ih_si':
        outer = rng.sample(('a', 'b', 'c'), rng.randint(1, 3))
        out = []
        for o in outer:
            for i in rng.sample((1, 2, 3), rng.randint(1, 3)):
                out.append((o, i))
        return out[:max(n, 1)]
    if kind == 'ih_ii':
        outer = rng.sample((0, 1, 2), rng.randint(1, 3))
        out = []
        for o in outer:
            for i in rng.sample((1, 2, 3), rng.randint(1, 3)):
                out.append((o, i))
        return out[:max(n, 1)]
    uni = UNIVERSES[kind]
    return rng.sample(uni, min(n, len(uni)))


def series_random(ctx):
    rng = ctx.rng
    kinds = ('int', 'str', 'obj', 'tup', 'ih_si', 'ih_ii')
    for _ in range(ctx.n(500, 8000)):
        kind = rng.choice(kinds)
        la = rand_labels(rng, kind, rng.randint(0, 6))
        mode = rng.choice(('perm', 'overlap', 'overlap', 'disjoint', 'equal', 'any'))
        if mode == 'perm':
            lb = list(la)
            rng.shuffle(lb)
            if kind.startswith('ih'):
                lb = _tree_order(lb)
        elif mode == 'equal':
            lb = list(la)
        elif mode == 'disjoint':
            lb = [x for x in rand_labels(rng, kind, rng.randint(0, 6)) if x not in la]
            if kind.startswith('ih'):
                lb = _tree_order(lb)
        else:
            lb = rand_labels(rng, kind, rng.randint(0, 6))
        if kind.startswith('ih') and (not la or not lb):
            continue
        va_kind, vb_kind = rng.choice(('int', 'int', 'float', 'bool')), rng.choice(('int', 'int', 'float', 'bool'))
        opname = pick_op(rng, va_kind, vb_kind)
        ra, rb = roles_for(opname)
        a = make_series(rng, la, kind, va_kind, ra)
        b = make_series(rng, lb, kind, vb_kind, rb)
        yield from series_pair_cases(ctx, a, b, opname, kind, 'api:series-op-series')


def _tree_order(labels):
    """Group tuples by their first component keeping first-seen order (the only sequences IndexHierarchy of this
    version can hold)."""
    outer = []
    for t in labels:
        if t[0] not in outer:
            outer.append(t[0])
    return [t for o in outer for t in labels if t[0] == o]


def _tree_shuffle(rng, labels):
    lb = list(labels)
    rng.shuffle(lb)
    return _tree_order(lb)


def series_scalar_array(ctx):
    """Series with a scalar or an unlabelled array: no labels to align, positional pairing, labels unchanged."""
    rng = ctx.rng
    for _ in range(ctx.n(80, 1500)):
        kind = rng.choice(('int', 'str', 'obj'))
        la = rand_labels(rng, kind, rng.randint(1, 5))
        vk = rng.choice(('int', 'float', 'bool'))
        ok_ = rng.choice(('int', 'float')) if vk != 'bool' else 'bool'
        opname = pick_op(rng, vk, ok_)
        dunder, opcoq, swap, okind = BINOPS[opname]
        ra, rb = roles_for(opname)
        a = make_series(rng, la, kind, vk, ra)
        scalar = rng.random() < 0.5
        other = gen_values(rng, 1 if scalar else len(la), ok_, rb)
        operand = other[0].item() if scalar else other
        obs, odesc, _ = series_obs(lambda: getattr(a, dunder)(operand))
        va = lit.array_vals(a.values)
        ov = lit.array_vals(other) * (len(la) if scalar else 1)
        ctx.count('series:scalar' if scalar else 'series:array', f'series-sa:op:{opname}')
        term = f'MSA {opcoq} {lit.b(swap)} {lit.vlist(lit.labels(a.index))} {lit.vlist(va)} {lit.vlist(ov)} {obs}'
        yield Case('api:series-op-scalar' if scalar else 'api:series-op-array',
                   {'call': f'Series({va!r}, index={la!r}).{dunder}({operand!r})', 'observed': odesc},
                   m=term, s=term, tags={'op': opname, 'opkind': okind, 'container': 'series', 'other': 'scalar' if scalar else 'array'})



# ----------------------------------------------------------------------------- frames
R_RESIZE = 'resize-both-axes-one-sided-no-common'   # fixed by 658b4ce
R_VALUES = 'values-path-coerces-columns'               # fixed by e1c1c73
F_NOCOL = 'C06-zero-column-result-raises'


def plain(x):
    """NumPy scalars -> Python scalars (for readable replays)."""
    if isinstance(x, tuple):
        return tuple(plain(y) for y in x)
    if isinstance(x, list):
        return [plain(y) for y in x]
    if isinstance(x, np.generic) and not isinstance(x, (np.datetime64, np.timedelta64)):
        return x.item()
    return x


def blocks_lit(f):
    out = []
    for a in f._blocks._blocks:
        if a.ndim == 1:
            out.append(f'(mkb {lit.dtype(a.dtype)} true [{lit.vlist(lit.array_vals(a))}])')
        else:
            cols = [lit.vlist(lit.array_vals(a[:, j])) for j in range(a.shape[1])]
            out.append(f'(mkb {lit.dtype(a.dtype)} false {lit.lst(cols)})')
    return lit.lst(out)


def fin_lit(f):
    return (f'(mk_fin {lit.vlist(lit.labels(f.index))} {lit.vlist(lit.labels(f.columns))} {blocks_lit(f)} '
            f'{lit.dtype(f.index.values.dtype)} {lit.dtype(f.columns.values.dtype)} {lit.b(f.index.depth > 1)} {lit.b(f.columns.depth > 1)})')


def frame_desc(f):
    return {'index': repr(plain(lit.labels(f.index))), 'columns': repr(plain(lit.labels(f.columns))),
            'columns_values': repr([plain(lit.array_vals(a)) for a in f.iter_array(axis=0)]),
            'dtypes': [str(a.dtype) for a in f.iter_array(axis=0)], 'layout': zoo.layout_str(zoo.layout_of(f))}


def frame_obs(fn):
    try:
        r = fn()
    except Exception as e:  # noqa
        cls = lit.err_class(e)
        return f'(Err {lit.s(cls)})', cls
    cols = [lit.vlist(lit.array_vals(a)) for a in r.iter_array(axis=0)]
    return (f'(Ok ({lit.vlist(lit.labels(r.index))}, {lit.vlist(lit.labels(r.columns))}, {lit.lst(cols)}))', frame_desc(r))


def make_frame(rng, index_labels, ikind, column_labels, ckind, dtypes, layout, roles=None):
    import static_frame as sf
    n = len(index_labels)
    cols = [gen_values(rng, n, dt, (roles or 'num')) for dt in dtypes]
    if ikind.startswith('ih'):
        idx = sf.IndexHierarchy.from_labels(index_labels)
    else:
        idx = make_index(index_labels, ikind)
    return zoo.frame_from_columns(cols, layout, index=idx, columns=make_index(column_labels, ckind))


NP_DT = {'int': np.int64, 'float': np.float64, 'bool': np.bool_}


def rand_layout(rng, dtypes):
    ls = list(zoo.layouts_for([NP_DT[d] for d in dtypes]))
    return rng.choice(ls)


def _widths(layout):
    return [w for w, _ in layout]


def _reblock_sig(layout, dtypes):
    sig, pos, cur, n = [], 0, None, 0
    for w, _ in layout:
        d = dtypes[pos]
        if cur is None or d == cur:
            n += w
        else:
            sig.append(n)
            n = w
        cur = d
        pos += w
    if n:
        sig.append(n)
    return sig


def values_path_class(fa, fb, dta, dtb):
    """By construction of the inputs: equal labels on both axes (no re-indexing happens), block layouts neither
    block- nor reblock-compatible, and a column pair whose own result dtype differs from the row-resolved dtype."""
    if lit.labels(fa.index) != lit.labels(fb.index) or lit.labels(fa.columns) != lit.labels(fb.columns):
        return False
    la, lb = zoo.layout_of(fa), zoo.layout_of(fb)
    if _widths(la) == _widths(lb) or _reblock_sig(la, dta) == _reblock_sig(lb, dtb):
        return False
    if len(la) == 1 and len(lb) == 1:
        return False
    mixed_a, mixed_b = len(set(dta)) > 1 and len(la) > 1, len(set(dtb)) > 1 and len(lb) > 1
    return any(x == 'int' and y == 'int' for x, y in zip(dta, dtb)) and (mixed_a or mixed_b)


def union_seq(la, lb):
    """The union index as a sequence when the implementation fixes it (equal operands, an empty operand, labels of
    one orderable class: sorted); None when it is a hash order (mixed int/str labels)."""
    if list(la) == list(lb):
        return list(la)
    if not la:
        return list(lb)
    if not lb:
        return list(la)
    u = set(la) | set(lb)
    try:
        return sorted(u)
    except TypeError:
        return None


def resize_bug_class(x_index, x_columns, u_index, u_columns):
    """An operand X is re-indexed on BOTH axes (its labels are not the target sequence) and exactly one of the two
    axes keeps none of X's labels.  u_* is None when the target order is a hash order (then X is re-indexed unless
    the operands were equal, which union_seq has already answered)."""
    if u_columns is not None and list(x_columns) == list(u_columns):
        return False
    if u_index is not None and list(x_index) == list(u_index):
        return False
    ui = set(u_index) if u_index is not None else None
    uc = set(u_columns) if u_columns is not None else None
    rows_common = bool(x_index) if ui is None else bool(set(x_index) & ui)
    cols_common = bool(x_columns) if uc is None else bool(set(x_columns) & uc)
    return rows_common != cols_common


def frame_pair_cases(ctx, fa, fb, dta, dtb, opname, stratum):
    dunder, opcoq, swap, okind = BINOPS[opname]
    ia, ib, ca, cb = (lit.labels(fa.index), lit.labels(fb.index), lit.labels(fa.columns), lit.labels(fb.columns))
    obs, odesc = frame_obs(lambda: getattr(fa, dunder)(fb))
    ui, uc = union_seq(ia, ib), union_seq(ca, cb)
    unmatched = set(ia) != set(ib) or set(ca) != set(cb)
    tags = {'op': opname, 'opkind': okind, 'container': 'frame', 'unmatched': unmatched}
    if resize_bug_class(ia, ca, ui, uc) or resize_bug_class(ib, cb, ui, uc):
        tags['regression'] = R_RESIZE          # repaired by fix 658b4ce; kept as a labelled regression class
    if not ca and not cb:
        tags['finding'] = F_NOCOL
    elif values_path_class(fa, fb, dta, dtb):
        tags['regression'] = R_VALUES         # repaired by fix e1c1c73: the spec (per-column classes, exact ints) must hold
    elif unmatched and okind == 'cmp':
        tags['finding'] = F_CMP
    elif unmatched and okind == 'logic':
        tags['finding'] = F_LOGIC
    if 'finding' in tags:
        sia, sib, sca, scb = set(ia), set(ib), set(ca), set(cb)
        tags['outcome'] = outcome_frame(lambda: getattr(fa, dunder)(fb), opname, lambda rl, cl: rl in sia and cl in sca, lambda rl, cl: rl in sib and cl in scb)
    ctx.count(f'frame:op:{opname}', f'frame:layouts:{zoo.layout_str(zoo.layout_of(fa))}/{zoo.layout_str(zoo.layout_of(fb))}',
              'frame:index-' + ('equal' if ia == ib else 'permuted' if set(ia) == set(ib) else 'disjoint' if not set(ia) & set(ib) else 'overlap'),
              'frame:columns-' + ('equal' if ca == cb else 'permuted' if set(ca) == set(cb) else 'disjoint' if not set(ca) & set(cb) else 'overlap'))
    args = f'{opcoq} {lit.b(swap)} {fin_lit(fa)} {fin_lit(fb)} {obs}'
    desc = {'call': f'A.{dunder}(B)', 'A': frame_desc(fa), 'B': frame_desc(fb), 'observed': odesc}
    nontrivial = fa.shape[0] > 0 and fa.shape[1] > 0 and fb.shape[0] > 0 and fb.shape[1] > 0
    yield Case(stratum, desc, m=f'MFF {args}', s=f'SFF {args}', tags=tags, nontrivial=nontrivial)
    if tags.get('finding') == F_CMP:
        t2 = {k: v for k, v in tags.items() if k != 'finding'}
        yield Case(stratum + ':matched-part', dict(desc, part='labels + matched cells only'), s=f'SFFm {args}', tags=t2,
                   nontrivial=nontrivial)


def label_pair(rng, kind, mode, nmax):
    la = rand_labels(rng, kind, rng.randint(0 if not kind.startswith('ih') else 1, nmax))
    if mode == 'equal':
        return la, list(la)
    if mode == 'perm':
        lb = list(la)
        rng.shuffle(lb)
        return la, (_tree_order(lb) if kind.startswith('ih') else lb)
    if mode == 'disjoint':
        lb = [x for x in rand_labels(rng, kind, rng.randint(0, nmax)) if x not in la]
        if kind.startswith('ih'):
            lb = _tree_order(lb) or [('z', 9) if kind == 'ih_si' else (9, 9)]
        return la, lb
    lb = rand_labels(rng, kind, rng.randint(0 if not kind.startswith('ih') else 1, nmax))
    return la, lb


def frame_op_for(rng, dta, dtb, rows=True):
    # logical operators only on all-int frames WITH rows (NumPy decides the TypeError of float operands by dtype; the
    # element-wise oracle needs at least one cell to see it)
    allint = rows and all(d == 'int' for d in dta + dtb)
    pool = ['add', 'sub', 'mul', 'radd', 'rsub', 'rmul', 'eq', 'ne', 'lt', 'le', 'gt', 'ge'] + (['and', 'or', 'xor'] if allint else [])
    return rng.choice(pool)


def frame_random(ctx):
    rng = ctx.rng
    for _ in range(ctx.n(300, 6000)):
        ikind = rng.choice(('int', 'str', 'obj', 'ih_si'))
        ckind = rng.choice(('str', 'str', 'int'))
        ia, ib = label_pair(rng, ikind, rng.choice(('equal', 'perm', 'overlap', 'overlap', 'disjoint')), 4)
        ca, cb = label_pair(rng, ckind, rng.choice(('equal', 'perm', 'overlap', 'overlap', 'disjoint')), 4)
        dta = [rng.choice(('int', 'int', 'float')) for _ in ca]
        dtb = [rng.choice(('int', 'int', 'float')) for _ in cb]
        opname = frame_op_for(rng, dta, dtb, rows=bool(ia or ib))
        fa = make_frame(rng, ia, ikind, ca, ckind, dta, rand_layout(rng, dta))
        fb = make_frame(rng, ib, ikind, cb, ckind, dtb, rand_layout(rng, dtb))
        yield from frame_pair_cases(ctx, fa, fb, dta, dtb, opname, 'api:frame-op-frame')


def frame_layouts_exhaustive(ctx):
    """Every pair of block layouts of two frames with EQUAL labels (the operator is applied to the blocks as
    they are: block_compatible / reblock / values paths), and of two frames whose labels differ (both re-indexed)."""
    rng = ctx.rng
    ncol = 2 if ctx.tier == 'quick' else 3
    cols = UNIVERSES['str'][:ncol]
    for dta in itertools.product(('int', 'float'), repeat=ncol):
        for dtb in itertools.product(('int', 'float'), repeat=ncol):
            for la in zoo.layouts_for([NP_DT[d] for d in dta]):
                for lb in zoo.layouts_for([NP_DT[d] for d in dtb]):
                    for mode in ('equal', 'shifted'):
                        if rng.random() < (0.4 if mode == 'equal' else 0.7) and not (ctx.tier == 'quick' and mode == 'equal'):
                            continue
                        ia = (0, 1, 2)
                        ib = ia if mode == 'equal' else (2, 3, 1)
                        cb = cols if mode == 'equal' else tuple(reversed(cols))
                        fa = make_frame(rng, ia, 'int', cols, 'str', list(dta), la)
                        fb = make_frame(rng, ib, 'int', cb, 'str', list(dtb), lb)
                        yield from frame_pair_cases(ctx, fa, fb, list(dta), list(dtb), rng.choice(('add', 'sub', 'mul', 'lt')),
                                                    'api:frame-op-frame:layouts-exhaustive')


def frame_series_cases(ctx):
    """Frame with a Series on either axis (axis 0: `frame op series`; axis 1: `frame.via_T op series`)."""
    rng = ctx.rng
    for _ in range(ctx.n(250, 5000)):
        axis1 = rng.random() < 0.5
        ikind = rng.choice(('int', 'str', 'obj'))
        ckind = rng.choice(('str', 'int'))
        ia = rand_labels(rng, ikind, rng.randint(0, 4))
        ca = rand_labels(rng, ckind, rng.randint(1, 4))
        dta = [rng.choice(('int', 'int', 'float')) for _ in ca]
        fa = make_frame(rng, ia, ikind, ca, ckind, dta, rand_layout(rng, dta))
        skind = ikind if axis1 else ckind
        fax = ia if axis1 else ca
        mode = rng.choice(('equal', 'perm', 'overlap', 'overlap', 'disjoint'))
        if mode == 'equal':
            ls = list(fax)
        elif mode == 'perm':
            ls = list(fax)
            rng.shuffle(ls)
        elif mode == 'disjoint':
            ls = [x for x in rand_labels(rng, skind, rng.randint(0, 4)) if x not in fax]
        else:
            ls = rand_labels(rng, skind, rng.randint(0, 4))
        vk = rng.choice(('int', 'int', 'float'))
        opname = frame_op_for(rng, dta, [vk], rows=bool(ia))
        dunder, opcoq, swap, okind = BINOPS[opname]
        sr = make_series(rng, ls, skind, vk)
        target = fa.via_T if axis1 else fa
        obs, odesc = frame_obs(lambda: getattr(target, dunder)(sr))
        unmatched = set(fax) != set(ls)
        tags = {'op': opname, 'opkind': okind, 'container': 'frame-series', 'axis': int(axis1), 'unmatched': unmatched}
        if unmatched and okind == 'cmp':
            tags['finding'] = F_CMP
        if unmatched and okind == 'logic':
            tags['finding'] = F_LOGIC
        if 'finding' in tags:
            sls = set(ls)
            tags['outcome'] = outcome_frame(lambda: getattr(target, dunder)(sr), opname, lambda rl, cl: True,
                                            (lambda rl, cl: rl in sls) if axis1 else (lambda rl, cl: cl in sls))
        ctx.count(f'frame-series:axis{int(axis1)}', f'frame-series:op:{opname}', f'frame-series:{mode}')
        lsl, vsl = lit.labels(sr.index), lit.array_vals(sr.values)
        m = (f'MFS {opcoq} {lit.b(swap)} {lit.b(axis1)} {fin_lit(fa)} {lit.dtype(sr.index.values.dtype)} {lit.dtype(sr.dtype)} false '
             f'{lit.vlist(lsl)} {lit.vlist(vsl)} {obs}')
        sargs = f'{opcoq} {lit.b(swap)} {lit.b(axis1)} {fin_lit(fa)} {lit.vlist(lsl)} {lit.vlist(vsl)} {obs}'
        desc = {'call': f'A{".via_T" if axis1 else ""}.{dunder}(Series({plain(vsl)!r}, index={plain(lsl)!r}))', 'A': frame_desc(fa), 'observed': odesc}
        nontrivial = fa.shape[0] > 0 and len(ls) > 0
        yield Case(f'api:frame-op-series:axis{int(axis1)}', desc, m=m, s=f'SFS {sargs}', tags=tags, nontrivial=nontrivial)
        if tags.get('finding') == F_CMP:
            t2 = {k: v for k, v in tags.items() if k != 'finding'}
            yield Case(f'api:frame-op-series:axis{int(axis1)}:matched-part', dict(desc, part='labels + matched cells only'),
                       s=f'SFSm {sargs}', tags=t2, nontrivial=nontrivial)


def frame_scalar_array(ctx):
    rng = ctx.rng
    for _ in range(ctx.n(60, 1200)):
        ia = rand_labels(rng, 'int', rng.randint(1, 4))
        ca = rand_labels(rng, 'str', rng.randint(1, 4))
        dta = [rng.choice(('int', 'int', 'float')) for _ in ca]
        fa = make_frame(rng, ia, 'int', ca, 'str', dta, rand_layout(rng, dta))
        vk = rng.choice(('int', 'float'))
        opname = frame_op_for(rng, dta, [vk])
        dunder, opcoq, swap, okind = BINOPS[opname]
        scalar = rng.random() < 0.5
        other = gen_values(rng, 1 if scalar else len(ca), vk, 'num')
        operand = other[0].item() if scalar else other
        obs, odesc = frame_obs(lambda: getattr(fa, dunder)(operand))
        ctx.count('frame:scalar' if scalar else 'frame:array')
        term = f'MFA {opcoq} {lit.b(swap)} {fin_lit(fa)} {lit.vlist(lit.array_vals(other))} {obs}'
        yield Case('api:frame-op-scalar' if scalar else 'api:frame-op-array',
                   {'call': f'A.{dunder}({plain(lit.array_vals(other))!r})', 'A': frame_desc(fa), 'observed': odesc},
                   m=term, s=term, tags={'op': opname, 'opkind': okind, 'container': 'frame', 'other': 'scalar' if scalar else 'array'})


def frame_reindex_cases(ctx):
    """Frame.reindex (the alignment mechanism of the operators) called directly, every layout of <= 3 columns."""
    rng = ctx.rng
    for _ in range(ctx.n(300, 4000)):
        ikind = rng.choice(('int', 'str'))
        ia = rand_labels(rng, ikind, rng.randint(0, 4))
        ca = rand_labels(rng, 'str', rng.randint(1, 3))
        dta = [rng.choice(('int', 'float', 'bool')) for _ in ca]
        fa = make_frame(rng, ia, ikind, ca, 'str', dta, rand_layout(rng, dta))
        which = rng.choice(('index', 'columns', 'both', 'both'))
        ni = nc = None
        if which in ('index', 'both'):
            ni = rng.choice((rand_labels(rng, ikind, rng.randint(0, 5)), list(ia), rng.sample(ia, len(ia)),
                             [x for x in UNIVERSES[ikind][:6] if x not in ia]))
        if which in ('columns', 'both'):
            nc = rng.choice((rand_labels(rng, 'str', rng.randint(0, 4)), list(ca), rng.sample(ca, len(ca)),
                             [x for x in UNIVERSES['str'][:5] if x not in ca]))
        kw = {}
        if ni is not None:
            kw['index'] = make_index(ni, ikind)
        if nc is not None:
            kw['columns'] = make_index(nc, 'str')
        obs, odesc = frame_obs(lambda: fa.reindex(**kw))
        tags = {'container': 'frame', 'call': 'reindex', 'axes': which}
        if ni is not None and nc is not None and resize_bug_class(ia, ca, ni, nc):
            tags['regression'] = R_RESIZE
        ctx.count(f'reindex:{which}', f'reindex:layout:{zoo.layout_str(zoo.layout_of(fa))}')
        oi = 'None' if ni is None else f'(Some {lit.vlist(ni)})'
        oc = 'None' if nc is None else f'(Some {lit.vlist(nc)})'
        ddi = lit.dtype(kw['index'].values.dtype) if ni is not None else lit.dtype(fa.index.values.dtype)
        ddc = lit.dtype(kw['columns'].values.dtype) if nc is not None else lit.dtype(fa.columns.values.dtype)
        yield Case('api:frame.reindex', {'call': f'A.reindex(index={plain(ni)!r}, columns={plain(nc)!r})', 'A': frame_desc(fa), 'observed': odesc},
                   m=f'MFR {fin_lit(fa)} {ddi} {ddc} {oi} {oc} {obs}', s=f'SFR {fin_lit(fa)} {oi} {oc} {obs}', tags=tags,
                   nontrivial=bool(ia) and (ni is not None or nc is not None))


def hier_shared_cases(ctx):
    """Hierarchies whose branches SHARE one inner Index object (IndexHierarchy.from_product, from_index_items with one
    Index, level_add on top of them) against a hierarchy of the same shape that differs in one inner label of one
    branch (every branch position), a same-label-set permutation, or an equal one -- in both operand orders:
    set operations, Series op Series and Frame op Frame.  (An equality test that looks at shared inner objects only
    once would pair such operands by position.)"""
    import static_frame as sf
    rng = ctx.rng
    combos = []
    for outer_kind, outers in (('str', ('a', 'b', 'c')), ('int', (0, 1, 2, 3))):
        for inners in ((1, 2), (1, 2, 3), ('x', 'y')):
            combos.append((outer_kind, outers, inners))
    for outer_kind, outers, inners in combos:
        for build in ('product', 'index_items', 'level_add'):
            if build == 'product':
                left = sf.IndexHierarchy.from_product(outers, inners)
            elif build == 'index_items':
                shared = sf.Index(inners)
                left = sf.IndexHierarchy.from_index_items(tuple((o, shared) for o in outers))
            else:
                left = sf.IndexHierarchy.from_product(outers, inners).level_add('z')
            ll = lit.labels(left)
            fresh = 9 if not isinstance(inners[0], str) else 'q'
            variants = [('equal', list(ll))]
            for k in range(len(outers)):                      # one inner label replaced in branch k
                lb = list(ll)
                pos = k * len(inners) + rng.randrange(len(inners))
                lb[pos] = lb[pos][:-1] + (fresh,)
                variants.append((f'differs-in-branch-{k}', lb))
            perm = []
            for o in rng.sample(outers, len(outers)):         # same label set, other branch / inner order
                sub = [t for t in ll if t[-2] == o]
                perm.extend(rng.sample(sub, len(sub)))
            variants.append(('permuted', perm))
            for vname, lb in variants:
                right = sf.IndexHierarchy.from_labels(lb)
                same_dtypes = all(x == y for x, y in zip(left.dtypes.values, right.dtypes.values))
                for a, b, la, lb_, order in ((left, right, ll, lb, 'shared-left'), (right, left, lb, ll, 'shared-right')):
                    tags = {'kind': 'ih-shared', 'build': build, 'variant': vname, 'order': order}
                    for opname, opcoq in OPS:
                        obs, exc = _res_labels(lambda: getattr(a, opname)(b))
                        ctx.count(f'ih-shared:{build}', f'ih-shared:{vname.split("-")[0]}', f'ih-shared:{order}')
                        desc = {'call': f'{order}: A.{opname}(B)', 'A': repr(plain(la)), 'B': repr(plain(lb_)), 'shared_side_built_by': build,
                                'observed': repr(plain(obs)) if exc is None else type(exc).__name__}
                        if exc is not None:
                            yield Case(f'api:index_hierarchy.{opname}:shared-inner', desc, py_fail=f'{opname} raised {type(exc).__name__}: {exc}', tags=dict(tags, op=opname))
                            continue
                        yield Case(f'api:index_hierarchy.{opname}:shared-inner', desc,
                                   m=(f'MI2 {opcoq} OperandIndex {lit.b(same_dtypes)} {lit.dtype(a.values.dtype)} {lit.dtype(b.values.dtype)} '
                                      f'{a.depth} {b.depth} {lit.vlist(la)} {lit.vlist(lb_)} (Ok {lit.vlist(obs)})'),
                                   s=f'SI {opcoq} true {lit.vlist(la)} {lit.vlist(lb_)} {lit.vlist(obs)}', tags=dict(tags, op=opname),
                                   nontrivial=vname != 'equal')
                    # values by label: Series and a one-block Frame over the two hierarchies
                    va = gen_values(rng, len(la), 'int', 'num')
                    vb = gen_values(rng, len(lb_), 'int', 'num')
                    sa, sb = sf.Series(va, index=a), sf.Series(vb, index=b)
                    for opname in ('sub', 'eq'):
                        yield from series_pair_cases(ctx, sa, sb, opname, 'ih-shared:' + build, 'api:series-op-series:shared-inner')
                    fa = zoo.frame_from_columns([va, va + 1], ((2, True),), index=a, columns=make_index(('p', 'q'), 'str'))
                    fb = zoo.frame_from_columns([vb, vb + 1], ((1, False), (1, True)), index=b, columns=make_index(('p', 'q'), 'str'))
                    yield from frame_pair_cases(ctx, fa, fb, ['int', 'int'], ['int', 'int'], 'sub', 'api:frame-op-frame:shared-inner')


def nan_label_cases(ctx):
    """One operand holds a NaN (NaT) label at a position where the other holds an ordinary label; same length, all
    other positions equal; both operand orders.  Only what the property determines is compared: the ORDINARY labels of
    the result (and their values) must be what set algebra / alignment prescribes; the NaN label itself is undetermined.
    Index.equals (the equal-operands shortcut of every alignment path) is also observed against its model."""
    import static_frame as sf
    rng = ctx.rng

    def isnan(x):
        return x is None or (isinstance(x, float) and x != x) or (isinstance(x, (np.datetime64,)) and np.isnat(x))

    def ordinary(labels):
        return [x for x in labels if not isnan(x)]

    def mk(kind, labels):
        if kind == 'float':
            return sf.Index(np.array(labels, dtype=np.float64))
        return sf.IndexDate(np.array(labels, dtype='datetime64[D]'))

    def key(x):
        return x.item() if isinstance(x, np.generic) and not isinstance(x, np.datetime64) else x

    base = {'float': [3.0, 1.0, 2.0, 5.0], 'date': [np.datetime64('2020-01-03'), np.datetime64('2020-01-01'), np.datetime64('2020-01-02'), np.datetime64('2020-01-05')]}
    nan = {'float': np.nan, 'date': np.datetime64('NaT')}
    for kind in ('float', 'date'):
        for n in (1, 2, 3, 4):
            for pos in range(n):
                for both in (False, True):
                    la = list(base[kind][:n])
                    lb = list(la)
                    lb[pos] = nan[kind]
                    if both:
                        la = list(lb)                       # NaN at the same position on both sides: equal indices
                    for x_l, y_l, order in ((la, lb, 'nan-in-argument'), (lb, la, 'nan-in-receiver')):
                        x, y = mk(kind, x_l), mk(kind, y_l)
                        tags = {'kind': 'nan-label', 'labels': kind, 'order': order, 'both': both}
                        ox, oy = [key(v) for v in ordinary(lit.labels(x))], [key(v) for v in ordinary(lit.labels(y))]
                        want = {'union': set(ox) | set(oy), 'intersection': set(ox) & set(oy), 'difference': set(ox) - set(oy)}
                        # Index.equals against its model (mask operands regenerated from the source)
                        eq = bool(x.equals(y))
                        lx, ly = lit.vlist(lit.labels(x)), lit.vlist(lit.labels(y))
                        ctx.count('nan-label:equals', f'nan-label:{kind}')
                        yield Case('api:index.equals:nan-label', {'call': f'Index({x_l!r}).equals(Index({y_l!r}))', 'observed': eq},
                                   m=f'MEQ {lx} {ly} {lit.b(eq)}', s=f'SEQ {lx} {ly} {lit.b(eq)}', tags=dict(tags, op='equals'))
                        for opname, _ in OPS:
                            fail = None
                            try:
                                got = [key(v) for v in ordinary(lit.labels(getattr(x, opname)(y)))]
                                if len(got) != len(set(got)) or set(got) != want[opname]:
                                    fail = f'ordinary labels of {opname}: {sorted(map(str, got))}, set algebra prescribes {sorted(map(str, want[opname]))}'
                            except Exception as e:  # noqa
                                got, fail = type(e).__name__, f'{opname} raised {type(e).__name__}: {e}'
                            ctx.count(f'nan-label:{opname}')
                            yield Case(f'api:index.{opname}:nan-label', {'call': f'Index({x_l!r}).{opname}(Index({y_l!r}))', 'ordinary_labels_observed': repr(got)},
                                       py_fail=fail, tags=dict(tags, op=opname), nontrivial=not both)
                        # Series / Frame operators: value by ordinary label
                        vx = [int(v) for v in gen_values(rng, n, 'int', 'num')]
                        vy = [int(v) for v in gen_values(rng, n, 'int', 'num')]
                        for opname, fn in (('add', lambda p, q: p + q), ('sub', lambda p, q: p - q)):
                            dunder = BINOPS[opname][0]
                            dx = {key(l): v for l, v in zip(lit.labels(x), vx) if not isnan(l)}
                            dy = {key(l): v for l, v in zip(lit.labels(y), vy) if not isnan(l)}
                            spec = {l: (fn(dx[l], dy[l]) if l in dx and l in dy else None) for l in set(dx) | set(dy)}
                            for container in ('series', 'frame'):
                                fail = None
                                try:
                                    if container == 'series':
                                        r = getattr(sf.Series(np.array(vx, dtype=np.int64), index=x), dunder)(sf.Series(np.array(vy, dtype=np.int64), index=y))
                                        rows = list(zip(lit.labels(r.index), lit.array_vals(r.values)))
                                    else:
                                        fx = zoo.frame_from_columns([np.array(vx, dtype=np.int64)] * 2, ((2, True),), index=x, columns=make_index(('p', 'q'), 'str'))
                                        fy = zoo.frame_from_columns([np.array(vy, dtype=np.int64)] * 2, ((1, False), (1, True)), index=y, columns=make_index(('p', 'q'), 'str'))
                                        r = getattr(fx, dunder)(fy)
                                        c0, c1 = [lit.array_vals(a) for a in r.iter_array(axis=0)]
                                        if any(not (p == q or (p != p and q != q)) for p, q in zip(c0, c1)):
                                            fail = 'the two identical columns of the result differ'
                                        rows = list(zip(lit.labels(r.index), c0))
                                    seen = {}
                                    for l, v in rows:
                                        if not isnan(l):
                                            if key(l) in seen:
                                                fail = f'label {l} twice'
                                            seen[key(l)] = v
                                    if fail is None and set(seen) != set(spec):
                                        fail = f'ordinary labels {sorted(map(str, seen))}, alignment prescribes {sorted(map(str, spec))}'
                                    if fail is None:
                                        for l, w in spec.items():
                                            v = seen[l]
                                            if (w is None and v == v) or (w is not None and v != w):
                                                fail = f'at label {l}: {v}, alignment prescribes {"the missing marker" if w is None else w}'
                                                break
                                    obs = repr([(str(l), v) for l, v in rows])
                                except Exception as e:  # noqa
                                    obs, fail = type(e).__name__, f'{dunder} raised {type(e).__name__}: {e}'
                                ctx.count(f'nan-label:{container}:{opname}')
                                yield Case(f'api:{container}-op-{container}:nan-label',
                                           {'call': f'{container}(values {vx}, index {x_l!r}).{dunder}({container}(values {vy}, index {y_l!r}))', 'observed': obs},
                                           py_fail=fail, tags=dict(tags, op=opname, container=container), nontrivial=not both)


F_DTUNIT = 'C06-datetime-unit-alignment-unsorted'

OPERATOR_TABLE = None


def _operator_table():
    """Every binary operator dunder of the operator interfaces with the NumPy function it must apply:
    name -> (dunder, fn(cell, other), kind).  Reflected forms apply fn(other, cell)."""
    import operator as o
    global OPERATOR_TABLE
    if OPERATOR_TABLE is None:
        base = {'add': (o.add, 'arith'), 'sub': (o.sub, 'arith'), 'mul': (o.mul, 'arith'), 'truediv': (o.truediv, 'arith'),
                'floordiv': (o.floordiv, 'arith'), 'mod': (o.mod, 'arith'), 'pow': (o.pow, 'pow'),
                'lshift': (o.lshift, 'shift'), 'rshift': (o.rshift, 'shift'),
                'and': (o.and_, 'bits'), 'xor': (o.xor, 'bits'), 'or': (o.or_, 'bits'),
                'lt': (o.lt, 'cmp'), 'le': (o.le, 'cmp'), 'eq': (o.eq, 'cmp'), 'ne': (o.ne, 'cmp'), 'gt': (o.gt, 'cmp'), 'ge': (o.ge, 'cmp')}
        table = {}
        for name, (fn, kind) in base.items():
            table[name] = (f'__{name}__', fn, kind, False)
            if kind != 'cmp':
                table['r' + name] = (f'__r{name}__', (lambda f: (lambda cell, other: f(other, cell)))(fn), kind, True)
        OPERATOR_TABLE = table
    return OPERATOR_TABLE


def operator_matrix_cases(ctx):
    """EVERY binary operator method (direct and reflected, as far as the interface defines it) of Series, Frame (axis 0)
    and Frame.via_T (axis 1) with a scalar / tuple / list / 1-D array / Series operand (Series: same labels permuted, and
    partially overlapping for the arithmetic operators), on several block layouts, with cells and operands that make
    the operators pairwise distinguishable (no even division, non-commutative) -- against the per-label reference
    fn(cell, other) computed with NumPy scalars of the cell's own dtype.  Values AND result dtype kind are compared."""
    import static_frame as sf
    rng = ctx.rng
    table = _operator_table()
    rows, cols = ('x', 'y', 'z'), ('a', 'b', 'c')
    cells_int = {'a': [7, -5, 11], 'b': [9, 13, -7], 'c': [5, 17, 3]}
    cells_pos = {'a': [7, 5, 11], 'b': [9, 13, 6], 'c': [5, 17, 3]}       # shifts / pow / bit operators: non-negative cells
    others = {'arith': [2, -3, 4], 'cmp': [7, 13, 4], 'bits': [6, 3, 12], 'shift': [1, 2, 3], 'pow': [2, 3, 1]}
    layouts3 = list(zoo.layouts_for([np.int64] * 3))
    mixed = [np.int64, np.float64, np.int64]

    def defines(obj, dunder):
        return any(dunder in k.__dict__ for k in type(obj).__mro__)     # (type itself has __or__/__ror__)

    def scalar_of(dt, v):
        return np.float64(v) if dt == np.float64 else np.int64(v)

    def expected(fn, cell, dt, other):
        if other is None:
            return float('nan'), 'f'
        import warnings
        with warnings.catch_warnings():
            warnings.simplefilter('ignore')
            r = fn(scalar_of(dt, cell), np.int64(other) if not isinstance(other, float) else np.float64(other))
        return r.item(), np.asarray(r).dtype.kind

    def same(v, w):
        return (v != v and w != w) or (v == w and type(v) is type(w)) or (v == w and isinstance(v, (int, float)) and isinstance(w, (int, float)) and not isinstance(v, bool) and not isinstance(w, bool) and float(v) == float(w))

    def run(container, target, dunder, operand, cellmap, dtypes, other_at, partial, desc, tags, axis_labels):
        """other_at(row label, column label) -> the operand value paired with that cell (None: label missing)."""
        name, fn = tags['op'], table[tags['op']][1]
        fail = None
        try:
            import warnings
            with warnings.catch_warnings():
                warnings.simplefilter('ignore')
                r = getattr(target, dunder)(operand)
            if container == 'series':
                got = {(l, None): (v, r.dtype.kind) for l, v in zip(lit.labels(r.index), lit.array_vals(r.values))}
            else:
                got = {}
                for c, a in zip(lit.labels(r.columns), r.iter_array(axis=0)):
                    for l, v in zip(lit.labels(r.index), lit.array_vals(a)):
                        got[(l, c)] = (v, a.dtype.kind)
            want = {}
            for (rl, cl) in axis_labels:
                if (rl, cl) in cellmap:
                    o_ = other_at(rl, cl)
                    want[(rl, cl)] = expected(fn, cellmap[(rl, cl)], dtypes[cl], o_)
                else:
                    want[(rl, cl)] = (float('nan'), 'f')
            if set(got) != set(want):
                fail = f'result labels {sorted(map(str, got))[:6]}..., expected {sorted(map(str, want))[:6]}...'
            else:
                for k, (w, wk) in want.items():
                    v, vk = got[k]
                    if not same(v, w) or (not partial and vk != wk):
                        fail = f'at {k}: {v!r} (dtype kind {vk}), {name} prescribes {w!r} (kind {wk})'
                        break
            obs = repr(sorted((str(k), v[0]) for k, v in got.items())[:9])
        except Exception as e:  # noqa
            obs, fail = type(e).__name__, f'{dunder} raised {type(e).__name__}: {e}'
        ctx.count(f'opmatrix:{container}', f'opmatrix:op:{name}', f'opmatrix:operand:{tags["operand"]}')
        return Case(f'api:{container}:operator-matrix', dict(desc, observed=obs), py_fail=fail, tags=tags)

    def operands(kind, labels, n):
        """(operand kind, python object, value-by-label or positional list, partial?)"""
        vals = others[kind][:n]
        out = [('scalar', vals[0], None, False), ('tuple', tuple(vals), vals, False), ('list', list(vals), vals, False),
               ('array', np.array(vals, dtype=np.int64), vals, False)]
        perm = list(range(n))
        rng.shuffle(perm)
        out.append(('series-permuted', sf.Series(np.array([vals[i] for i in perm], dtype=np.int64), index=[labels[i] for i in perm]),
                    dict(zip(labels, vals)), False))
        if kind == 'arith':
            out.append(('series-partial', sf.Series(np.array([vals[0], 5], dtype=np.int64), index=[labels[-1], 'w']),
                        {labels[-1]: vals[0], 'w': 5}, True))
        return out

    for name, (dunder, fn, kind, reflected) in table.items():
        pos = kind in ('shift', 'pow', 'bits')
        src = cells_pos if pos else cells_int
        # ---- Series
        s = sf.Series(np.array(src['a'], dtype=np.int64), index=rows)
        if defines(s, dunder):
            for okind, obj, byl, partial in operands(kind, rows, 3):
                labels = list(rows) + (['w'] if partial else [])
                if isinstance(byl, dict):
                    at = lambda rl, cl, byl=byl: byl.get(rl)
                elif byl is None:
                    at = lambda rl, cl, obj=obj: obj
                else:
                    at = lambda rl, cl, byl=byl: byl[rows.index(rl)]
                yield run('series', s, dunder, obj, {(r_, None): v for r_, v in zip(rows, src['a'])}, {None: np.int64}, at, partial,
                          {'call': f'Series({src["a"]}, index={rows}).{dunder}({okind} {plain(lit.array_vals(obj.values)) if okind.startswith("series") else plain(obj)!r})'},
                          {'op': name, 'operand': okind, 'container': 'series', 'reflected': reflected}, [(l, None) for l in labels])
        # ---- Frame (axis 0: operand against the columns) and Frame.via_T (axis 1: operand against the index)
        frames = [(lay, [np.int64] * 3) for lay in rng.sample(layouts3, 3)] + [(((1, False), (1, True), (1, False)), mixed)]
        for lay, dts in frames:
            colarrs = [np.array(src[c], dtype=dt) for c, dt in zip(cols, dts)]
            f = zoo.frame_from_columns(colarrs, lay, index=make_index(rows, 'str'), columns=make_index(cols, 'str'))
            cellmap = {(r_, c): src[c][i] for c in cols for i, r_ in enumerate(rows)}
            dtypes = dict(zip(cols, dts))
            for axis1 in (False, True):
                target = f.via_T if axis1 else f
                if not defines(target, dunder):
                    continue
                axis = rows if axis1 else cols
                if pos and np.float64 in dts:
                    continue                                   # shifts / bit operators / integer pow are for integer cells
                for okind, obj, byl, partial in operands(kind, axis, 3):
                    extra = ['w'] if partial else []
                    labels = [(r_, c) for r_ in list(rows) + (extra if axis1 else []) for c in list(cols) + ([] if axis1 else extra)]
                    pick = (lambda rl, cl: rl) if axis1 else (lambda rl, cl: cl)
                    if isinstance(byl, dict):
                        at = lambda rl, cl, byl=byl, pick=pick: byl.get(pick(rl, cl))
                    elif byl is None:
                        at = lambda rl, cl, obj=obj: obj
                    else:
                        at = lambda rl, cl, byl=byl, pick=pick, axis=axis: byl[axis.index(pick(rl, cl))]
                    yield run('frame.via_T' if axis1 else 'frame', target, dunder, obj, cellmap, dtypes, at, partial,
                              {'call': f'A{".via_T" if axis1 else ""}.{dunder}({okind} {plain(lit.array_vals(obj.values)) if okind.startswith("series") else plain(obj)!r})',
                               'A': frame_desc(f)},
                              {'op': name, 'operand': okind, 'container': 'frame.via_T' if axis1 else 'frame', 'reflected': reflected,
                               'layout': zoo.layout_str(lay)}, labels)


def datetime_unit_cases(ctx):
    """Aligning datetime64 indices of DIFFERENT units (IndexDate with IndexYearMonth): reference by label (first-of-month
    days denote the month label).  The operand whose unit differs from the union's is located through a Boolean mask
    (index.py:249-253), which answers positions in index order, not key order: wrong pairing when that operand is unsorted."""
    import static_frame as sf
    D = lambda xs: sf.IndexDate(xs)
    M = lambda xs: sf.IndexYearMonth(xs)
    pool = [('a-unsorted-D + b-unsorted-M', ['2020-03-01', '2020-01-01', '2020-02-01'], D, [1, 2, 3], ['2020-03', '2020-02'], M, [20, 10]),
            ('sorted operands', ['2020-01-01', '2020-02-01', '2020-03-01'], D, [2, 3, 1], ['2020-02', '2020-03'], M, [10, 20]),
            ('left unsorted, right sorted', ['2020-03-01', '2020-01-01', '2020-02-01'], D, [1, 2, 3], ['2020-02', '2020-03'], M, [10, 20]),
            ('same labels, right unsorted', ['2020-01-01', '2020-02-01'], D, [5, 6], ['2020-02', '2020-01'], M, [70, 80])]
    for name, la, ca, va, lb, cb, vb in pool:
        for swap in (False, True):
            (xl, xc, xv), (yl, yc, yv) = ((la, ca, va), (lb, cb, vb)) if not swap else ((lb, cb, vb), (la, ca, va))
            sx, sy = sf.Series(np.array(xv), index=xc(xl)), sf.Series(np.array(yv), index=yc(yl))
            key = lambda s_: str(np.datetime64(s_, 'M'))
            dx, dy = {key(l): v for l, v in zip(xl, xv)}, {key(l): v for l, v in zip(yl, yv)}
            spec = {k: (dx[k] + dy[k] if k in dx and k in dy else None) for k in set(dx) | set(dy)}
            right_sorted = [key(l) for l in yl] == sorted(key(l) for l in yl)
            tags = {'kind': 'datetime-units', 'op': 'add', 'container': 'series'}
            if not right_sorted:
                tags['finding'] = F_DTUNIT          # by construction: units differ and the right (other-unit) operand is unsorted
            fail = None
            try:
                r = sx + sy
                got = {str(np.datetime64(l, 'M')): v for l, v in zip(r.index.values, lit.array_vals(r.values))}
                if set(got) != set(spec):
                    fail = f'labels {sorted(got)}, expected {sorted(spec)}'
                else:
                    for k, w in sorted(spec.items()):
                        v = got[k]
                        if (w is None and v == v) or (w is not None and v != w):
                            fail = f'at {k}: {v}, alignment prescribes {"the missing marker" if w is None else w}'
                            break
                obs = repr(sorted(got.items()))
                # recorded KIND of outcome: right labels, right missing pattern, the same values paired with other labels
                nan_ok = set(got) == set(spec) and all((spec[k] is None) == (got[k] != got[k]) for k in spec)
                total_ok = nan_ok and sum(v for v in got.values() if v == v) == sum(w for w in spec.values() if w is not None)
                outcome = 'values-mispaired' if (fail is not None and total_ok) else ('ok' if fail is None else 'other')
            except Exception as e:  # noqa
                obs, fail, outcome = type(e).__name__, f'raised {type(e).__name__}: {e}', 'raises:' + lit.err_class(e)
            if 'finding' in tags:
                tags['outcome'] = outcome
            ctx.count('datetime-units')
            yield Case('api:series-op-series:datetime-units',
                       {'call': f'Series({xv}, index={xc(xl).__class__.__name__}({xl})) + Series({yv}, index={yc(yl).__class__.__name__}({yl}))',
                        'case': name, 'observed': obs}, py_fail=fail, tags=tags)


F_MIXDEPTH = 'C06-mixed-depth-operator-raises'
F_BOOLLAB = 'C06-bool-labels-partial-overlap'


def _pyfail_series(r, spec, numeric=True):
    """Result Series against {label: value or None (missing)}; returns a failure text or None."""
    got = dict(zip([plain(x) for x in lit.labels(r.index)], [plain(v) for v in lit.array_vals(r.values)]))
    if len(got) != len(r.index) or set(got) != set(spec):
        return f'labels {sorted(map(str, got))}, expected {sorted(map(str, spec))}'
    for k, w in spec.items():
        v = got[k]
        if w is None:
            if v == v and v is not None:
                return f'at {k!r}: {v!r}, expected the missing marker'
        elif v != w or (not numeric and type(v) is not type(w)):
            return f'at {k!r}: {v!r}, expected {w!r}'
    return None


def route_cases(ctx):
    """Routes of the aligned-operator / set-operation code that the other strata do not reach (coverage-guided):
    string cells (container_util.apply_binary_operator: npc.add / multiply, scalar Boolean results), 2-D unlabelled
    operands, many / zero operands of union / intersection, grown IndexGO operands, range / dict / generator / labelled
    arguments, Boolean labels, 1-D tuple labels against hierarchies, IndexHierarchy with ndarray / list / empty /
    date-typed operands, unified-block fancy selection of resize_blocks, consolidation of several dtype runs."""
    import static_frame as sf
    rng = ctx.rng

    def attempt(fn):
        import warnings
        try:
            with warnings.catch_warnings():
                warnings.simplefilter('ignore')
                return fn(), None
        except Exception as e:  # noqa
            return None, e

    def pycase(kind, call, fn, check, tags=None, expect_error=None):
        r, e = attempt(fn)
        fail = None
        if expect_error is not None:
            if e is None or lit.err_class(e) != expect_error:
                fail = f'expected {expect_error}, got {type(e).__name__ if e else "a result"}'
            obs = type(e).__name__ if e else 'result'
        elif e is not None:
            fail, obs = f'raised {type(e).__name__}: {e}', type(e).__name__
        else:
            fail = check(r)
            obs = repr(r.values.tolist())[:300] if hasattr(r, 'values') else repr(r)
        tg = dict(tags or {}, route=kind)
        if 'finding' in tg:        # the entry excuses only the recorded exception class
            tg['outcome'] = ('raises:' + lit.err_class(e)) if e is not None else 'result'
        ctx.count('route:' + kind)
        return Case('api:route:' + kind, {'call': call, 'observed': obs}, py_fail=fail, tags=tg)

    # ---- 1. string cells -------------------------------------------------------------------------------------------
    labels = ('x', 'y', 'z')
    cells = ['ab', 'c', 'de']
    ss = sf.Series(cells, index=labels)
    perm = sf.Series(['1', '22', '3'], index=('z', 'x', 'y'))
    byl = dict(zip(labels, cells))
    pb = dict(zip(('z', 'x', 'y'), ['1', '22', '3']))
    str_ops = [
        ('add-scalar', lambda: ss + 'q', {k: v + 'q' for k, v in byl.items()}),
        ('radd-scalar', lambda: 'q' + ss, {k: 'q' + v for k, v in byl.items()}),
        ('mul-scalar', lambda: ss * 2, {k: v * 2 for k, v in byl.items()}),
        ('rmul-scalar', lambda: 2 * ss, {k: v * 2 for k, v in byl.items()}),
        ('eq-scalar', lambda: ss == 'c', {k: v == 'c' for k, v in byl.items()}),
        ('ne-scalar', lambda: ss != 'c', {k: v != 'c' for k, v in byl.items()}),
        ('lt-scalar', lambda: ss < 'c', {k: v < 'c' for k, v in byl.items()}),
        ('ge-scalar', lambda: ss >= 'c', {k: v >= 'c' for k, v in byl.items()}),
        ('eq-int-scalar', lambda: ss == 3, {k: False for k in byl}),            # NumPy answers one scalar False: expanded
        ('ne-int-scalar', lambda: ss != 3, {k: True for k in byl}),
        ('eq-array-1', lambda: ss == np.array(['c']), {k: v == 'c' for k, v in byl.items()}),
        ('add-series-permuted', lambda: ss + perm, {k: byl[k] + pb[k] for k in byl}),
        ('radd-series-permuted', lambda: ss.__radd__(perm), {k: pb[k] + byl[k] for k in byl}),
        ('eq-series-permuted', lambda: ss == sf.Series(['c', 'ab', 'x'], index=('y', 'x', 'z')), {'x': True, 'y': True, 'z': False}),
        ('add-array', lambda: ss + np.array(['1', '2', '3']), {k: byl[k] + d for k, d in zip(labels, '123')}),
    ]
    for name, fn, spec in str_ops:
        yield pycase('str-cells:series:' + name, f'Series({cells}, index={labels}) {name}', fn, lambda r, spec=spec: _pyfail_series(r, spec, numeric=False))
    yield pycase('str-cells:series:eq-array-wrong-length', 'Series(str) == array of 2', lambda: ss == np.array(['c', 'd']), None, expect_error='ValueError')
    for lay in (((2, True),), ((1, False), (1, True))):
        fs = zoo.frame_from_columns([np.array(['ab', 'c']), np.array(['d', 'ef'])], lay, index=make_index(('x', 'y'), 'str'), columns=make_index(('p', 'q'), 'str'))
        fcell = {('x', 'p'): 'ab', ('y', 'p'): 'c', ('x', 'q'): 'd', ('y', 'q'): 'ef'}

        def fcheck(r, f_):
            got = {(plain(rl), plain(cl)): plain(v) for cl, a in zip(lit.labels(r.columns), r.iter_array(axis=0)) for rl, v in zip(lit.labels(r.index), lit.array_vals(a))}
            want = {k: f_(v, k) for k, v in fcell.items()}
            return None if got == want and all(type(got[k]) is type(want[k]) for k in want) else f'cells {got}, expected {want}'
        other = zoo.frame_from_columns([np.array(['1', '2']), np.array(['3', '4'])], ((1, True), (1, False)), index=make_index(('y', 'x'), 'str'), columns=make_index(('q', 'p'), 'str'))
        ocell = {('y', 'q'): '1', ('x', 'q'): '2', ('y', 'p'): '3', ('x', 'p'): '4'}
        col_s = sf.Series(['7', '8'], index=('q', 'p'))
        row_s = sf.Series(['7', '8'], index=('y', 'x'))
        for name, fn, f_ in (('add-scalar', lambda: fs + 'z', lambda v, k: v + 'z'), ('radd-scalar', lambda: 'z' + fs, lambda v, k: 'z' + v),
                             ('mul-scalar', lambda: fs * 2, lambda v, k: v * 2), ('eq-scalar', lambda: fs == 'c', lambda v, k: v == 'c'),
                             ('eq-int-scalar', lambda: fs == 1, lambda v, k: False), ('lt-scalar', lambda: fs < 'd', lambda v, k: v < 'd'),
                             ('add-frame-permuted', lambda: fs + other, lambda v, k: v + ocell[k]),
                             ('add-series-axis0', lambda: fs + col_s, lambda v, k: v + {'q': '7', 'p': '8'}[k[1]]),
                             ('radd-series-axis1', lambda: fs.via_T.__radd__(row_s), lambda v, k: {'y': '7', 'x': '8'}[k[0]] + v)):
            yield pycase(f'str-cells:frame:{name}', f'Frame(str cells, layout {zoo.layout_str(lay)}) {name}', fn, lambda r, f_=f_: fcheck(r, f_), tags={'layout': zoo.layout_str(lay)})

    # ---- 2. Frame with an unlabelled 2-D array (positional), every operator kind, and the shape guard --------------
    for lay in zoo.layouts_for([np.int64, np.int64, np.float64]):
        f = zoo.frame_from_columns([np.array([7, -5]), np.array([9, 13]), np.array([2.5, -1.5])], lay, index=make_index(('x', 'y'), 'str'), columns=make_index(('a', 'b', 'c'), 'str'))
        arr = np.array([[2, -3, 4], [5, 2, -2]])
        base = np.array([[7, 9, 2.5], [-5, 13, -1.5]], dtype=object)
        import operator as o
        for name, fn in (('add', o.add), ('sub', o.sub), ('mul', o.mul), ('truediv', o.truediv), ('floordiv', o.floordiv), ('mod', o.mod), ('lt', o.lt), ('eq', o.eq)):
            def chk(r, fn=fn):
                for j, a in enumerate(r.iter_array(axis=0)):
                    col = np.array([7, -5]) if j == 0 else np.array([9, 13]) if j == 1 else np.array([2.5, -1.5])
                    want = fn(col, arr[:, j])
                    if a.dtype != want.dtype or a.tolist() != want.tolist():
                        return f'column {j}: {a.tolist()} {a.dtype}, expected {want.tolist()} {want.dtype}'
                return None if lit.labels(r.index) == ['x', 'y'] and lit.labels(r.columns) == ['a', 'b', 'c'] else 'labels changed'
            yield pycase(f'frame-op-array2d:{name}', f'Frame(layout {zoo.layout_str(lay)}).__{name}__(2x3 ndarray)', lambda f=f, fn=fn: fn(f, arr), chk, tags={'layout': zoo.layout_str(lay)})
        yield pycase('frame-op-array2d:wrong-shape', 'Frame(2x3) + ndarray(2x2)', lambda f=f: f + np.array([[1, 2], [3, 4]]), None, expect_error='NotImplementedError')

    # ---- 3. union / intersection of many or no operands; operand kinds of iterable_to_array_1d; grown IndexGO --------
    def labels_check(want, ordered=None):
        def chk(r):
            got = [plain(x) for x in lit.labels(r)]
            if len(got) != len(set(got)) or set(got) != set(want):
                return f'labels {got}, set algebra prescribes {sorted(want, key=str)}'
            if ordered is not None and got != ordered:
                return f'labels {got}, identical operands keep the order {ordered}'
            return None
        return chk
    for kind in ('int', 'str'):
        u = UNIVERSES[kind]
        for _ in range(ctx.n(12, 200)):
            la, lb, lc = (rng.sample(u, rng.randint(0, 5)) for _ in range(3))
            a, b, c = make_index(la, kind), make_index(lb, kind), make_index(lc, kind)
            yield pycase('setop:many:union', f'Index({la}).union(Index({lb}), Index({lc}))', lambda: a.union(b, c), labels_check(set(la) | set(lb) | set(lc)))
            yield pycase('setop:many:intersection', f'Index({la}).intersection(Index({lb}), {lc})', lambda: a.intersection(b, list(lc)), labels_check(set(la) & set(lb) & set(lc)))
            yield pycase('setop:many:identical', f'Index({la}).union(same, same)', lambda: a.union(make_index(la, kind), make_index(la, kind)), labels_check(set(la), ordered=list(la)))
            yield pycase('setop:none:union', f'Index({la}).union()', lambda: a.union(), labels_check(set(la), ordered=list(la)))
            yield pycase('setop:none:intersection', f'IndexGO({la}).intersection()', lambda: make_index(la, kind, cls=sf.IndexGO).intersection(), labels_check(set(la), ordered=list(la)))
            # a grow-only index with appended labels (array cache pending) as receiver and as argument
            g = make_index(la, kind, cls=sf.IndexGO)
            extra = [x for x in u if x not in la][:2]
            for x in extra:
                g.append(x)
            lg = la + extra
            for opname, want in (('union', set(lg) | set(lb)), ('intersection', set(lg) & set(lb)), ('difference', set(lg) - set(lb))):
                yield pycase(f'setop:grown-go-receiver:{opname}', f'IndexGO({la}+append{extra}).{opname}(Index({lb}))', lambda opname=opname: getattr(g, opname)(b), labels_check(want))
            yield pycase('setop:grown-go-argument:union', f'Index({lb}).union(IndexGO({la}+append{extra}))', lambda: b.union(g), labels_check(set(lg) | set(lb)))
            yield pycase('setop:grown-go-identical', 'Index(labels).union(grown IndexGO with the same labels)', lambda: make_index(lg, kind).union(g), labels_check(set(lg), ordered=list(lg)))
    a = make_index((3, 1, 2), 'int')
    yield pycase('setop:operand:range', 'Index((3,1,2)).union(range(2,5))', lambda: a.union(range(2, 5)), labels_check({1, 2, 3, 4}))
    yield pycase('setop:operand:range-difference', 'Index((3,1,2)).difference(range(2,5))', lambda: a.difference(range(2, 5)), labels_check({1}))
    yield pycase('setop:operand:dict', 'Index((3,1,2)).intersection({7:0, 1:0})', lambda: a.intersection({7: 0, 1: 0}), labels_check({1}))
    yield pycase('setop:operand:dict-keys', 'Index((3,1,2)).union({7:0}.keys())', lambda: a.union({7: 0, 1: 0}.keys()), labels_check({1, 2, 3, 7}))
    yield pycase('setop:operand:generator', 'Index((3,1,2)).union(generator)', lambda: a.union(x for x in (4, 1, 4)), labels_check({1, 2, 3, 4}))
    yield pycase('setop:operand:single-str', "Index(('a','b')).union('ab')", lambda: make_index(('a', 'b'), 'str').union('ab'), labels_check({'a', 'b', 'ab'}))
    yield pycase('setop:operand:labelled-rejected', 'Index.union(Series): labels would be ignored', lambda: a.union(sf.Series((1, 2))), None, expect_error='RuntimeError')

    # ---- 4. Boolean labels ----------------------------------------------------------------------------------------------
    for la, lb in itertools.product(([True, False], [False, True], [True], [False]), repeat=2):
        va, vb = list(range(1, len(la) + 1)), [10 * (k + 1) for k in range(len(lb))]
        da, db = dict(zip(la, va)), dict(zip(lb, vb))
        spec = {k: (da[k] + db[k] if k in da and k in db else None) for k in set(da) | set(db)}
        tags = {'labels': 'bool'}
        if set(la) != set(lb):
            tags['finding'] = F_BOOLLAB                # by construction: Boolean labels, label sets differ
        yield pycase('bool-labels:series-add', f'Series({va}, index={la}) + Series({vb}, index={lb})',
                     lambda: sf.Series(va, index=la) + sf.Series(vb, index=lb), lambda r, spec=spec: _pyfail_series(r, spec), tags=tags)
        ia, ib = sf.Index(la), sf.Index(lb)
        for opname, want in (('union', set(la) | set(lb)), ('intersection', set(la) & set(lb)), ('difference', set(la) - set(lb))):
            yield pycase(f'bool-labels:{opname}', f'Index({la}).{opname}(Index({lb}))', lambda opname=opname: getattr(ia, opname)(ib), labels_check(want), tags={'labels': 'bool'})
        if set(lb) <= set(la):
            yield pycase('bool-labels:reindex-subset', f'Series({va}, index={la}).reindex({lb})', lambda: sf.Series(va, index=la).reindex(lb),
                         lambda r: _pyfail_series(r, {k: da[k] for k in lb}), tags={'labels': 'bool'})

    # ---- 5. a 1-D index of tuples against a hierarchy (mixed depth) ----------------------------------------------------
    tl, hl = [('a', 1), ('b', 2)], [('b', 2), ('a', 1), ('c', 3)]
    s1 = sf.Series([1, 2], index=make_index(tl, 'tup'))
    s2 = sf.Series([10, 20, 30], index=sf.IndexHierarchy.from_labels(hl))
    yield pycase('mixed-depth:reindex-tuples-to-hierarchy', 'Series(index=1-D tuples).reindex(IndexHierarchy)', lambda: s1.reindex(s2.index),
                 lambda r: _pyfail_series(r, {('b', 2): 2, ('a', 1): 1, ('c', 3): None}))
    yield pycase('mixed-depth:reindex-hierarchy-to-tuples', 'Series(index=IndexHierarchy).reindex(1-D tuples)', lambda: s2.reindex(s1.index),
                 lambda r: _pyfail_series(r, {('a', 1): 20, ('b', 2): 10}))
    yield pycase('mixed-depth:reindex-int-to-hierarchy', 'Series(index=(1,2)).reindex(IndexHierarchy): no label can match', lambda: sf.Series([1, 2], index=(1, 2)).reindex(s2.index),
                 lambda r: _pyfail_series(r, {k: None for k in hl}))
    mspec = {('a', 1): 21, ('b', 2): 12, ('c', 3): None}
    yield pycase('mixed-depth:series-add', 'Series(index=1-D tuples) + Series(index=IndexHierarchy)', lambda: s1 + s2, lambda r: _pyfail_series(r, mspec), tags={'finding': F_MIXDEPTH})
    yield pycase('mixed-depth:series-add-reversed', 'Series(index=IndexHierarchy) + Series(index=1-D tuples)', lambda: s2 + s1, lambda r: _pyfail_series(r, mspec), tags={'finding': F_MIXDEPTH})

    # ---- 6. IndexHierarchy set operations: ndarray / list / empty / date-typed / int32 operands ------------------------
    ih = sf.IndexHierarchy.from_labels([('a', 1), ('a', 2), ('b', 1)])
    ihl = [('a', 1), ('a', 2), ('b', 1)]
    arr2 = np.array([['b', 1], ['c', 2], ['b', 1]], dtype=object)
    for opname, opcoq, want in (('union', 'OpUnion', {('a', 1), ('a', 2), ('b', 1), ('c', 2)}), ('intersection', 'OpInter', {('b', 1)}), ('difference', 'OpDiff', {('a', 1), ('a', 2)})):
        for okind, operand, kcoq, lb in (('ndarray-2d-with-repeats', arr2, 'OperandArray', [('b', 1), ('c', 2), ('b', 1)]),
                                         ('list-of-tuples', [('b', 1), ('c', 2)], '(OperandIterable false)', [('b', 1), ('c', 2)])):
            obs, exc = _res_labels(lambda: getattr(ih, opname)(operand))
            ctx.count('route:ih-operand:' + okind)
            if exc is not None:
                yield Case('api:route:ih-operand', {'call': f'IndexHierarchy.{opname}({okind})'}, py_fail=f'raised {type(exc).__name__}: {exc}', tags={'route': 'ih-operand'})
                continue
            yield Case('api:route:ih-operand', {'call': f'IndexHierarchy({ihl}).{opname}({okind} {lb})', 'observed': repr(plain(obs))},
                       m=f'MI2 {opcoq} {kcoq} false DObj DObj 2 2 {lit.vlist(ihl)} {lit.vlist(lb)} (Ok {lit.vlist(obs)})',
                       s=f'SI {opcoq} false {lit.vlist(ihl)} {lit.vlist(list(dict.fromkeys(lb)))} {lit.vlist(obs)}', tags={'route': 'ih-operand', 'operand': okind, 'op': opname})
        empty = sf.IndexHierarchy.from_labels((), depth_reference=2)
        yield pycase(f'ih-empty-argument:{opname}', f'IndexHierarchy.{opname}(empty IndexHierarchy)', lambda opname=opname: getattr(ih, opname)(empty),
                     labels_check(set(ihl) if opname != 'intersection' else set()))
        yield pycase(f'ih-empty-receiver:{opname}', f'empty IndexHierarchy.{opname}(IndexHierarchy)', lambda opname=opname: getattr(empty, opname)(ih),
                     labels_check(set(ihl) if opname == 'union' else set()))
        i32 = sf.IndexHierarchy.from_labels(np.array([[1, 1], [1, 2], [2, 1]], dtype=np.int32))
        i64 = sf.IndexHierarchy.from_labels(np.array([[2, 1], [3, 3]], dtype=np.int64))
        w = {'union': {(1, 1), (1, 2), (2, 1), (3, 3)}, 'intersection': {(2, 1)}, 'difference': {(1, 1), (1, 2)}}[opname]
        yield pycase(f'ih-int32-int64:{opname}', f'IndexHierarchy(int32 rows).{opname}(IndexHierarchy(int64 rows))', lambda opname=opname: getattr(i32, opname)(i64), labels_check(w))
        d1 = sf.IndexHierarchy.from_labels([('a', '2020-01-01'), ('a', '2020-01-02'), ('b', '2020-01-01')], index_constructors=(sf.Index, sf.IndexDate))
        d2 = sf.IndexHierarchy.from_labels([('b', '2020-01-01'), ('c', '2020-01-05')], index_constructors=(sf.Index, sf.IndexDate))
        d3 = sf.IndexHierarchy.from_labels([('b', np.datetime64('2020-01-01')), ('c', np.datetime64('2020-01-05'))])      # inner level a plain Index: constructors differ
        import datetime as dtm
        D = lambda s_: dtm.date.fromisoformat(s_)
        wd = {'union': {('a', D('2020-01-01')), ('a', D('2020-01-02')), ('b', D('2020-01-01')), ('c', D('2020-01-05'))}, 'intersection': {('b', D('2020-01-01'))},
              'difference': {('a', D('2020-01-01')), ('a', D('2020-01-02'))}}[opname]
        for nm, other in (('date-inner-level', d2), ('date-inner-level-other-constructor', d3)):
            yield pycase(f'ih-{nm}:{opname}', f'IndexHierarchy(str, IndexDate).{opname}({nm})', lambda opname=opname, other=other: getattr(d1, opname)(other),
                         lambda r, wd=wd: None if {(a_, (b_.item() if hasattr(b_, "item") else b_)) for a_, b_ in map(tuple, r.values.tolist())} == wd and len(r) == len(wd) else f'labels {r.values.tolist()}')
    # (a set of tuples and an empty list are refused by iterable_to_array_2d with RuntimeError: not index operands, not asserted)
    for nm, mk in (('generator-of-tuples', lambda: (x for x in [('b', 1), ('c', 2)])), ('tuple-of-tuples', lambda: (('b', 1), ('c', 2)))):
        inc = {('b', 1), ('c', 2)}
        yield pycase(f'ih-operand:{nm}:union', f'IndexHierarchy.union({nm})', lambda mk=mk: ih.union(mk()), labels_check(set(ihl) | inc))
        yield pycase(f'ih-operand:{nm}:difference', f'IndexHierarchy.difference({nm})', lambda mk=mk: ih.difference(mk()), labels_check(set(ihl) - inc))
    # Index / IndexHierarchy as operands of operators: unlabelled, positional, an ndarray comes back
    ix, iy = sf.Index((7, -5, 11)), sf.Index((2, 3, -4))
    import operator as o2
    for nm, fn in (('add', o2.add), ('sub', o2.sub), ('floordiv', o2.floordiv), ('mod', o2.mod), ('truediv', o2.truediv), ('eq', o2.eq), ('lt', o2.lt)):
        for other, ov, onm in ((iy, iy.values, 'Index'), (3, 3, 'scalar'), (np.array([2, 3, -4]), np.array([2, 3, -4]), 'array')):
            yield pycase(f'index-operator:{nm}:{onm}', f'Index((7,-5,11)) {nm} {onm}', lambda fn=fn, other=other: fn(ix, other),
                         lambda r, fn=fn, ov=ov: None if isinstance(r, np.ndarray) and r.tolist() == fn(ix.values, ov).tolist() and r.dtype == fn(ix.values, ov).dtype else f'{r!r}')
        if nm == 'mod':
            continue                      # (no reflected modulo in this version)
        yield pycase(f'index-operator:r{nm}:scalar', f'3 {nm} Index((7,-5,11))', lambda fn=fn: fn(3, ix),
                     lambda r, fn=fn: None if isinstance(r, np.ndarray) and r.tolist() == fn(3, ix.values).tolist() else f'{r!r}')
    yield pycase('index-operator:hierarchy-eq', 'IndexHierarchy == IndexHierarchy (2-D positional)', lambda: ih == sf.IndexHierarchy.from_labels([('a', 1), ('a', 3), ('b', 1)]),
                 lambda r: None if np.asarray(r).tolist() == [[True, True], [True, False], [True, True]] else f'{r!r}')
    yield pycase('series-op-array2d-rejected', 'Series + 2-D ndarray', lambda: sf.Series((1, 2)) + np.array([[1, 2], [3, 4]]), None, expect_error='NotImplementedError')
    yield pycase('ih-operand:1d-array-rejected', 'IndexHierarchy.intersection(1-D ndarray)', lambda: ih.intersection(np.array([1, 2])), None, expect_error='ErrorInitIndex')
    yield pycase('ih-date-inner-level:series-add', 'Series(index=IH(str, IndexDate)) + Series(index=IH(str, IndexDate))',
                 lambda: sf.Series([1, 2, 3], index=d1) + sf.Series([10, 20], index=d2),
                 lambda r: None if [None if v != v else v for v in r.values.tolist()] == [None, None, 13.0, None] and len(r) == 4 else f'values {r.values.tolist()}')

    # ---- 7. kernels: 2-D set routines on width-1, empty, 1-D-tuple and unsortable operands; ufunc_set_iter in 2-D --------
    from static_frame.core import util as U
    k2 = {'OpUnion': U.union2d, 'OpInter': U.intersect2d, 'OpDiff': U.setdiff2d}

    def rows(out):
        return [tuple(r) if isinstance(r, (list, tuple)) else (r,) for r in out.tolist()]
    tup1 = np.empty(2, dtype=object)
    tup1[:] = [('a', 1), ('b', 2)]
    pool2 = [('width-1', np.array([[3], [1], [2]]), np.array([[2], [5]]), [(3,), (1,), (2,)], [(2,), (5,)]),
             ('empty-left', np.empty((0, 2), dtype=np.int64), np.array([[1, 2]]), [], [(1, 2)]),
             ('empty-right', np.array([[1, 2], [0, 1]]), np.empty((0, 2), dtype=np.int64), [(1, 2), (0, 1)], []),
             ('int32-int64', np.array([[1, 2], [0, 1]], dtype=np.int32), np.array([[0, 1], [7, 7]], dtype=np.int64), [(1, 2), (0, 1)], [(0, 1), (7, 7)]),
             ('1d-tuples-vs-2d', tup1, np.array([['b', 2], ['c', 3]], dtype=object), [('a', 1), ('b', 2)], [('b', 2), ('c', 3)]),
             ('unsortable-rows', np.array([['a', 1], [2, 'b']], dtype=object), np.array([[2, 'b'], ['c', 3]], dtype=object), [('a', 1), (2, 'b')], [(2, 'b'), ('c', 3)])]
    for nm, a2, b2, la, lb in pool2:
        for opcoq, fn in k2.items():
            r, e = attempt(lambda: fn(a2, b2, assume_unique=True))
            ctx.count('route:kernel2d:' + nm)
            if e is not None:
                yield Case('kernel:route:ufunc_set_2d', {'call': f'util.{fn.__name__}({nm})'}, py_fail=f'raised {type(e).__name__}: {e}', tags={'route': 'kernel2d', 'case': nm})
                continue
            obs = rows(r)
            yield Case('kernel:route:ufunc_set_2d', {'call': f'util.{fn.__name__}({la}, {lb}, assume_unique=True) [{nm}]', 'observed': repr(plain(obs))},
                       m=f'MU2 {opcoq} true {lit.dtype(a2.dtype)} {lit.dtype(b2.dtype)} {lit.vlist(la)} {lit.vlist(lb)} {lit.vlist(obs)}',
                       s=f'SI {opcoq} true {lit.vlist(la)} {lit.vlist(lb)} {lit.vlist(obs)}', tags={'route': 'kernel2d', 'case': nm})
    arrays2 = [np.array([[1, 2], [0, 1], [3, 3]]), np.array([[0, 1], [3, 3]]), np.array([[3, 3], [9, 9]])]
    for union in (True, False):
        r, e = attempt(lambda: U.ufunc_set_iter(arrays2, union=union, assume_unique=True))
        want = ({(1, 2), (0, 1), (3, 3), (9, 9)} if union else {(3, 3)})
        yield pycase(f'kernel:ufunc_set_iter-2d:{"union" if union else "intersection"}', 'util.ufunc_set_iter(three 2-D arrays)', lambda: U.ufunc_set_iter(arrays2, union=union, assume_unique=True),
                     lambda r, want=want: None if set(map(tuple, r.tolist())) == want and len(r) == len(want) else f'rows {r.tolist()}')
    yield pycase('kernel:ufunc_set_iter:ndim-mismatch', 'util.ufunc_set_iter([1-D, 2-D])', lambda: U.ufunc_set_iter([np.array([1, 2]), np.array([[1, 2]])], union=True), None, expect_error='RuntimeError')

    # ---- 8. resize_blocks: ONE block (1-D, or 2-D of 2-3 columns) with a column selection that is a subset / reordering ----
    for ncol, is2d in ((1, False), (1, True), (2, True), (3, True)):
        cols = UNIVERSES['str'][:ncol]
        arrs = [np.array([10 * (j + 1) + i for i in range(3)]) for j in range(ncol)]
        f = zoo.frame_from_columns(arrs, ((ncol, is2d),), index=make_index((0, 1, 2), 'int'), columns=make_index(cols, 'str'))
        col_targets = [list(p_) for k in range(1, ncol + 1) for p_ in itertools.permutations(cols, k)] + [list(cols) + ['zz'], ['zz']]
        idx_targets = [None, [2, 0, 1], [1], [2, 7], [8, 9], []]
        for nc in col_targets:
            for ni in idx_targets:
                if nc == list(cols) and ni is None:
                    continue
                kw = {'columns': make_index(nc, 'str')}
                if ni is not None:
                    kw['index'] = make_index(ni, 'int')
                obs, odesc = frame_obs(lambda: f.reindex(**kw))
                ctx.count('route:reindex-unified')
                oi = 'None' if ni is None else f'(Some {lit.vlist(ni)})'
                ddi = lit.dtype(kw['index'].values.dtype) if ni is not None else lit.dtype(f.index.values.dtype)
                yield Case('api:route:frame.reindex-unified', {'call': f'A.reindex(index={ni!r}, columns={nc!r})', 'A': frame_desc(f), 'observed': odesc},
                           m=f'MFR {fin_lit(f)} {ddi} {lit.dtype(kw["columns"].values.dtype)} {oi} (Some {lit.vlist(nc)}) {obs}',
                           s=f'SFR {fin_lit(f)} {oi} (Some {lit.vlist(nc)}) {obs}', tags={'route': 'reindex-unified', 'layout': zoo.layout_str(((ncol, is2d),))})

    # ---- 9. operator between layouts whose consolidation has several dtype runs (reblock path, quick tier too) ---------
    dts = ['int', 'int', 'float', 'float', 'int']
    lays = [((1, False),) * 5, ((2, True), (2, True), (1, False)), ((1, True), (1, False), (2, True), (1, True)), ((2, True), (1, False), (1, True), (1, False))]
    for la_, lb_ in itertools.permutations(lays, 2):
        for mode in ('equal', 'shifted'):
            cols5 = UNIVERSES['str'][:5]
            fa = make_frame(rng, (0, 1, 2), 'int', cols5, 'str', dts, la_)
            fb = make_frame(rng, (0, 1, 2) if mode == 'equal' else (2, 0, 3), 'int', cols5 if mode == 'equal' else tuple(reversed(cols5)), 'str',
                            dts if mode == 'equal' else list(reversed(dts)), lb_ if mode == 'equal' else tuple(reversed(lb_)))
            yield from frame_pair_cases(ctx, fa, fb, dts, dts if mode == 'equal' else list(reversed(dts)), rng.choice(('add', 'sub', 'lt')), 'api:route:frame-op-frame:dtype-runs')


def witnesses(ctx):
    """Fixed inputs: one minimal case per known finding (so that every listed finding is re-derived in every run)."""
    import static_frame as sf
    rng = ctx.rng
    a = sf.Series(np.array([1, 2]), index=('a', 'b'))
    b = sf.Series(np.array([1, 2]), index=('b', 'c'))
    yield from series_pair_cases(ctx, a, b, 'eq', 'str', 'witness:series-op-series')
    yield from series_pair_cases(ctx, a, b, 'and', 'str', 'witness:series-op-series')
    # regression (fix 658b4ce): zero-row operand whose columns overlap the other's -- both axes re-indexed, no common row label
    f0 = zoo.frame_from_columns([np.array([], dtype=np.int64)] * 2, ((2, True),), index=make_index((), 'str'), columns=make_index(('a', 'b'), 'str'))
    f2 = zoo.frame_from_columns([np.array([10, 40]), np.array([20, 50])], ((2, True),), index=make_index(('p', 'q'), 'str'), columns=make_index(('b', 'c'), 'str'))
    yield from frame_pair_cases(ctx, f0, f2, ['int', 'int'], ['int', 'int'], 'add', 'witness:frame-op-frame')
    e1 = zoo.frame_from_columns([], (), index=make_index(('x', 'y'), 'str'), columns=make_index((), 'str'))
    e2 = zoo.frame_from_columns([], (), index=make_index(('y', 'z'), 'str'), columns=make_index((), 'str'))
    yield from frame_pair_cases(ctx, e1, e2, [], [], 'add', 'witness:frame-op-frame')
    # regression (fix e1c1c73): equal labels, layouts [2-D int,int | float] vs [int | 2-D float,float], ints above 2**53:
    # per-column dtype and exact integers, whatever the layouts
    big = 2 ** 53 + 1
    ca = [np.array([big, 2]), np.array([3, 4]), np.array([1.5, 2.5])]
    cb = [np.array([big + 4, 6]), np.array([3.0, 4.0]), np.array([1.5, 2.5])]
    cols3 = make_index(('a', 'b', 'c'), 'str')
    g1 = zoo.frame_from_columns(ca, ((2, True), (1, False)), columns=cols3)
    g2 = zoo.frame_from_columns(cb, ((1, False), (2, True)), columns=cols3)
    g3 = zoo.frame_from_columns(cb, ((1, False), (1, False), (1, True)), columns=cols3)
    for other in (g2, g3):
        for opname in ('add', 'sub', 'eq'):       # (no product: it would overflow int64, outside the exact-arithmetic oracle)
            yield from frame_pair_cases(ctx, g1, other, ['int', 'int', 'float'], ['int', 'float', 'float'], opname, 'witness:frame-op-frame')


def cases(ctx):
    import os
    import warnings
    only = os.environ.get('C06_ONLY')          # debugging aid: substring filter on the stratum name
    with warnings.catch_warnings():
        warnings.simplefilter('ignore')
        for gen in (witnesses, index_exhaustive, index_random, index_hierarchy_cases, hier_shared_cases, nan_label_cases, operator_matrix_cases, datetime_unit_cases, route_cases, kernel_set_cases, kernel_correspondence_cases,
                    malformed_cases, series_exhaustive, series_random, series_scalar_array,
                    frame_layouts_exhaustive, frame_random, frame_series_cases, frame_scalar_array, frame_reindex_cases):
            for c in gen(ctx):
                if only is None or only in c.kind or c.kind.startswith('witness'):
                    yield c
