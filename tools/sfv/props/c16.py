'''C16 -- single-table export/import round trips reproduce the Frame.'''
import ast
import io
import keyword
import re
import itertools
import os
import warnings

import numpy as np

from .. import lit
from .. import zoo
from ..core import Case

ID = 'C16'
MANIFEST = {
    'text': ('Coq theorems (all unbounded, closed under the global context) about an executable model of the whole delimited pipeline: '
             'C16_csv_read_write (the csv.reader state machine inverts csv.writer QUOTE_MINIMAL on every record of fields without line breaks, any delimiter); '
             'C16_import_export_text (writer, then from_delimited\'s csv.reader+TAB.join or raw-line bypass AS CODED -- the branch and the native delimiter are read '
             'from frame.py on every run --, then genfromtxt\'s strip-and-split give every record back outside the refuted classes); '
             'C16_decode_render_column (genfromtxt column inference bool/int64/float/str + StoreFilter give back every column whose cell texts are unambiguous for their type); '
             'C16_int_text_roundtrip / C16_int_column_ok / C16_bool_column_ok (every int64 and Boolean column is unambiguous); '
             'C16_delimited_roundtrip (refinement M = S: for every delimiter, index depth, columns depth, include_index/include_columns setting and both store filters the '
             'modelled pipeline -- Frame._to_str_records layout, header rows, index columns, Index construction included -- returns the same labels, values and dtype kinds '
             'for every Frame of the decidable domain dom); C16_store_filter_markers (the StoreFilter default constants regenerated from store_filter.py decode what they encode); '
             'C16_pairs0/pairs1/records_roundtrip (to_pairs / rows and from_items / from_records_items / from_records are inverse), C16_pickle_roundtrip; '
             'C16_markers_decode (for ANY well-formed StoreFilter the NaN/None/inf markers decode from their own text and are good object cells) with C16_default_filter_wf on the regenerated defaults. '
             'Correspondence through the public interface only: Frame.to_csv/to_tsv/to_delimited -> from_csv/from_tsv/from_delimited on exhaustive one-cell sweeps over the alphabet '
             '{a,1,space,comma,quote,TAB,-,|} in five positions x three delimiters plus random Frames (bool/int/float/str/object columns, str/int labels, index depth 1-3, columns depth 1-2, '
             'all block layouts, include_index/include_columns, both store filters), each evaluated inside Coq against M (exact prediction, bugs included), S (the same Frame) and dom '
             '(the case is / is not in the theorem\'s domain as constructed); to_pairs(0/1), rows, dict records, items, pickle, deepcopy round trips.'),
    'note': ('Trusted / modelled, not verified: the oracle models of csv.writer, csv.reader, np.genfromtxt (LineSplitter, dtype=None inference incl. the NumPy-2 TypeError path), '
             'Python int()/float()/f\'{x}\' on the modelled alphabet -- each validated on every run by an exhaustive small sweep against the real thing (a mismatch is a MACHINERY-ERROR); '
             'pickle (arrays come back writeable with the same content); Index/IndexHierarchy construction reduced to uniqueness + tree-form. '
             'Partial: floats are covered by the per-cell guard cell_ok (text parses back to the value; evaluated for every generated float) rather than a general theorem; floats in '
             'exponent notation, StoreFilter value_format_* float formats, dtypes= and zero-row tables are checked against S only. Covered options: StringIO and file path, '
             'include_index / include_columns, include_index_name / include_columns_name with index_name_depth_level=0 / columns_name_depth_level=0 (names compared), consolidate_blocks, '
             'store_filter default / STORE_FILTER_DISABLE / None / a custom one with other NaN and None markers. Not covered: list-valued *_name_depth_level, skip_header / skip_footer, '
             'index_column_first, quoting options other than the defaults (fail closed in generate()), encodings, datetime / complex / bytes cells (outside the property\'s quantifier), '
             'from_structured_array, from_json, clipboard, Series other than to_pairs / pickle / deepcopy of one column. Nine known findings (known/C16.jsonl), five of them with a '
             'Refuted/C16.v witness; two more (unpickled Index._positions writeable, Frame.items() on hierarchical columns) were repaired in /repo (72854e7, 52e7271) and stay as regression cases.'),
    'technique': 'refinement proof (Coq) of an executable model of the export/import pipeline + differential runs through the public interface evaluated inside Coq (vm_compute) + regenerated constants',
}
PROPERTY_FILES = ['Properties/C16.v']
REFUTED_FILES = ['Refuted/C16.v']
MODEL_FILES = ['SF/CodecSpec.v', 'SF/Codec.v', 'SF/CodecStruct.v']
IMPORTS = 'Require Import SF.Prelude SF.Value SF.Dtype SF.Codec SF.CodecStruct.'
# the `s=` terms use only SF/CodecSpec.v (+ SF/Value.v), which does not depend on the regenerated Gen/Gen_c16.v
IMPORTS_SPEC_ONLY = 'Require Import SF.Prelude SF.Value SF.Dtype SF.CodecSpec.'
RULE = ('delimited: (a) exhaustive -- every string of length <= 2 (quick) / <= 3 (thorough) over {a,1,space,comma,quote,TAB,-,|} as one cell (first / middle / last column), '
        'one index label or one column label of a fixed 2x3 Frame, x delimiters comma, TAB, |; (b) random Frames: 1-4 rows, 1-4 columns of kinds bool/int64/float64/str/object(None,NaN), '
        'index depth 1-3 and columns depth 1-2 of str / int levels, every block layout, delimiter in {comma,TAB,|,;,space}, include_index / include_columns on or off, default or disabled '
        'StoreFilter; every str column holds a cell with a letter, every float column a non-NaN cell, every object column a missing marker (so the source is unambiguous by construction); '
        '(c) the minimal replay of every known finding. A delimited case is non-trivial always (a Frame goes through the file); distinct = distinct (frame, configuration, layout). '
        'structural: random Frames as above through to_pairs(0)->from_items, to_pairs(1)->from_records_items, iter_tuple->from_records, dict records, items, pickle, deepcopy. '
        'oracle strata: exhaustive sweeps of the Gallina oracle models against csv.writer / csv.reader / LineSplitter / genfromtxt(dtype=None) / str formatting.')
ASSUMPTIONS = [
    'csv.writer(QUOTE_MINIMAL, doublequote, lineterminator "\\n") = csv_write_row; csv.reader (default dialect) on one physical line = csv_read_line (validated exhaustively: all records of <= 3 fields, all lines of length <= 4 over the alphabet)',
    'np.genfromtxt(delimiter=TAB, dtype=None, comments=None, names=None): LineSplitter = gen_split (strip " \\r\\n", skip empty, split); column inference = infer_col (bool, int64, float, str; blank = missing; NumPy-2 TypeError when the first non-blank cell of a text column reads as an int); rows with a deviating field count, all-missing columns and bool columns with a blank are outside the model',
    'Python int()/float() on the alphabet {a,b,0-9,space,comma,|,quote,-,+,.} = parse_num / parse_int / parse_float; f"{x}" of int64 = decimal, of a double n/2^k (k <= 20, 1e-4 <= |x| < 1e16) = its exact positional expansion',
    'a float cell is in the domain when its rendered text parses back to it (cell_ok, evaluated per cell); floats are observed as float.as_integer_ratio()',
    'Index / IndexHierarchy.from_labels accept labels iff unique under Python equality and (depth > 1) in tree form',
    'pickle.loads(pickle.dumps(a)) of an ndarray has the same content and is writeable',
]
TRUSTED = ['oracle models in coq/SF/Codec.v of csv / np.genfromtxt / int() / float() / str formatting (swept against the real modules on every run)',
           'tools/sfv/props/c16.py:generate -- ast extraction of the StoreFilter defaults, STORE_FILTER_DISABLE, delimiter_native, the csv.reader bypass branch and the keyword defaults of to_delimited / from_delimited (fail closed)']
EXHAUSTIVE = {'quick': False, 'thorough': False}
TRANSLATED = []
GENERATED_FILES = ['Gen/Gen_c16.v']
SHARD_SIZE = 300          # a shard of 400 of these cases needs ~0.6 GB in coqc

_FRAME = 'static_frame/core/frame.py'
_FILTER = 'static_frame/core/store_filter.py'


# ----------------------------------------------------------------------------- generate(repo): constants from the source
class GenError(Exception):
    pass


def _parse(repo, rel):
    with open(os.path.join(repo, rel)) as f:
        return ast.parse(f.read())


def _class(tree, name):
    for n in tree.body:
        if isinstance(n, ast.ClassDef) and n.name == name:
            return n
    raise GenError(f'class {name} not found')


def _method(cls, name):
    for n in cls.body:
        if isinstance(n, ast.FunctionDef) and n.name == name:
            return n
    raise GenError(f'{cls.name}.{name} not found')


def _kw_defaults(fn):
    out = {}
    for a, d in zip(fn.args.kwonlyargs, fn.args.kw_defaults):
        out[a.arg] = d
    pos = fn.args.args
    for a, d in zip(pos[len(pos) - len(fn.args.defaults):], fn.args.defaults):
        out[a.arg] = d
    return out


def _opt_str(node, what):
    if isinstance(node, ast.Constant) and (node.value is None or isinstance(node.value, str)):
        return node.value
    raise GenError(f'{what}: expected a str/None constant, got {ast.unparse(node)}')


def _str_set(node, what):
    '''frozenset((...strings...)) | frozenset(EMPTY_TUPLE) | EMPTY_SET -> list of str (source order).'''
    src = ast.unparse(node)
    if src in ('EMPTY_SET', 'frozenset(EMPTY_TUPLE)', 'frozenset()', 'frozenset(())'):
        return []
    if isinstance(node, ast.Call) and ast.unparse(node.func) == 'frozenset' and len(node.args) == 1 \
            and isinstance(node.args[0], (ast.Tuple, ast.List, ast.Set)):
        out = []
        for e in node.args[0].elts:
            if not (isinstance(e, ast.Constant) and isinstance(e.value, str)):
                raise GenError(f'{what}: non-string member {ast.unparse(e)}')
            out.append(e.value)
        return out
    raise GenError(f'{what}: unexpected set expression {src}')


_FROM = ('from_nan', 'from_none', 'from_posinf', 'from_neginf')
_TO = ('to_nan', 'to_none', 'to_posinf', 'to_neginf')


def _coq_str(text):
    if not all(32 <= ord(c) < 127 for c in text):
        raise GenError(f'unprintable constant {text!r}')
    return '"' + text.replace('"', '""') + '"'


def _expect(cond, msg):
    if not cond:
        raise GenError(msg)


def _const_kw(defaults, name, want_src, where):
    got = ast.unparse(defaults[name]) if name in defaults else '<absent>'
    _expect(got == want_src, f'{where}: default {name}={got}, the model assumes {want_src}')


def generate(repo):
    sfm = _parse(repo, _FILTER)
    init = _method(_class(sfm, 'StoreFilter'), '__init__')
    d = _kw_defaults(init)
    lines = ['(* GENERATED on every run by tools/sfv/props/c16.py:generate from static_frame/core/{store_filter,frame}.py -- do not edit. *)',
             'Require Import SF.Prelude.', 'Local Open Scope string_scope.', '']
    lines.append('(* StoreFilter.__init__ keyword defaults (STORE_FILTER_DEFAULT = StoreFilter()) *)')
    for k in _FROM:
        _expect(k in d, f'StoreFilter.__init__ has no {k}')
        v = _opt_str(d[k], f'StoreFilter.{k}')
        lines.append(f'Definition sf_{k} : option string := {"None" if v is None else "(Some " + _coq_str(v) + ")"}.')
    for k in _TO:
        _expect(k in d, f'StoreFilter.__init__ has no {k}')
        v = _str_set(d[k], f'StoreFilter.{k}')
        lines.append(f'Definition sf_{k} : list string := [{"; ".join(_coq_str(x) for x in v)}].')
    # the instance really is the all-default one
    inst = [n for n in sfm.body if isinstance(n, ast.Assign) and ast.unparse(n.targets[0]) == 'STORE_FILTER_DEFAULT']
    _expect(len(inst) == 1 and ast.unparse(inst[0].value) == 'StoreFilter()', 'STORE_FILTER_DEFAULT is no longer StoreFilter()')
    # STORE_FILTER_DISABLE
    dis = [n for n in sfm.body if isinstance(n, ast.Assign) and ast.unparse(n.targets[0]) == 'STORE_FILTER_DISABLE']
    _expect(len(dis) == 1 and isinstance(dis[0].value, ast.Call) and ast.unparse(dis[0].value.func) == 'StoreFilter', 'STORE_FILTER_DISABLE not found')
    dk = {k.arg: k.value for k in dis[0].value.keywords}
    lines.append('(* STORE_FILTER_DISABLE *)')
    for k in _FROM:
        v = _opt_str(dk[k], f'STORE_FILTER_DISABLE.{k}') if k in dk else _opt_str(d[k], k)
        lines.append(f'Definition sf_dis_{k} : option string := {"None" if v is None else "(Some " + _coq_str(v) + ")"}.')
    for k in _TO:
        v = _str_set(dk[k], f'STORE_FILTER_DISABLE.{k}') if k in dk else _str_set(d[k], k)
        lines.append(f'Definition sf_dis_{k} : list string := [{"; ".join(_coq_str(x) for x in v)}].')

    # element encoder: None first, then nan / posinf / neginf for floats
    enc = _method(_class(sfm, 'StoreFilter'), 'from_type_filter_element')
    src = ast.unparse(enc)
    _expect('if self.from_none is not None and value is None:\n        return self.from_none' in src, 'from_type_filter_element: None branch changed')
    table = [n for n in ast.walk(init) if isinstance(n, ast.Assign) and ast.unparse(n.targets[0]) == 'self._FLOAT_FUNC_TO_FROM']
    _expect(len(table) == 1 and ast.unparse(table[0].value) ==
            '((np.isnan, self.from_nan), (np.isposinf, self.from_posinf), (np.isneginf, self.from_neginf))', '_FLOAT_FUNC_TO_FROM changed')
    dec = [n for n in ast.walk(init) if isinstance(n, ast.Assign) and ast.unparse(n.targets[0]) == 'self._TYPE_TO_TO_TUPLE']
    _expect(len(dec) == 1 and ast.unparse(dec[0].value) ==
            '((np.nan, tuple(self.to_nan)), (NAT, tuple(self.to_nat)), (None, tuple(self.to_none)), (np.inf, tuple(self.to_posinf)), (-np.inf, tuple(self.to_neginf)))',
            '_TYPE_TO_TO_TUPLE changed')

    # frame.py: from_delimited / to_delimited shape
    fr = _parse(repo, _FRAME)
    frame = _class(fr, 'Frame')
    fd = _method(frame, 'from_delimited')
    native = [n for n in ast.walk(fd) if isinstance(n, ast.Assign) and ast.unparse(n.targets[0]) == 'delimiter_native']
    _expect(len(native) == 1 and isinstance(native[0].value, ast.Constant) and isinstance(native[0].value.value, str)
            and len(native[0].value.value) == 1, 'from_delimited: delimiter_native is not a one-character constant')
    lines.append('')
    lines.append('(* Frame.from_delimited: the delimiter genfromtxt splits on, and whether input in that delimiter bypasses csv.reader *)')
    lines.append(f'Definition sf_delimiter_native : Z := {ord(native[0].value.value)}.')
    tests = [n for n in fd.body if isinstance(n, ast.If) and 'csv.reader' in ast.unparse(n)]
    if len(tests) == 1 and ast.unparse(tests[0].test) == 'delimiter != delimiter_native' and 'csv.reader' not in ast.unparse(tests[0].orelse) \
            and 'delimiter_native.join(row)' in ast.unparse(tests[0].body):
        bypass = True
    elif not tests and 'csv.reader' in ast.unparse(fd) and 'delimiter_native.join(row)' in ast.unparse(fd):
        bypass = False
    else:
        raise GenError('from_delimited: the csv.reader / delimiter_native branch has an unexpected shape')
    lines.append(f'Definition sf_reader_bypass_native : bool := {"true" if bypass else "false"}.')
    # which branch of the column-label construction passes the labels through the StoreFilter
    branch = [n for n in ast.walk(fd) if isinstance(n, ast.If) and ast.unparse(n.test) == 'columns_depth == 1' and 'columns_constructor' in ast.unparse(n)]
    _expect(len(branch) == 1 and branch[0].orelse, 'from_delimited: the `if columns_depth == 1:` column construction has an unexpected shape')
    flat_src, hier_src = ast.unparse(branch[0].body), ast.unparse(branch[0].orelse)
    for src_, what in ((flat_src, 'flat'), (hier_src, 'hierarchical')):
        _expect('columns_arrays' in src_ and 'columns_constructor(' in src_, f'from_delimited: {what} column construction changed')
    filtered = lambda src_: 'store_filter.to_type_filter_iterable(x) for x in columns_arrays' in src_ or 'store_filter.to_type_filter_iterable(columns_arrays[0])' in src_
    for src_, what in ((flat_src, 'flat'), (hier_src, 'hierarchical')):
        _expect(filtered(src_) or 'store_filter' not in src_, f'from_delimited: {what} column labels use the store filter in an unexpected way')
    lines.append('(* Frame.from_delimited: are the column labels decoded by the StoreFilter -- flat columns / hierarchical columns *)')
    lines.append(f'Definition sf_flat_columns_filtered : bool := {"true" if filtered(flat_src) else "false"}.')
    lines.append(f'Definition sf_hier_columns_filtered : bool := {"true" if filtered(hier_src) else "false"}.')
    gcalls = [n for n in ast.walk(fd) if isinstance(n, ast.Call) and ast.unparse(n.func) == 'np.genfromtxt']
    _expect(len(gcalls) == 2, 'from_delimited: expected two np.genfromtxt calls (body, header rows)')
    for g in gcalls:
        kw = {k.arg: ast.unparse(k.value) for k in g.keywords}
        for k, want in (('delimiter', 'delimiter_native'), ('comments', 'None'), ('names', 'None'), ('dtype', 'None'), ('invalid_raise', 'False')):
            _expect(kw.get(k) == want, f'from_delimited: np.genfromtxt({k}={kw.get(k)}), the model assumes {want}')
    dfl = _kw_defaults(fd)
    _const_kw(dfl, 'quote_char', "'\"'", 'from_delimited')
    _const_kw(dfl, 'skip_header', '0', 'from_delimited')
    _const_kw(dfl, 'skip_footer', '0', 'from_delimited')
    _const_kw(dfl, 'store_filter', 'STORE_FILTER_DEFAULT', 'from_delimited')
    _const_kw(dfl, 'index_name_depth_level', 'None', 'from_delimited')
    _const_kw(dfl, 'columns_name_depth_level', 'None', 'from_delimited')
    td = _kw_defaults(_method(frame, 'to_delimited'))
    for k, want in (('include_index', 'True'), ('include_index_name', 'True'), ('include_columns', 'True'), ('include_columns_name', 'False'),
                    ('line_terminator', "'\\n'"), ('quote_char', "'\"'"), ('quote_double', 'True'), ('escape_char', 'None'),
                    ('quoting', 'csv.QUOTE_MINIMAL'), ('store_filter', 'STORE_FILTER_DEFAULT')):
        _const_kw(td, k, want, 'to_delimited')
    for name, dl in (('to_csv', "','"), ('to_tsv', "'\\t'"), ('from_csv', "','"), ('from_tsv', "'\\t'")):
        m = _method(frame, name)
        calls = [n for n in ast.walk(m) if isinstance(n, ast.Call) and ast.unparse(n.func) in ('self.to_delimited', 'cls.from_delimited')]
        _expect(len(calls) == 1, f'{name}: does not delegate to *_delimited')
        kw = {k.arg: ast.unparse(k.value) for k in calls[0].keywords}
        _expect(kw.get('delimiter') == dl, f'{name}: delimiter={kw.get("delimiter")}')
    lines.append('')
    return {'Gen/Gen_c16.v': '\n'.join(lines) + '\n'}



# ----------------------------------------------------------------------------- literals
def _s(text):
    """Coq string literal; TAB is written raw (lit.s refuses it)."""
    if not all(32 <= ord(c) < 127 or c == '\t' for c in text):
        raise ValueError(f'string outside the modelled alphabet {text!r}')
    return '"' + text.replace('"', '""') + '"'


def _tx(text):
    return f'(tx {_s(text)})'


def _ch(c):
    if c == '"':
        return '""""%char'
    if 32 <= ord(c) < 127:
        return f'"{c}"%char'
    return f'"{ord(c):03d}"%char'


def _val(v):
    if isinstance(v, (str, np.str_)):
        return f'(VStr {_s(str(v))})'
    return lit.val(v)


_KINDS = {'b': 'KBool', 'i': 'KInt', 'f': 'KFlt', 'U': 'KStr', 'O': 'KObj'}


def _tframe(o):
    idx = lit.lst([lit.lst([_val(x) for x in lab]) for lab in o['index']])
    cols = lit.lst([lit.lst([_val(x) for x in lab]) for lab in o['columns']])
    data = lit.lst([f'({_KINDS[k]}, {lit.lst([_val(x) for x in vs])})' for k, vs in o['cols']])
    return f'(mk_tframe {idx} {cols} {data})'


# the custom StoreFilter of the 'custom' configuration: other markers for NaN and None, the default ones for +-inf
CUSTOM_FILTER = {'from_nan': 'NA', 'to_nan': ('NA', 'n/a'), 'from_none': 'NULL', 'to_none': ('NULL',),
                 'from_posinf': 'inf', 'to_posinf': ('inf',), 'from_neginf': '-inf', 'to_neginf': ('-inf',)}


def _filter_lit(flt):
    if flt is True:
        return 'filter_default'
    if flt in (False, 'none'):         # store_filter=None writes f'{x}' and decodes nothing: the same functions as STORE_FILTER_DISABLE
        return 'filter_disable'
    c = CUSTOM_FILTER
    sl = lambda xs: lit.lst([_s(x) for x in xs])
    return (f'(mk_sfilter (Some {_s(c["from_nan"])}) (Some {_s(c["from_none"])}) (Some {_s(c["from_posinf"])}) (Some {_s(c["from_neginf"])}) '
            f'{sl(c["to_nan"])} {sl(c["to_none"])} {sl(c["to_posinf"])} {sl(c["to_neginf"])})')


def _filter_obj(flt):
    import static_frame as sf
    from static_frame.core.store_filter import STORE_FILTER_DEFAULT, STORE_FILTER_DISABLE
    if flt is True:
        return STORE_FILTER_DEFAULT
    if flt is False:
        return STORE_FILTER_DISABLE
    if flt == 'none':
        return None
    c = CUSTOM_FILTER
    return sf.StoreFilter(from_nan=c['from_nan'], to_nan=frozenset(c['to_nan']), from_none=c['from_none'], to_none=frozenset(c['to_none']),
                          from_posinf=c['from_posinf'], to_posinf=frozenset(c['to_posinf']), from_neginf=c['from_neginf'], to_neginf=frozenset(c['to_neginf']))


def _cfg(c):
    return (f'(mk_cfg {_ch(c["delim"])} {lit.b(c["inc_index"])} {lit.b(c["inc_columns"])} '
            f'{_filter_lit(c["filter"])} {c["di"]} {c["dc"]} {lit.lst([_tx(a) for a in c["apex"]])})')


def _jsonable(v):
    if isinstance(v, float) and v != v:
        return 'nan'
    if isinstance(v, float) and v in (float('inf'), float('-inf')):
        return repr(v)
    if isinstance(v, np.generic):
        return _jsonable(v.item())
    if isinstance(v, (list, tuple)):
        return [_jsonable(x) for x in v]
    return v


# ----------------------------------------------------------------------------- observation
def _labels(index):
    if index.depth > 1:
        return [list(_py(x) for x in lab) for lab in index]
    return [[_py(x)] for x in index.values.tolist()] if index.values.dtype.kind != 'O' else [[_py(x)] for x in index.values]


def _py(x):
    return x.item() if isinstance(x, np.generic) else x


def observe(frame):
    """Labels, per-column dtype kind and values of a Frame (what the property determines)."""
    cols = []
    for j in range(frame.shape[1]):
        a = frame._blocks._extract_array(column_key=j)
        if a.dtype.kind not in _KINDS:
            raise ValueError(f'dtype {a.dtype} outside the model')
        cols.append((a.dtype.kind, [_py(x) for x in a.tolist()]))
    return {'index': _labels(frame.index), 'columns': _labels(frame.columns), 'cols': cols}


def _obs_lit(fn):
    """Run fn() -> Frame; (literal, jsonable, value)."""
    try:
        out = fn()
    except Exception as e:  # noqa
        cls = lit.err_class(e)
        return f'(Err {lit.s(cls)})', {'raised': cls, 'message': str(e)[:200]}, e
    try:
        o = observe(out)
        return f'(Ok {_tframe(o)})', _jsonable(o), out
    except ValueError as e:
        return '(Err "Unobservable")', {'unobservable': str(e)[:200]}, out


# ----------------------------------------------------------------------------- building frames
def _array(kind, values, dtype=None):
    if dtype is not None:
        return np.array(values, dtype=dtype)
    if kind == 'O':
        a = np.empty(len(values), dtype=object)
        for i, v in enumerate(values):
            a[i] = v
        return a
    if kind == 'U':
        return np.array(values, dtype=str) if values else np.array([], dtype='<U1')
    return np.array(values, dtype={'b': bool, 'i': np.int64, 'f': np.float64}[kind])


def _index(labels, depth, name=None):
    import static_frame as sf
    if labels is None:
        return None
    if depth == 1:
        return sf.Index([lab[0] for lab in labels], name=name)
    return sf.IndexHierarchy.from_labels([tuple(lab) for lab in labels], name=name)


def build(spec, layout=None):
    """spec: {'index': labels|None, 'columns': labels|None, 'cols': [(kind, values)], 'di', 'dc', 'index_name'}."""
    arrays = [_array(k, vs) for k, vs in spec['cols']]
    if layout is None:
        layout = tuple((1, False) for _ in arrays)
    import static_frame as sf
    return zoo.frame_from_columns(arrays, layout,
                                  index=_index(spec['index'], spec['di'], spec.get('index_name')),
                                  columns=_index(spec['columns'], spec['dc'], spec.get('columns_name')),
                                  cls=getattr(sf, spec.get('cls', 'Frame')))


def _io_roundtrip(frame, cfg):
    """cfg['via']: 'buffer' (io.StringIO) or 'path' (a file in a temporary directory, removed afterwards);
    cfg['names']: None | 'index' (index names in the apex, read back with index_name_depth_level=0) |
                  'columns' (include_columns_name, read back with columns_name_depth_level=0) | 'blank' (include_index_name=False)."""
    import shutil
    import tempfile
    import static_frame as sf
    flt = _filter_obj(cfg['filter'])
    d = cfg['delim']
    names = cfg.get('names')
    wkw = dict(include_index=cfg['inc_index'], include_columns=cfg['inc_columns'], store_filter=flt)
    rkw = dict(index_depth=cfg['di'] if cfg['inc_index'] else 0, columns_depth=cfg['dc'] if cfg['inc_columns'] else 0, store_filter=flt)
    if names == 'index':
        rkw['index_name_depth_level'] = 0
    elif names == 'columns':
        wkw.update(include_index_name=False, include_columns_name=True)
        rkw['columns_name_depth_level'] = 0
    elif names == 'blank':
        wkw.update(include_index_name=False)
    if cfg.get('consolidate'):
        rkw['consolidate_blocks'] = True
    if cfg.get('dtypes'):
        # the dtypes of the source, by column label (flat columns only)
        rkw['dtypes'] = {lab: frame._blocks._extract_array(column_key=j).dtype for j, lab in enumerate(frame.columns)}
    tmp = tempfile.mkdtemp(prefix='c16_') if cfg.get('via') == 'path' else None
    try:
        buf = os.path.join(tmp, 'frame.txt') if tmp else io.StringIO()
        if d == ',':
            frame.to_csv(buf, **wkw)
        elif d == '\t':
            frame.to_tsv(buf, **wkw)
        else:
            frame.to_delimited(buf, delimiter=d, **wkw)
        if tmp:
            with open(buf) as fh:
                text = fh.read()
        else:
            text = buf.getvalue()
            buf.seek(0)
        with warnings.catch_warnings():
            warnings.simplefilter('ignore')
            if d == ',':
                out = sf.Frame.from_csv(buf, **rkw)
            elif d == '\t':
                out = sf.Frame.from_tsv(buf, **rkw)
            else:
                out = sf.Frame.from_delimited(buf, delimiter=d, **rkw)
    finally:
        if tmp:
            shutil.rmtree(tmp, ignore_errors=True)
    return text, out


# ----------------------------------------------------------------------------- finding classes (by construction of the input)
F_SINGLE = 'C16-single-field-lines'
F_CSVTAB = 'C16-tab-in-cell-nontab-delimiter'
F_TSV = 'C16-tsv-bypasses-csv-reader'
F_EDGE = 'C16-edge-space-stripped'
F_EMPTY = 'C16-empty-string-becomes-nan'
F_NP2 = 'C16-numpy2-int-looking-first-cell'
F_NONE_DC2 = 'C16-store-filter-none-hierarchical-columns'
F_CUSTOM_NAN = 'C16-custom-nan-marker-float-column'
_INT_RE = re.compile(r'^ *[-+]?[0-9]+ *$')


def _texts(spec, cfg):
    """The str fields of the export, grouped: (all fields that are strings, first field of every line, last field of every line)."""
    rows = []
    nr = len(spec['cols'][0][1]) if spec['cols'] else 0
    if cfg['inc_columns']:
        for r in range(cfg['dc']):
            row = []
            if cfg['inc_index']:
                row.extend(cfg['apex'] if r == 0 else [''] * cfg['di'])
            row.extend(lab[r] for lab in spec['columns'])
            rows.append(row)
    for i in range(nr):
        row = []
        if cfg['inc_index']:
            row.extend(spec['index'][i])
        row.extend(vs[i] for _, vs in spec['cols'])
        rows.append(row)
    return rows


def classify(spec, cfg):
    """Finding classes the input is in, by construction (strings only: other scalars never hold these characters)."""
    rows = _texts(spec, cfg)
    strs = [x for row in rows for x in row if isinstance(x, str)]
    out = []
    if any(len(row) == 1 for row in rows):
        out.append(F_SINGLE)
    if cfg['delim'] != '\t' and any('\t' in x for x in strs):
        out.append(F_CSVTAB)
    if cfg['delim'] == '\t' and any(('\t' in x or '"' in x) for x in strs):
        out.append(F_TSV)
    if any((isinstance(row[0], str) and row[0][:1] == ' ') or (isinstance(row[-1], str) and row[-1][-1:] == ' ') for row in rows):
        out.append(F_EDGE)
    if cfg['filter'] == 'none' and cfg['inc_columns'] and cfg['dc'] > 1:
        out.append(F_NONE_DC2)
    if cfg['filter'] is True and any(isinstance(x, str) and x == '' for _, vs in spec['cols'] for x in vs):
        out.append(F_EMPTY)
    # a NaN marker that float() does not read makes genfromtxt type the whole float column as text
    if cfg['filter'] == 'custom' and any(k == 'f' and any(v != v for v in vs) for k, vs in spec['cols']):
        out.append(F_CUSTOM_NAN)
    # a text column (str / object cells, or a str level of a written index) whose first non-blank text reads as an int
    text_cols = [vs for k, vs in spec['cols'] if k in 'UO']
    if cfg['inc_index']:
        for k in range(cfg['di']):
            level = [lab[k] for lab in spec['index']]
            if level and isinstance(level[0], str):
                text_cols.append(level)
    for vs in text_cols:
        nan_text = {True: '', 'custom': CUSTOM_FILTER['from_nan']}.get(cfg['filter'], 'nan')
        none_text = CUSTOM_FILTER['from_none'] if cfg['filter'] == 'custom' else 'None'
        rendered = [v if isinstance(v, str) else (none_text if v is None else nan_text) for v in vs]
        nonblank = [r for r in rendered if r.strip(' ') != '']
        if nonblank and _INT_RE.match(nonblank[0]):
            out.append(F_NP2)
            break
    has_tab = any('\t' in x for x in strs)
    return out, has_tab


def delimited_case(ctx, kind, spec, cfg, layout=None, extra=None):
    frame = build(spec, layout)
    src = observe(frame)
    text_box = {}

    def run():
        text, out = _io_roundtrip(frame, cfg)
        text_box['text'] = text
        return out
    try:
        buf = io.StringIO()
        frame.to_delimited(buf, delimiter=cfg['delim'], include_index=cfg['inc_index'], include_columns=cfg['inc_columns'])
        text_box['text'] = buf.getvalue()
    except Exception:  # noqa
        pass
    obs, obs_json, got = _obs_lit(run)
    classes, has_tab = classify(spec, cfg)
    py_fail = None
    if cfg.get('names') in ('index', 'columns') and hasattr(got, 'index') and not classes:
        want = (frame.index.name, None) if cfg['names'] == 'index' else (None, frame.columns.name)
        if (got.index.name, got.columns.name) != want:
            py_fail = f'names come back as {(got.index.name, got.columns.name)!r}, written {want!r}'
    tags = {'op': 'delimited', 'delim': {',': 'comma', '\t': 'tab'}.get(cfg['delim'], 'other')}
    if classes:
        tags['finding'] = classes[0]
    m_ok = not has_tab and F_SINGLE not in classes
    no_model = F_NONE_DC2 in classes or (cfg.get('names') == 'columns' and cfg['dc'] > 1) or bool(cfg.get('dtypes'))
    c, f = _cfg(cfg), _tframe(src)
    ctx.count(f'class:{spec.get("cls", "Frame")}', f'delim:{tags["delim"]}', f'di:{cfg["di"] if cfg["inc_index"] else 0}', f'dc:{cfg["dc"] if cfg["inc_columns"] else 0}',
              f'filter:{cfg["filter"]}', f'via:{cfg.get("via", "buffer")}', f'names:{cfg.get("names")}', f'consolidate:{bool(cfg.get("consolidate"))}', f'dtypes:{bool(cfg.get("dtypes"))}', f'class:{classes[0] if classes else "clean"}',
              *[f'kind:{k}' for k, _ in spec['cols']])
    desc = {'call': 'Frame.from_{csv,tsv,delimited}(io(Frame.to_{csv,tsv,delimited}(f)))', 'delimiter': cfg['delim'],
            'include_index': cfg['inc_index'], 'include_columns': cfg['inc_columns'],
            'index_depth': cfg['di'] if cfg['inc_index'] else 0, 'columns_depth': cfg['dc'] if cfg['inc_columns'] else 0,
            'store_filter': {True: 'STORE_FILTER_DEFAULT', False: 'STORE_FILTER_DISABLE', 'none': 'None', 'custom': f'StoreFilter(**{CUSTOM_FILTER})'}[cfg['filter']],
            'via': cfg.get('via', 'buffer'), 'names_option': cfg.get('names'), 'consolidate_blocks': bool(cfg.get('consolidate')),
            'dtypes': 'dtypes={label: dtype of the source column}' if cfg.get('dtypes') else None,
            'frame': _jsonable(src), 'layout': zoo.layout_str(zoo.layout_of(frame)), 'file_text': text_box.get('text'),
            'observed': obs_json, 'classes': classes}
    if extra:
        desc.update(extra)
    # the literals are shared inside the term (let) to keep the case files small
    in_dom = f'Bool.eqb (dom c f) {lit.b(not classes)}'
    body = f'{in_dom} && obs_eqb (M_roundtrip c f) {obs}' if m_ok else in_dom
    if cfg['filter'] in (True, 'custom'):
        body += ' && filter_wf (c_filter c)'
    return Case(kind, desc,
                m=None if no_model else f'(let c := {c} in let f := {f} in {body})',
                s=f'obs_eqb (S_same {f}) {obs}', py_fail=py_fail,
                tags=tags, nontrivial=True)


# ----------------------------------------------------------------------------- generators
ALPHABET = ['a', '1', ' ', ',', '"', '\t', '-', '|']


def _apex(spec, cfg):
    return [f'__index{k}__' for k in range(cfg['di'])] if spec.get('index_name') is None else list(spec['index_name_texts'])


def fixed_frame_cases(ctx):
    """Exhaustive: every string of length <= L over the alphabet placed in one position of a small frame."""
    L = 2 if ctx.tier == 'quick' else 3
    strings = ['']
    for n in range(1, L + 1):
        strings += [''.join(t) for t in itertools.product(ALPHABET, repeat=n)]
    positions = ('cell-first', 'cell-mid', 'cell-last', 'index-label', 'column-label')
    for d in (',', '\t', '|'):
        for pos in positions:
            for sx in strings:
                index = [['x'], ['y']]
                columns = [['p'], ['q'], ['r']]
                cols = [('U', ['a-', 'b']), ('U', ['ab', 'c']), ('U', ['a a', 'd'])]
                if pos == 'cell-first':
                    cols[0] = ('U', ['a-', sx])
                elif pos == 'cell-mid':
                    cols[1] = ('U', ['ab', sx])
                elif pos == 'cell-last':
                    cols[2] = ('U', ['a a', sx])
                elif pos == 'index-label':
                    if sx in ('', 'x') or 'a' not in sx:
                        continue
                    index = [['x'], [sx]]
                else:
                    if sx in ('', 'p', 'r') or 'a' not in sx:
                        continue
                    columns = [['p'], [sx], ['r']]
                spec = {'index': index, 'columns': columns, 'cols': cols, 'di': 1, 'dc': 1}
                cfg = {'delim': d, 'inc_index': True, 'inc_columns': True, 'filter': True, 'di': 1, 'dc': 1, 'apex': ['__index0__']}
                yield delimited_case(ctx, f'api:delimited-exhaustive:{pos}', spec, cfg)



def _rstr(rng, need_letter, maxlen=4, alphabet=ALPHABET):
    while True:
        n = rng.randint(0 if not need_letter else 1, maxlen)
        t = ''.join(rng.choice(alphabet) for _ in range(n))
        if not need_letter or 'a' in t:
            return t


def _rlabel(rng, kind, alphabet):
    if kind == 's':
        return _rstr(rng, True, 3, alphabet)
    return rng.choice([0, 1, -1, rng.randint(-99, 99), rng.randint(-10 ** 6, 10 ** 6)])


def _rlabels(rng, n, kinds, alphabet):
    """n distinct labels of depth len(kinds) in tree order (equal prefixes contiguous)."""
    if n == 0:
        return []
    if len(kinds) == 1:
        out = []
        while len(out) < n:
            x = _rlabel(rng, kinds[0], alphabet)
            if not any(x == y[0] for y in out):
                out.append([x])
        return out
    sizes = []
    left = n
    while left:
        k = rng.randint(1, left)
        sizes.append(k)
        left -= k
    outers = [x[0] for x in _rlabels(rng, len(sizes), kinds[:1], alphabet)]
    out = []
    for o, k in zip(outers, sizes):
        out += [[o] + rest for rest in _rlabels(rng, k, kinds[1:], alphabet)]
    return out


_INTS = [0, 1, -1, 7, -12, 2 ** 31, -2 ** 31 - 1, 2 ** 63 - 1, -2 ** 63, 10 ** 15 + 1]


def _rcol(rng, nr, alphabet, allow_obj=True, allow_empty=True):
    kind = rng.choice('bifUUO' if allow_obj else 'bifUU')
    if kind == 'b':
        return ('b', [rng.random() < 0.5 for _ in range(nr)])
    if kind == 'i':
        return ('i', [rng.choice(_INTS + [rng.randint(-10 ** 6, 10 ** 6)]) for _ in range(nr)])
    if kind == 'f':
        vs = [rng.choice([1.5, -0.25, 2.0, 0.0, float('inf'), float('-inf'), float('nan'), rng.randint(-10 ** 6, 10 ** 6) / 8, rng.randint(-999, 999) / 4])
              for _ in range(nr)]
        if all(v != v for v in vs):
            vs[rng.randrange(nr)] = rng.randint(-99, 99) / 8
        return ('f', vs)
    if kind == 'U':
        vs = [_rstr(rng, False, 4, alphabet) for _ in range(nr)]
        vs[rng.randrange(nr)] = _rstr(rng, True, 4, alphabet)
        if not allow_empty:
            vs = [v if v != '' else 'a' for v in vs]
        return ('U', vs)
    vs = [rng.choice([None, float('nan'), _rstr(rng, True, 3, alphabet)]) for _ in range(nr)]
    vs[rng.randrange(nr)] = rng.choice([None, None, float('nan')]) if nr > 1 else None
    if nr > 1 and all(not isinstance(v, str) and v is not None for v in vs):
        vs[0] = _rstr(rng, True, 3, alphabet)
    if all(isinstance(v, float) for v in vs):       # an all-NaN column has no typed cell at all
        vs[0] = None
    return ('O', vs)


def records_kernel_case(ctx, spec, cfg, layout):
    """Kernel level: the records Frame._to_str_records yields (private generator) against M_records."""
    frame = build(spec, layout)
    src = observe(frame)
    flt = _filter_obj(cfg['filter'])
    opts = {'columns': dict(include_index_name=False, include_columns_name=True), 'blank': dict(include_index_name=False)}.get(cfg.get('names'), {})
    try:
        recs = [list(r) for r in frame._to_str_records(include_index=cfg['inc_index'], include_columns=cfg['inc_columns'], store_filter=flt, **opts)]
        obs = lit.lst([lit.lst([_tx(x) for x in r]) for r in recs])
    except Exception as e:  # noqa
        recs, obs = {'raised': lit.err_class(e)}, '[[tx "<raised>"]]'
    ctx.count('kernel:_to_str_records')
    if (cfg.get('names') == 'columns' and cfg['dc'] > 1) or \
            any(isinstance(v, float) and v == v and abs(v) != float('inf') and not _renderable(v) for _, vs in spec['cols'] for v in vs):
        term = None     # the apex cells of the lower header rows under include_columns_name are not modelled
    else:
        term = f'list_eqb (list_eqb text_eqb) (M_records {_cfg(cfg)} {_tframe(src)}) {obs}'
    return Case('kernel:_to_str_records', {'call': 'list(f._to_str_records(include_index=, include_columns=, store_filter=))', 'frame': _jsonable(src),
                                           'include_index': cfg['inc_index'], 'include_columns': cfg['inc_columns'], 'records': recs},
                m=term, tags={'op': 'kernel'})


def _renderable(v):
    n, d = float(v).as_integer_ratio()
    return d <= 2 ** 20 and abs(n) < 2 ** 53 and abs(n) // d < 10 ** 15 and (n == 0 or d <= abs(n) * 10000)


def random_cases(ctx):
    rng = ctx.rng
    n = ctx.n(500, 9000)
    clean = [c for c in ALPHABET if c != '\t']
    for _ in range(n):
        # most frames avoid TAB (which puts nearly every frame into a finding class where the model makes no claim)
        alphabet = ALPHABET if rng.random() < 0.12 else clean
        if rng.random() < 0.35:
            alphabet = ['a', '1', '-', 'b', '.', '0'] + ([' '] if rng.random() < 0.5 else [])
        nr, nc = rng.choice([1, 2, 2, 3, 3, 4]), rng.choice([1, 2, 2, 3, 3, 4])
        di, dc = rng.choice([1, 1, 2, 3]), rng.choice([1, 1, 2])
        inc_index, inc_columns = rng.random() < 0.85, rng.random() < 0.85
        flt = rng.choice([True] * 14 + [False] * 2 + ['none', 'none', 'custom', 'custom'])
        d = rng.choice([',', ',', '\t', '\t', '|', ';', ' '])
        if not inc_index:
            di = 1
        if not inc_columns:
            dc = 1
        index = _rlabels(rng, nr, [rng.choice('ssi') for _ in range(di)], alphabet) if inc_index else None
        columns = _rlabels(rng, nc, [rng.choice('ssi') for _ in range(dc)], alphabet) if inc_columns else None
        cols = [_rcol(rng, nr, alphabet, allow_obj=flt in (True, 'custom')) for _ in range(nc)]
        spec = {'index': index, 'columns': columns, 'cols': cols, 'di': di, 'dc': dc, 'cls': rng.choice(['Frame'] * 6 + ['FrameGO', 'FrameHE'])}
        cfg = {'delim': d, 'inc_index': inc_index, 'inc_columns': inc_columns, 'filter': flt, 'di': di, 'dc': dc,
               'apex': [f'__index{k}__' for k in range(di)], 'via': 'path' if rng.random() < 0.08 else 'buffer', 'names': None,
               'consolidate': rng.random() < 0.1, 'dtypes': inc_columns and dc == 1 and rng.random() < 0.08}
        if inc_index and inc_columns and rng.random() < 0.2:
            # the name options of the exporter and the matching *_name_depth_level of the importer
            cfg['names'] = rng.choice(['index', 'columns', 'blank'])
            spec['index_name'] = 'idx' if di == 1 else tuple(f'n{k}' for k in range(di))
            spec['columns_name'] = 'cn' if dc == 1 else tuple(f'c{k}' for k in range(dc))
            if cfg['names'] == 'index':
                cfg['apex'] = ['idx'] if di == 1 else [f'n{k}' for k in range(di)]
            elif cfg['names'] == 'columns':
                cfg['apex'] = ['cn' if dc == 1 else 'c0'] + [''] * (di - 1)
            else:
                cfg['apex'] = [''] * di
        dtypes = [{'b': bool, 'i': np.int64, 'f': np.float64, 'U': str, 'O': object}[k] for k, _ in cols]
        layout = None
        if rng.random() < 0.5:
            arrays = [_array(k, vs) for k, vs in cols]
            layouts = list(zoo.layouts_for([a.dtype for a in arrays]))
            layout = rng.choice(layouts)
        yield delimited_case(ctx, 'api:delimited-random', spec, cfg, layout)
        if rng.random() < 0.4:
            yield records_kernel_case(ctx, spec, cfg, layout)


def scientific_float_cases(ctx):
    """Floats whose repr uses the exponent notation or 17 digits (outside the model of f'{x}': specification only)."""
    rng = ctx.rng
    pool = [1e20, -1e20, 1.5e-7, 2.0 ** 70, -2.0 ** -30, 1e16, 1.2345678901234567, 0.1, -0.3, 1 / 3, 123456789.123456789, 5e-324, 1.7976931348623157e308,
            float('inf'), float('nan')]
    for _ in range(ctx.n(60, 600)):
        nr, nc = rng.choice([1, 2, 3]), rng.choice([1, 2, 3])
        cols = []
        for _j in range(nc):
            vs = [rng.choice(pool) for _ in range(nr)]
            if all(v != v for v in vs):
                vs[0] = 0.1
            cols.append(('f', vs))
        index = _rlabels(rng, nr, ['s'], ['a', 'b', '1'])
        columns = _rlabels(rng, nc, ['s'], ['a', 'b', '1'])
        spec = {'index': index, 'columns': columns, 'cols': cols, 'di': 1, 'dc': 1}
        cfg = {'delim': rng.choice([',', '\t', '|']), 'inc_index': True, 'inc_columns': True, 'filter': rng.random() < 0.8, 'di': 1, 'dc': 1, 'apex': ['__index0__']}
        frame = build(spec)
        src = observe(frame)
        if rng.random() < 0.35:
            # StoreFilter with float formats wide enough to be exact for these values (17 significant digits)
            import static_frame as sf
            vf = sf.StoreFilter(value_format_float_positional='{:.17g}', value_format_float_scientific='{:.16e}')
            ctx.count('sci-float:value_format')

            def run(vf=vf, frame=frame, cfg=cfg):
                buf = io.StringIO()
                frame.to_delimited(buf, delimiter=cfg['delim'], store_filter=vf)
                buf.seek(0)
                with warnings.catch_warnings():
                    warnings.simplefilter('ignore')
                    return sf.Frame.from_delimited(buf, delimiter=cfg['delim'], index_depth=1, store_filter=vf)
            obs, obs_json, _ = _obs_lit(run)
            yield Case('api:delimited-value-format', {'call': "StoreFilter(value_format_float_positional='{:.17g}', value_format_float_scientific='{:.16e}') on both sides",
                                                      'delimiter': cfg['delim'], 'frame': _jsonable(src), 'observed': obs_json},
                       s=f'obs_eqb (Ok {_tframe(src)}) {obs}', tags={'op': 'delimited', 'delim': 'any'})
            continue
        obs, obs_json, _ = _obs_lit(lambda: _io_roundtrip(frame, cfg)[1])
        ctx.count('sci-float')
        yield Case('api:delimited-scientific-float', {'call': 'from_delimited(io(to_delimited(f)))', 'delimiter': cfg['delim'], 'frame': _jsonable(src), 'observed': obs_json},
                   s=f'obs_eqb (Ok {_tframe(src)}) {obs}', tags={'op': 'delimited', 'delim': 'any'})


def zero_row_cases(ctx):
    """A table of column labels only (no data line): labels come back, there are no rows (dtypes are not determined)."""
    rng = ctx.rng
    import static_frame as sf
    for it in range(ctx.n(12, 120)):
        nc, dc = rng.choice([1, 2, 3]), rng.choice([1, 1, 2])
        inc_index = it % 3 != 0
        if not inc_index and nc == 1:
            nc = 2
        columns = _rlabels(rng, nc, [rng.choice('si') for _ in range(dc)], ['a', 'b', '1', '-'])
        cols_index = _index(columns, dc)
        frame = sf.Frame(columns=cols_index, index=sf.Index(()) if inc_index else None)
        cfg = {'delim': rng.choice([',', '\t', '|']), 'inc_index': inc_index, 'inc_columns': True, 'filter': True, 'di': 1, 'dc': dc, 'apex': ['__index0__']}
        src = {'index': [], 'columns': columns, 'cols': [('f', []) for _ in range(nc)]}
        obs, obs_json, _ = _obs_lit(lambda: _io_roundtrip(frame, cfg)[1])
        ctx.count('zero-rows')
        yield Case('api:delimited-zero-rows', {'call': 'from_delimited(io(to_delimited(Frame(columns=..., index=[]))))', 'delimiter': cfg['delim'], 'include_index': inc_index,
                                               'columns': _jsonable(columns), 'observed': obs_json},
                   s=f'obs_sim (Ok {_tframe(src)}) {obs}', tags={'op': 'delimited', 'delim': 'any'})


def ragged_tree_cases(ctx):
    """Index (and columns) of depth 3 built from_labels with ragged trees whose inner labels REPEAT under different outer
    labels in consecutive rows -- ('a',0,'u'), ('a',1,'v'), ('b',1,'w'), ('b',2,'x') -- also with equal leaves: every row of
    the file must carry its own outer labels."""
    rng = ctx.rng
    trees = [
        [['a', 0, 'u'], ['a', 1, 'v'], ['b', 1, 'w'], ['b', 2, 'x']],
        [['a', 0, 'u'], ['a', 1, 'v'], ['b', 1, 'v'], ['b', 2, 'x']],            # equal leaves across the boundary
        [['a', 'p', 1], ['b', 'p', 2], ['c', 'p', 3]],                             # every row a new outer label, same middle label
        [['a', 'p', 1], ['b', 'p', 1], ['c', 'q', 1]],
        [[1, 'p', 'u'], [1, 'q', 'u'], [2, 'q', 'u'], [2, 'q', 'v'], [3, 'q', 'v']],
    ]
    fixed = [(t, d, on) for t in trees for d in (',', '\t', '|') for on in ('index', 'columns')]
    for it in range(len(fixed) + ctx.n(40, 600)):
        if it < len(fixed):
            tree, d, on = fixed[it]
        else:
            d, on = rng.choice([',', '\t', '|', ';']), rng.choice(['index', 'index', 'columns', 'both'])
            tree = _ragged_tree(rng)
        other = _ragged_tree(rng) if on == 'both' else None
        n = len(tree)
        if on == 'index':
            di, dc, index, columns = 3, rng.choice([1, 2]), tree, None
        elif on == 'columns':
            di, dc, index, columns = rng.choice([1, 2]), 3, None, tree
        else:
            di, dc, index, columns = 3, 3, tree, other
        if index is None:
            index = _rlabels(rng, rng.choice([1, 2, 3]), [rng.choice('si') for _ in range(di)], ['a', 'b', '1'])
        if columns is None:
            columns = _rlabels(rng, rng.choice([1, 2, 3]), [rng.choice('si') for _ in range(dc)], ['a', 'b', '1'])
        cols = [_rcol(rng, len(index), ['a', 'b', '1', '-'], allow_empty=False) for _ in columns]
        spec = {'index': index, 'columns': columns, 'cols': cols, 'di': di, 'dc': dc, 'cls': rng.choice(['Frame', 'Frame', 'FrameGO'])}
        cfg = {'delim': d, 'inc_index': True, 'inc_columns': True, 'filter': True, 'di': di, 'dc': dc, 'apex': [f'__index{k}__' for k in range(di)]}
        yield delimited_case(ctx, 'api:delimited-ragged-depth3', spec, cfg)


def _ragged_tree(rng):
    """3-6 labels of depth 3 in tree order; the middle (and often the leaf) label of the last row of a group is reused by the
    first row of the next group."""
    outer = rng.sample(['a', 'b', 'c', 'ab'], rng.choice([2, 3])) if rng.random() < 0.6 else rng.sample([1, 2, 3, -1], rng.choice([2, 3]))
    mids = ['p', 'q', 'r'] if rng.random() < 0.5 else [0, 1, 2]
    leaf_pool = ['u', 'v', 'w', 'x', 'y', 'z'] if rng.random() < 0.5 else [10, 11, 12, 13, 14, 15]
    out, carry = [], None
    for o in outer:
        k = rng.choice([1, 1, 2])
        ms = rng.sample(mids, k)
        if carry is not None:
            ms = [carry[0]] + [m for m in ms[1:] if m != carry[0]]
        group = []
        for j, m in enumerate(ms):
            leaves = rng.sample(leaf_pool, rng.choice([1, 2]))
            if j == 0 and carry is not None and rng.random() < 0.4:
                leaves = [carry[1]] + [lf for lf in leaves[1:] if lf != carry[1]]            # equal leaf as well
            group += [[o, m, lf] for lf in leaves]
        out += group
        carry = (group[-1][1], group[-1][2])
    return out


def witness_cases(ctx):
    """The minimal replay of every known finding (each listed finding must reproduce in every run)."""
    base = {'inc_index': True, 'inc_columns': True, 'filter': True, 'di': 1, 'dc': 1, 'apex': ['__index0__']}
    two = [['p'], ['q']]
    yield delimited_case(ctx, 'api:delimited-witness', {'index': [['x']], 'columns': two, 'cols': [('U', ['a"b']), ('U', ['c'])], 'di': 1, 'dc': 1},
                         dict(base, delim='\t'))
    yield delimited_case(ctx, 'api:delimited-witness', {'index': [['x']], 'columns': two, 'cols': [('U', ['a\tb']), ('U', ['c'])], 'di': 1, 'dc': 1},
                         dict(base, delim=','))
    yield delimited_case(ctx, 'api:delimited-witness', {'index': [[' x']], 'columns': two, 'cols': [('U', ['a']), ('U', ['b '])], 'di': 1, 'dc': 1},
                         dict(base, delim=','))
    yield delimited_case(ctx, 'api:delimited-witness', {'index': None, 'columns': [['pq']], 'cols': [('U', ['a', 'b'])], 'di': 1, 'dc': 1},
                         dict(base, delim=',', inc_index=False))
    yield delimited_case(ctx, 'api:delimited-witness', {'index': [['x'], ['y']], 'columns': two, 'cols': [('U', ['a', 'b']), ('U', ['', 'c'])], 'di': 1, 'dc': 1},
                         dict(base, delim=','))
    yield delimited_case(ctx, 'api:delimited-witness', {'index': [['x']], 'columns': [['p', 1], ['p', 2]], 'cols': [('U', ['a']), ('U', ['b'])], 'di': 1, 'dc': 2},
                         dict(base, delim=',', filter='none', dc=2))
    yield delimited_case(ctx, 'api:delimited-witness', {'index': [['x'], ['y']], 'columns': two, 'cols': [('f', [1.5, float('nan')]), ('U', ['a', 'b'])], 'di': 1, 'dc': 1},
                         dict(base, delim=',', filter='custom'))
    # regression inputs of the option routes: file path, names in the apex, store_filter=None, custom markers in an object column
    named = {'index': [['x'], ['y']], 'columns': two, 'cols': [('i', [1, 2]), ('U', ['a', 'b'])], 'di': 1, 'dc': 1, 'index_name': 'idx', 'columns_name': 'cn'}
    yield delimited_case(ctx, 'api:delimited-options', named, dict(base, delim=',', names='index', apex=['idx']))
    yield delimited_case(ctx, 'api:delimited-options', named, dict(base, delim='\t', names='columns', apex=['cn']))
    yield delimited_case(ctx, 'api:delimited-options', named, dict(base, delim='|', names='blank', apex=['']))
    yield delimited_case(ctx, 'api:delimited-options', dict(named, index_name=None, columns_name=None), dict(base, delim=',', via='path'))
    yield delimited_case(ctx, 'api:delimited-options', dict(named, index_name=None, columns_name=None), dict(base, delim=',', consolidate=True))
    yield delimited_case(ctx, 'api:delimited-options', dict(named, index_name=None, columns_name=None), dict(base, delim='|', dtypes=True))
    yield delimited_case(ctx, 'api:delimited-options', dict(named, index_name=None, columns_name=None), dict(base, delim='\t', via='path', filter='none'))
    yield delimited_case(ctx, 'api:delimited-options', {'index': [['x'], ['y'], ['z']], 'columns': two, 'cols': [('O', ['a', None, float('nan')]), ('f', [1.5, float('inf'), -0.25])], 'di': 1, 'dc': 1},
                         dict(base, delim=',', filter='custom'))



# ----------------------------------------------------------------------------- structural exports, pickle
F_ROWS = 'C16-row-export-int-as-float-rounds'


def _lab(x, depth):
    return [_py(v) for v in x] if depth > 1 else [_py(x)]


def _pairs_lit(pairs, d_major, d_minor):
    out = []
    for k, inner in pairs:
        items = lit.lst([f'({lit.lst([_val(v) for v in _lab(m, d_minor)])}, {_val(_py(v))})' for m, v in inner])
        out.append(f'({lit.lst([_val(v) for v in _lab(k, d_major)])}, {items})')
    return lit.lst(out)


def _rows_lit(rows):
    return lit.lst([lit.lst([_val(_py(v)) for v in row]) for row in rows])


def _labels_lit(labels):
    return lit.lst([lit.lst([_val(x) for x in lab]) for lab in labels])


def _oframe(fr):
    cols = []
    for j in range(fr.shape[1]):
        a = fr._blocks._extract_array(column_key=j)
        cols.append(f'({lit.dtype(a.dtype)}, {lit.lst([_val(_py(x)) for x in a.tolist()])})')

    def lab(index):
        if index.depth > 1:
            return lit.lst(['(VTup ' + lit.lst([_val(_py(x)) for x in l]) + ')' for l in index])
        return lit.lst([_val(_py(x)) for x in index.values.tolist()])
    return f'(mk_oframe {lab(fr.index)} {lab(fr.columns)} {lit.lst(cols)} {_val(fr.name)})'


def _struct_spec(rng, alphabet):
    nr, nc = rng.choice([1, 2, 3, 4]), rng.choice([1, 2, 3, 4])
    di, dc = rng.choice([1, 1, 2, 3]), rng.choice([1, 1, 2])
    index = _rlabels(rng, nr, [rng.choice('ssi') for _ in range(di)], alphabet)
    columns = _rlabels(rng, nc, [rng.choice('ssi') for _ in range(dc)], alphabet)
    cols = [_rcol(rng, nr, alphabet) for _ in range(nc)]
    return {'index': index, 'columns': columns, 'cols': cols, 'di': di, 'dc': dc}


def structural_cases(ctx):
    import static_frame as sf
    rng = ctx.rng
    fixed = [
        # the minimal replay of the row-export finding, and the regression input of the repaired Frame.items() defect
        {'index': [['x']], 'columns': [['a'], ['b']], 'cols': [('i', [2 ** 63 - 1]), ('f', [1.5])], 'di': 1, 'dc': 1},
        {'index': [['x']], 'columns': [['a', 1], ['a', 2]], 'cols': [('i', [1]), ('i', [2])], 'di': 1, 'dc': 2},
    ]
    for it in range(ctx.n(45, 800)):
        alphabet = ALPHABET if rng.random() < 0.5 else ['a', '1', ' ', '-', 'b', '.']
        spec = fixed[it] if it < len(fixed) else _struct_spec(rng, alphabet)
        arrays = [_array(*c) for c in spec['cols']]
        layout = rng.choice(list(zoo.layouts_for([a.dtype for a in arrays])))
        cls = rng.choice(['Frame'] * 4 + ['FrameGO', 'FrameHE'])
        frame = build(dict(spec, index_name=None, cls=cls), layout)
        frame = frame.rename('fr' if rng.random() < 0.5 else None)
        yield from _struct_roundtrips(ctx, frame, spec, zoo.layout_str(layout), f'{cls} built in one step')
    # receivers that are FrameGO grown column by column with same-kind columns of increasing width: TypeBlocks.append
    # maintains the cached row dtype incrementally, and every row-wise export goes through it
    grown_fixed = [
        [('U', ['c', 'd'], '<U1'), ('U', ['ccc', 'dd'], '<U3')],
        [('i', [1, -2], 'int8'), ('i', [300, 70000], 'int64')],
        [('f', [1.5, -2.0], 'float32'), ('f', [0.1, 1e-9], 'float64')],
        [('U', ['a', 'b'], '<U1'), ('U', ['a b', 'ab'], '<U3'), ('U', ['abcde', ''], '<U5')],
    ]
    for it in range(ctx.n(30, 500)):
        nr = 2 if it < len(grown_fixed) else rng.choice([1, 2, 3])
        cols = grown_fixed[it] if it < len(grown_fixed) else _grown_cols(rng, nr)
        di = rng.choice([1, 1, 2])
        spec = {'index': _rlabels(rng, nr, [rng.choice('si') for _ in range(di)], ['a', 'b', '1', ' ']),
                'columns': _rlabels(rng, len(cols), [rng.choice('si')], ['a', 'b', '1', ' ']), 'cols': cols, 'di': di, 'dc': 1}
        index = _index(spec['index'], di)
        g = sf.FrameGO(index=index)
        how = []
        for lab, col in zip(spec['columns'], cols):
            arr = _array(*col)
            arr.flags.writeable = False
            if rng.random() < 0.6:
                g[lab[0]] = arr
                how.append('setitem')
            else:
                g.extend(sf.Frame.from_items([(lab[0], arr)], index=index))
                how.append('extend')
        yield from _struct_roundtrips(ctx, g, spec, '+'.join(how), 'FrameGO grown column by column', grown=True)


_WIDTHS = {'i': ['int8', 'int16', 'int32', 'int64'], 'f': ['float32', 'float64'], 'U': ['<U1', '<U2', '<U3', '<U5']}


def _grown_cols(rng, nr):
    """2-4 columns; runs of the same kind with increasing width (sometimes a second kind after it)."""
    out = []
    for kind in rng.sample(['U', 'i', 'f'], rng.choice([1, 1, 2])):
        widths = _WIDTHS[kind]
        start = rng.randrange(len(widths) - 1)
        for w in widths[start:start + rng.choice([2, 2, 3])]:
            if kind == 'U':
                n = int(w[2:])
                vs = [''.join(rng.choice('abc 1') for _ in range(rng.randint(max(1, n - 1), n))) for _ in range(nr)]
                vs[rng.randrange(nr)] = ''.join(rng.choice('abc') for _ in range(n))
            elif kind == 'i':
                hi = 2 ** (8 * np.dtype(w).itemsize - 1) - 1
                vs = [rng.choice([hi, -hi - 1, rng.randint(-100, 100)]) for _ in range(nr)]
            else:
                vs = [rng.choice([1.5, -0.25, rng.randint(-999, 999) / 8] + ([0.1, 1e-9, 1 / 3] if w == 'float64' else [])) for _ in range(nr)]
            out.append((kind, vs, w))
    return out


def _field_names(columns, dc):
    return dc == 1 and all(isinstance(lab[0], str) and lab[0].isidentifier() and not keyword.iskeyword(lab[0]) and not lab[0].startswith('_')
                           for lab in columns)


def _dataclass_rows(columns):
    import dataclasses
    return dataclasses.make_dataclass('Row', [lab[0] for lab in columns])


def _rehier(frame, di, dc):
    """from_dict_records_items has no index / columns constructor arguments: tuples of a hierarchical axis are made hierarchical again."""
    import static_frame as sf
    if di > 1:
        frame = frame.relabel(index=sf.IndexHierarchy.from_labels(frame.index.values))
    if dc > 1:
        frame = frame.relabel(columns=sf.IndexHierarchy.from_labels(frame.columns.values))
    return frame


def _struct_roundtrips(ctx, frame, spec, layout, receiver, grown=False):
    import copy
    import pickle
    import static_frame as sf
    IH = sf.IndexHierarchy.from_labels
    cls = type(frame)
    src = observe(frame)
    f = _tframe(src)
    di, dc = spec['di'], spec['dc']
    ic = IH if di > 1 else None
    cc = IH if dc > 1 else None
    base = {'receiver': receiver, 'frame': _jsonable(src), 'layout': layout, 'index_depth': di, 'columns_depth': dc,
            'dtypes': [str(frame._blocks._extract_array(column_key=j).dtype) for j in range(frame.shape[1])]}
    tags = {'op': 'structural'}
    dom = 'struct_dom f'
    share = lambda pl, body: f'(let f := {f} in let pl := {pl} in {body})'
    kinds = [c[0] for c in spec['cols']]
    # the rows of a one-step int + float Frame are float64 arrays; a grown FrameGO keeps an exact common dtype or object
    mix = (not grown) and all(k in 'if' for k in kinds) and 'i' in kinds and 'f' in kinds
    big = [v for c in spec['cols'] if c[0] == 'i' for v in c[1] if abs(v) > 2 ** 53]
    rounds = [v for v in big if int(float(v)) != v]
    # rows of an int + float Frame are float64 arrays: ints beyond 2^53 are outside the model of the row exports,
    # and those that are not exactly a double come back changed (the C07 row-coercion defect seen through C16)
    row_tags = dict(tags, finding=F_ROWS) if (mix and rounds) else tags
    row_model = not (mix and big)

    # to_pairs(0) -> from_items
    p0 = frame.to_pairs(0)
    obs, oj, _ = _obs_lit(lambda: sf.Frame.from_items(((k, [v for _, v in col]) for k, col in p0), index=[i for i, _ in p0[0][1]],
                                                     index_constructor=ic, columns_constructor=cc))
    pl = _pairs_lit(p0, dc, di)
    ctx.count('struct:pairs0')
    yield Case('api:pairs-axis0', dict(base, call='Frame.from_items(((k, [v for _, v in col]) for k, col in f.to_pairs(0)), index=[i for i, _ in p[0][1]])', observed=oj),
               m=share(pl, f'{dom} && pairs_eqb (M_to_pairs0 f) pl && obs_eqb (Ok (M_from_pairs0 pl)) {obs}'),
               s=f'obs_sim (Ok {f}) {obs}', tags=tags)
    # to_pairs(1) -> from_records_items
    p1 = frame.to_pairs(1)
    obs, oj, _ = _obs_lit(lambda: sf.Frame.from_records_items(((i, [v for _, v in row]) for i, row in p1), columns=[c for c, _ in p1[0][1]],
                                                             index_constructor=ic, columns_constructor=cc))
    pl = _pairs_lit(p1, di, dc)
    ctx.count('struct:pairs1')
    yield Case('api:pairs-axis1', dict(base, call='Frame.from_records_items(((i, [v for _, v in row]) for i, row in f.to_pairs(1)), columns=[c for c, _ in p[0][1]])', observed=oj),
               m=share(pl, f'{dom} && pairs_eqb (M_to_pairs1_gen {lit.b(mix)} f) pl && obs_eqb (Ok (M_from_pairs1 pl)) {obs}') if row_model else None,
               s=f'obs_sim (Ok {f}) {obs}', tags=row_tags)
    # rows -> from_records
    rows = list(frame.iter_tuple(axis=1, constructor=tuple))
    obs, oj, _ = _obs_lit(lambda: sf.Frame.from_records(rows, index=frame.index, columns=frame.columns))
    rl = _rows_lit(rows)
    ctx.count('struct:records')
    yield Case('api:records', dict(base, call='Frame.from_records(list(f.iter_tuple(axis=1, constructor=tuple)), index=f.index, columns=f.columns)', observed=oj),
               m=(share(rl, f'{dom} && rows_eqb (M_rows_gen {lit.b(mix)} f) pl && obs_eqb (Ok (M_from_records (tf_index f) (tf_columns f) pl)) {obs}')
                  if row_model else None),
               s=f'obs_sim (Ok {f}) {obs}', tags=row_tags)
    for name, getter in (('iter_array', lambda: [a for a in frame.iter_array(axis=1)]),
                         ('iter_series', lambda: [sr.values for sr in frame.iter_series(axis=1)])):
        rows = [tuple(a.tolist()) if a.dtype.kind != 'O' else tuple(a) for a in getter()]
        obs, oj, _ = _obs_lit(lambda: sf.Frame.from_records(rows, index=frame.index, columns=frame.columns))
        rl = _rows_lit(rows)
        ctx.count(f'struct:records-{name}')
        yield Case(f'api:records-{name}', dict(base, call=f'Frame.from_records([row values of f.{name}(axis=1)], index=f.index, columns=f.columns)', observed=oj),
                   m=(share(rl, f'{dom} && rows_eqb (M_rows_gen {lit.b(mix)} f) pl && obs_eqb (Ok (M_from_records (tf_index f) (tf_columns f) pl)) {obs}')
                      if row_model else None),
                   s=f'obs_sim (Ok {f}) {obs}', tags=row_tags)
    # dict records -> from_dict_records
    obs, oj, _ = _obs_lit(lambda: sf.Frame.from_dict_records([dict(r) for _, r in p1], index=frame.index, columns_constructor=cc))
    ctx.count('struct:dict_records')
    yield Case('api:dict-records', dict(base, call='Frame.from_dict_records([dict(r) for _, r in f.to_pairs(1)], index=f.index)', observed=oj),
               s=f'obs_sim (Ok {f}) {obs}', tags=row_tags)
    # items -> from_items
    obs, oj, _ = _obs_lit(lambda: sf.Frame.from_items(frame.items(), index=frame.index, columns_constructor=cc))
    ctx.count('struct:items')
    yield Case('api:items', dict(base, call='Frame.from_items(f.items(), index=f.index)', observed=oj),
               s=f'obs_sim (Ok {f}) {obs}', tags=tags)
    # further import routes of the same exports (all: the rebuilt Frame equals the original cell by cell)
    routes = [
        ('from_items-arrays', 'Frame.from_items(zip(f.columns, f.iter_array(axis=0)), index=f.index)',
         lambda: sf.Frame.from_items(zip(frame.columns, frame.iter_array(axis=0)), index=frame.index, columns_constructor=cc), tags),
        ('from_dict', 'Frame.from_dict({k: v.values for k, v in f.items()}, index=f.index)',
         lambda: sf.Frame.from_dict({k: v.values for k, v in frame.items()}, index=frame.index, columns_constructor=cc), tags),
        ('from_fields', 'Frame.from_fields(f.iter_array(axis=0), columns=f.columns, index=f.index)',
         lambda: sf.Frame.from_fields(frame.iter_array(axis=0), columns=frame.columns, index=frame.index), tags),
        ('from_dict_records_items', 'Frame.from_dict_records_items((i, dict(r)) for i, r in f.to_pairs(1))',
         lambda: _rehier(sf.Frame.from_dict_records_items((i, dict(r)) for i, r in p1), di, dc), row_tags),
        ('from_records-ndarray', 'Frame.from_records(f.values, index=f.index, columns=f.columns)',
         lambda: sf.Frame.from_records(frame.values, index=frame.index, columns=frame.columns), row_tags),
        ('from_records-namedtuple', 'Frame.from_records(list(f.iter_tuple(axis=1)), index=f.index, columns=f.columns)',
         lambda: sf.Frame.from_records(list(frame.iter_tuple(axis=1)), index=frame.index, columns=frame.columns), row_tags),
        ('from_records-dict-view', 'Frame.from_records({i: tuple(v for _, v in r) for i, r in f.to_pairs(1)}.values(), index=f.index, columns=f.columns)',
         lambda: sf.Frame.from_records({i: tuple(v for _, v in r) for i, r in p1}.values(), index=frame.index, columns=frame.columns), row_tags),
    ]
    src_dtypes = [frame._blocks._extract_array(column_key=j).dtype for j in range(frame.shape[1])]
    routes += [
        ('from_records-consolidate', 'Frame.from_records(rows, index=f.index, columns=f.columns, consolidate_blocks=True)',
         lambda: sf.Frame.from_records(rows_t, index=frame.index, columns=frame.columns, consolidate_blocks=True), row_tags),
        ('from_items-consolidate', 'Frame.from_items(zip(f.columns, f.iter_array(axis=0)), index=f.index, consolidate_blocks=True)',
         lambda: sf.Frame.from_items(zip(frame.columns, frame.iter_array(axis=0)), index=frame.index, columns_constructor=cc, consolidate_blocks=True), tags),
        ('from_dict_records-consolidate', 'Frame.from_dict_records([dict(r) for _, r in f.to_pairs(1)], index=f.index, consolidate_blocks=True)',
         lambda: sf.Frame.from_dict_records([dict(r) for _, r in p1], index=frame.index, columns_constructor=cc, consolidate_blocks=True), row_tags),
        ('from_records-dtypes', 'Frame.from_records(rows, index=f.index, columns=f.columns, dtypes=[dtypes of f])',
         lambda: sf.Frame.from_records(rows_t, index=frame.index, columns=frame.columns, dtypes=src_dtypes), row_tags),
        ('from_items-dtypes', 'Frame.from_items(((k, [v for _, v in col]) for k, col in f.to_pairs(0)), index=f.index, dtypes=[dtypes of f])',
         lambda: sf.Frame.from_items(((k, [v for _, v in col]) for k, col in p0), index=frame.index, columns_constructor=cc, dtypes=src_dtypes), tags),
        ('from_records-dataclass', 'Frame.from_records([DC(*row) for row in rows], index=f.index)  (DC: a dataclass with the column labels as fields)',
         lambda: sf.Frame.from_records([_dataclass_rows(src['columns'])(*r) for r in rows_t], index=frame.index), row_tags),
    ]
    rows_t = list(frame.iter_tuple(axis=1, constructor=tuple))
    for name, call, fn, tg in routes:
        if name == 'from_records-dataclass' and not _field_names(src['columns'], dc):
            continue
        if name == 'from_records-namedtuple' and not _field_names(src['columns'], dc):
            continue        # iter_tuple asks for constructor=tuple unless every column label is a field name (api:records covers that)
        obs, oj, _ = _obs_lit(fn)
        ctx.count(f'struct:{name}')
        yield Case(f'api:{name}', dict(base, call=call, observed=oj), s=f'obs_sim (Ok {f}) {obs}', tags=tg)
    # one column as a Series: to_pairs -> from_items, pickle, deepcopy
    col = frame.iloc[:, 0].rename('sr')
    sr = sf.Series.from_items(col.to_pairs(), index_constructor=ic, name='sr')
    why = []
    if not sr.equals(col, compare_name=True):
        why.append('Series.from_items(s.to_pairs()) differs from s')
    for how, g in (('pickle', pickle.loads(pickle.dumps(col))), ('deepcopy', copy.deepcopy(col))):
        if not g.equals(col, compare_name=True, compare_dtype=True, compare_class=True):
            why.append(f'{how} of the Series differs')
        if g.values.flags.writeable or g.index.values.flags.writeable or g.index.positions.flags.writeable:
            why.append(f'{how} of the Series has a writeable array')
    ctx.count('struct:series')
    yield Case('api:series-pairs-pickle', dict(base, call='s = f.iloc[:, 0]; Series.from_items(s.to_pairs()); pickle / deepcopy of s; equality, names, dtype, flags', observed={'why': why}),
               py_fail='; '.join(why) or None, tags=tags)
    # pickle / deepcopy: equal Frame, same dtypes, names, class, read-only arrays
    for how, fn in (('pickle', lambda: pickle.loads(pickle.dumps(frame))), ('deepcopy', lambda: copy.deepcopy(frame))):
        try:
            g = fn()
        except Exception as e:  # noqa
            yield Case(f'api:{how}', dict(base, call=how, observed={'raised': lit.err_class(e)}), py_fail=f'{how} raised {type(e).__name__}', tags=tags)
            continue
        why = []
        if type(g) is not type(frame):
            why.append('class differs')
        if g.name != frame.name or g.index.name != frame.index.name or g.columns.name != frame.columns.name:
            why.append('a name differs')
        data_flags = [b.flags.writeable for b in g._blocks._blocks]
        data_flags += [g.index.values.flags.writeable, g.columns.values.flags.writeable]
        for ix in (g.index, g.columns):
            if ix.depth > 1:
                data_flags += [ix.values_at_depth(k).flags.writeable for k in range(ix.depth)]
        if any(data_flags):
            why.append('a block or label array is writeable')
        pos_flags = [g.index.positions.flags.writeable, g.columns.positions.flags.writeable]
        ctx.count(f'struct:{how}')
        flat = di == 1 and dc == 1
        nb = len(g._blocks._blocks)
        flags_obs = [b.flags.writeable for b in g._blocks._blocks] + [g.index.values.flags.writeable, g.index.positions.flags.writeable,
                                                                   g.columns.values.flags.writeable, g.columns.positions.flags.writeable]
        yield Case(f'api:{how}', dict(base, call=f'{how} of f; equality with dtypes, names, class; flags.writeable of blocks and label arrays',
                                      observed={'writeable': data_flags, 'why': why}),
                   m=(f'list_eqb Bool.eqb (unpickle_flags {nb}) {lit.lst([lit.b(x) for x in flags_obs])}' if (how == 'pickle' and flat) else None),
                   s=f'oframe_eqb {_oframe(frame)} {_oframe(g)}', py_fail='; '.join(why) or None, tags=tags)
        yield Case(f'api:{how}-positions', dict(base, call=f'{how} of f; flags.writeable of index.positions / columns.positions', observed={'writeable': pos_flags}),
                   py_fail='a positions array is writeable' if any(pos_flags) else None,
                   tags=tags)





# ----------------------------------------------------------------------------- oracle sweeps (machinery, not property)
def _otext(fields):
    return lit.lst([_tx(x) for x in fields])


def oracle_cases(ctx):
    """Exhaustive small sweeps of the Gallina oracle models against csv / NumPy / Python themselves.
    A mismatch is a failure of the machinery (MachineryError), never a violation of the property."""
    import csv
    from numpy.lib._iotools import LineSplitter
    from .. import core
    if ctx.scale != 1.0:
        return
    try:        # generate() failed closed: the model does not build, only the specification side is evaluated
        with open(os.path.join(core.COQ, 'Gen', 'Gen_c16.v')) as fh:
            if fh.read(12).startswith('(* BROKEN'):
                return
    except OSError:
        return
    quick = ctx.tier == 'quick'
    out = []

    def add(kind, desc, term):
        out.append(Case(kind, desc, m=term, tags={'op': 'oracle'}))

    A = ['a', '1', ' ', ',', '"', '\t', '-', '|']
    strings = lambda n, alpha: [''.join(t) for k in range(n + 1) for t in itertools.product(alpha, repeat=k)]
    # csv.writer: every record of <= 2 (3) fields of length <= 2
    fields = strings(1 if quick else 2, A)
    for d in (',', '\t', '|'):
        for nf in (1, 2) if quick else (1, 2, 3):
            pool = fields if nf < 3 else strings(1, A)
            for row in itertools.product(pool, repeat=nf):
                buf = io.StringIO()
                csv.writer(buf, delimiter=d, lineterminator='\n').writerow(row)
                line = buf.getvalue()[:-1]
                add('oracle:csv.writer', {'delimiter': d, 'row': list(row), 'line': line},
                    f'text_eqb (csv_write_row {_ch(d)} {_otext(row)}) {_tx(line)}')
        # csv.reader: every line of length <= 3 (4)
        for line in strings(3 if quick else 4, A):
            got = list(csv.reader(io.StringIO(line + '\n'), delimiter=d))
            got = got[0] if got else []
            if len(list(csv.reader(io.StringIO(line + '\nz\n'), delimiter=d))) != 2 or any('\n' in x for x in got):
                want = 'None'       # a quote left open: the real reader goes on with the next line
            else:
                want = f'(Some {_otext(got)})'
            add('oracle:csv.reader', {'delimiter': d, 'line': line, 'fields': got},
                f'option_eqb (list_eqb text_eqb) (csv_read_line {_ch(d)} {_tx(line)}) {want}')
    # genfromtxt's LineSplitter
    split = LineSplitter('\t', comments=None, autostrip=False)
    for line in strings(4 if quick else 5, ['a', ' ', '\t', ',']):
        got = split(line + '\n')
        add('oracle:genfromtxt.split', {'line': line, 'fields': got}, f'list_eqb text_eqb (gen_split {_tx(line)}) {_otext(got)}')
    # genfromtxt(dtype=None) on a column of one or two cells (in the middle of the line, so no edge stripping)
    B = ['a', '1', '0', ' ', ',', '"', '-', '.', '|', '+']
    cells1 = strings(3 if quick else 4, B)
    tokens = ['True', 'False', 'true', 'TRUE', 'None', 'inf', '-inf', 'nan', '', ' ', '1', '-1', ' 1 ', '1.5', '-0.25', '.5', '5.', '1a', 'a', '-',
              '9223372036854775807', '9223372036854775808', '-9223372036854775808', '007', '0.125', '1 1', '--1', '+1', '1.0', '10.75']
    columns = [[c] for c in cells1] + [[c] for c in tokens] + [[a, b] for a in tokens for b in tokens]

    def pv(v):
        return _py(v)
    with warnings.catch_warnings():
        warnings.simplefilter('ignore')
        for col in columns:
            try:
                arr = np.genfromtxt(['x\t%s\ty' % c for c in col], delimiter='\t', comments=None, names=None, dtype=None, encoding=None, invalid_raise=False)
                if arr.dtype.names is None:
                    # uniform type: all three columns have the type of the middle one
                    vals = [pv(v) for v in np.atleast_2d(arr)[:, 1].tolist()]
                    kind = arr.dtype.kind
                else:
                    name = arr.dtype.names[1]
                    vals = [pv(v) for v in np.atleast_1d(arr[name]).tolist()]
                    kind = arr.dtype[1].kind
                exp = ('ok', kind, vals)
            except TypeError:
                exp = ('TypeError',)
            except Exception as e:  # noqa
                raise core.MachineryError(f'oracle sweep: genfromtxt raised {type(e).__name__} on {col!r}')
            cells = _otext(col)
            if all(c.strip(' ') == '' for c in col):
                term = f'res_eqb tcol_eqb (infer_col {cells}) (Err "OutOfModel:all-missing column")'
            elif exp[0] == 'TypeError':
                term = f'res_eqb tcol_eqb (infer_col {cells}) (Err "TypeError")'
            else:
                _, kind, vals = exp
                inexact = kind == 'f' and any(not _decimal_exact(c) for c in col if c.strip(' ') != '')
                big = any(_INT_RE.match(c) and not (-2 ** 63 <= int(c) <= 2 ** 63 - 1) for c in col)
                okterm = f'tcol_eqb r ({_KINDS[kind]}, {lit.lst([_val(v) for v in vals])})'
                if all(c.strip(' ') == '' or c.upper() in ('TRUE', 'FALSE') for c in col) and any(c.strip(' ') == '' for c in col):
                    term = f'res_eqb tcol_eqb (infer_col {cells}) (Err "OutOfModel:bool column with a missing cell")'
                elif inexact or big:
                    term = (f'match infer_col {cells} with Err e => String.eqb e "OutOfModel:inexact float" || String.eqb e "OutOfModel:int64" '
                            f'| Ok r => {okterm} end')
                else:
                    term = f'match infer_col {cells} with Err _ => false | Ok r => {okterm} end'
            add('oracle:genfromtxt.infer', {'column': col, 'numpy': [str(x) for x in exp]}, term)
    # f'{x}' of the scalars the generators use
    ints = [0, 1, -1, 9, 10, -10, 99, 100, 2 ** 31, -2 ** 31 - 1, 2 ** 53, 2 ** 63 - 1, -2 ** 63, 10 ** 15 + 1, 123456789012345678]
    floats = [k / 8 for k in range(-40, 41)] + [k / 4 for k in (-999, 999, 1001)] + [k / 1024 for k in (1, 3, -5, 1023, 1025, 10 ** 6 + 1)] + \
             [10 ** 6 / 8, -(10 ** 6) / 8, 123456.125, 2.0 ** 40, 0.0001220703125, 999999999999999.0]
    for v in ints:
        add('oracle:format', {'value': v, 'text': f'{np.int64(v)}'}, f'text_eqb (render_val filter_default (VInt {lit.z(v)})) {_tx(f"{np.int64(v)}")}')
    for v in floats:
        n, dd = float(v).as_integer_ratio()
        add('oracle:format', {'value': v, 'text': f'{np.float64(v)}'},
            f'float_renderable {lit.z(n)} {lit.z(dd)} && text_eqb (render_val filter_default (VFlt {lit.z(n)} {lit.z(dd)})) {_tx(f"{np.float64(v)}")}')
    for i, c in enumerate(out):
        c.cid = i
    try:
        fail_m, _ = core.eval_cases(ID + '_oracle', IMPORTS, out, shard_size=SHARD_SIZE)
    except core.MachineryError:
        # a coqc killed by the kernel's OOM killer on a loaded machine: try once more before giving up
        fail_m, _ = core.eval_cases(ID + '_oracle', IMPORTS, out, shard_size=SHARD_SIZE)
    if fail_m:
        bad = [c for c in out if c.cid in fail_m][:5]
        raise core.MachineryError('oracle model disagrees with csv / NumPy / Python (machinery failure, not a property violation): ' +
                                  '; '.join(f'{c.kind} {c.desc}' for c in bad))
    for c in out:
        ctx.count(c.kind)
        yield Case(c.kind, dict(c.desc, validated_in_coq=True), tags=c.tags, nontrivial=True)


def _decimal_exact(text):
    """The decimal text is exactly a double (so the model may print its ratio)."""
    from fractions import Fraction
    t = text.strip(' ')
    try:
        return Fraction(t) == Fraction(float(t))
    except (ValueError, ZeroDivisionError):
        return True


def cases(ctx):
    yield from witness_cases(ctx)
    yield from fixed_frame_cases(ctx)
    yield from random_cases(ctx)
    yield from ragged_tree_cases(ctx)
    yield from scientific_float_cases(ctx)
    yield from zero_row_cases(ctx)
    yield from structural_cases(ctx)
    yield from oracle_cases(ctx)
